"""C16 — subnet, listen and remote arguments mean what the manual says.

Correspondence: the real sshuttle.options.parse_subnetport / parse_ipport, the
real sshuttle.ssh.parse_hostport, the real sshuttle.options.parser (argparse)
and the real sshuttle.cmdline.main (SSHUTTLE_ARGS merging) are run on generated
texts; the extracted Coq model (coq/Model/Args.v) is run on the same texts.
Boundary: socket.getaddrinfo as seen by sshuttle.options — numeric literals go to
the real libc (AI_NUMERICHOST, no network), names go to the fixed table NAMES,
which is handed to the model unchanged.  Independent oracle: ipaddress.
Listen clause (implementation only): port-less host texts through parse_ipport
(host vs host:0) and `--listen` values through the real cmdline.main with
sshuttle.client.main replaced by a recorder.
Listen dispatch (implementation + model listen_dispatch): --listen texts of 1-3 elements in every family order combined with the
other options (--disable-ipv6, --method, --dns, ...) through the real cmdline.main: per family the LAST element of that family.
Remote clause at its point of use: the real sshuttle.ssh.connect runs up to its Popen call (recorded, nothing is started;
`ssh`, `myssh`, `sshpass` are empty programs at the head of PATH) on generated remote texts x --ssh-cmd forms x delimiter;
the argv and SSHPASS are compared with the model's connect_argv (Model/SshArgv.v) and, implementation-only, with the
user/password/host/port the text denotes.
Arguments in files (implementation-only): subnets in `-s FILE` / `-X FILE` and arguments in `@FILE` through the real parser
against the same texts on the command line."""
import io
import ipaddress
import itertools
import os
import re
import socket
import sys

PROP = "C16"
RULE = ("texts x parsers: every generated text is given to parse_subnetport, parse_ipport and parse_hostport (real and model); "
        "IPv4 spellings (1-4 parts, decimal/hex/octal, boundary values), IPv6 spellings (every compression, leading zeros, upper case, "
        "embedded IPv4), widths -1..33/127..129, ports and ranges, bracket combinations, names from the table, single-edit mutants, "
        "printable garbage, non-ASCII digits/letters (real code only); argv = SSHUTTLE_ARGS ++ command line over all store-type options; "
        "listen texts = every generated IPv4 spelling / bracketed IPv6 spelling / table name without a port part (host vs host:0) and "
        "--listen values of one entry or one per family, with and without ports, through the real cmdline.main up to client.main (real code only); "
        "--listen texts of 1-3 elements in every family order x sets of other options (--disable-ipv6, --method, --dns, ...) x placement in "
        "SSHUTTLE_ARGS / command line, and no --listen at all, through the real cmdline.main up to client.main (real and model listen_dispatch); "
        "remote texts x ssh command forms x delimiter through the real ssh.connect up to Popen (argv and SSHPASS); subnets files (-s/-X, comments, blank lines, "
        "padding, interleaved with -x) and @files (one argument per line, comments, padding, matching quotes) against the command-line spelling (real code only); "
        "a case is non-trivial when at least one of the three readers accepts it or it is a mutant of an accepted text; distinct by content hash")
TRUSTED_BASE = [
    "modelled, not verified: CPython re (the five regular expressions are re-implemented as structural recognisers), int() incl. the 4300-digit limit, "
    "str.split/rsplit/partition, the idna codec's ASCII fast path, urllib.parse.urlsplit/_hostinfo/port of Python 3.12, ipaddress.ip_address, argparse store semantics",
    "modelled, not verified: glibc 2.36 getaddrinfo for numeric hosts (__inet_aton_exact, inet_pton(AF_INET6), inet_ntop, numeric service -> int -> htons); "
    "differentially tested against the real libc on every run",
    "ssh.connect's Popen is replaced by a recorder (the argv and the SSHPASS value the child would inherit); shlex.split(ssh_cmd) and the remote command word are inputs of the model's connect_argv",
    "socket.getaddrinfo for NAMES is replaced by the fixed table in harness/props/c16.py (the sandbox has no DNS); the same table is the model's resolver argument",
]
ASSUMPTIONS = [
    "argument text is ASCII for the model/theorems (Python's \\w and \\d are Unicode-aware on str: non-ASCII digits are accepted as widths/ports, "
    "fullwidth digits in a host are folded by the idna codec — observed by the harness on the real code only)",
    "a host name resolves to what the resolver table says (DNS names resolving to several addresses are a parameter of the theorems)",
    "IPv6 zone identifiers (%scope) are outside the numeric model; such hosts are answered through the table",
]

NAMES = {
    "example.com": [(10, "2606:2800:220:1:248:1893:25c8:1946"), (2, "93.184.216.34")],
    "my.local": [(10, "::1"), (2, "127.0.0.1")],
    "*.blogspot.com": [(10, "2404:6800:4004:821::2001"), (2, "142.251.42.129")],
    "v4only.test": [(2, "10.1.2.3")],
    "v6only.test": [(10, "fd00::5")],
    "multi4.test": [(2, "10.9.9.9"), (2, "10.1.1.1"), (2, "9.255.0.1")],
    "multi6.test": [(10, "fd00::9"), (10, "fd00::10")],
    "localhost": [(2, "127.0.0.1")],
    "router": [(2, "192.168.0.1")],
    "under_score-1.lan": [(2, "172.16.5.4")],
}


def hx(s):
    b = s if isinstance(s, bytes) else s.encode("utf-8", "surrogatepass")
    return b.hex() if b else "-"


def table_str(extra=None):
    t = dict(NAMES)
    if extra:
        t.update(extra)
    return ";".join("%s=%s" % (hx(h), ",".join("%d:%s" % (f, hx(a)) for f, a in v)) for h, v in sorted(t.items())) or "-"


# ---------------------------------------------------------------------------
# boundary

class World:
    """installs the resolver boundary into sshuttle.options (module attribute patch)"""

    def __init__(self):
        import sshuttle.options as options
        self.options = options
        self.real = socket.getaddrinfo
        self.calls = []
        self.scoped = {}
        world = self

        class SocketShim:
            def __getattr__(self, name):
                return getattr(socket, name)

            @staticmethod
            def getaddrinfo(host, port, family=0, type=0, proto=0, flags=0):
                return world.getaddrinfo(host, port, family, type, proto, flags)
        options.socket = SocketShim()

    def getaddrinfo(self, host, port, family, type_, proto, flags):
        self.calls.append(host)
        try:
            r = self.real(host, port, family, type_, proto, flags | socket.AI_NUMERICHOST)
            if "%" in host:
                # zone identifiers are outside the numeric model: answer recorded for the model's table
                self.scoped[host] = sorted(set((int(a[0]), a[4][0]) for a in r))
            return r
        except socket.gaierror as e:
            if e.errno != socket.EAI_NONAME:
                raise
        if host not in NAMES:
            raise socket.gaierror(socket.EAI_NONAME, "Name or service not known (C16 table)")
        # port handling is libc's: borrow it from a numeric query
        probe = self.real("127.0.0.1", port, socket.AF_INET, type_, proto, flags | socket.AI_NUMERICHOST)
        p = probe[0][4][1]
        out = []
        for fam, addr in NAMES[host]:
            if fam == 2:
                out.append((socket.AF_INET, socket.SOCK_STREAM, 6, "", (addr, p)))
            else:
                out.append((socket.AF_INET6, socket.SOCK_STREAM, 6, "", (addr, p, 0, 0)))
        return out


def n_hex(n):
    return "%x" % n


MSG = [(re.compile(r"is not a valid (address/mask:port|IP:port) format$", re.S), "Format"),
       (re.compile(r"^Unable to resolve address: ", re.S), "Resolve"),
       (re.compile(r"has IPv4 and IPv6 addresses, so the mask", re.S), "Mixed"),
       (re.compile(r"^Slash in CIDR notation ", re.S), "Width")]


def exc_str(e):
    import argparse
    if type(e) is argparse.ArgumentTypeError:
        m = str(e)
        for rx, k in MSG:
            if rx.search(m):
                return "RAISE ArgumentTypeError:" + k
        return "RAISE ArgumentTypeError:?" + m[:40]
    return "RAISE " + type(e).__name__


def usage_class(e):
    """argparse's own classification of an exception raised by a type= callable"""
    import argparse
    return isinstance(e, (argparse.ArgumentTypeError, TypeError, ValueError))


def quiet(f, *a):
    so, se = sys.stdout, sys.stderr
    sys.stdout = sys.stderr = io.StringIO()
    try:
        return f(*a)
    finally:
        sys.stdout, sys.stderr = so, se


def impl_sub(w, s):
    w.calls = []
    try:
        r = quiet(w.options.parse_subnetport, s)
        res = "OK " + ";".join("%d,%s,%s,%s,%s" % (int(f), hx(a), n_hex(wd), n_hex(fp), n_hex(lp)) for f, a, wd, fp, lp in r)
        exc = None
    except BaseException as e:       # noqa: B902 — every class is an observation
        res, exc = exc_str(e), e
    g = "G " + (hx(w.calls[0]) if w.calls else "NONE")
    return g, res, exc


def impl_ipp(w, s):
    w.calls = []
    try:
        f, a, p = quiet(w.options.parse_ipport, s)
        res, exc = "OK %d %s %d" % (int(f), hx(a), p), None
    except BaseException as e:       # noqa: B902
        res, exc = exc_str(e), e
    g = "G " + (hx(w.calls[0]) if w.calls else "NONE")
    return g, res, exc


def impl_hp(s):
    from sshuttle.ssh import parse_hostport
    try:
        u, pw, port, h = parse_hostport(s)
        o = lambda x: "N" if x is None else hx(x)
        return "OK %s %s %s %s" % (o(u), o(pw), "N" if port is None else n_hex(port), o(h)), None
    except BaseException as e:       # noqa: B902
        return "RAISE " + type(e).__name__, e


def impl_argparse(w, argv):
    """real parser.parse_args -> ('OK', namespace) | ('USAGE', None) | ('CRASH:<cls>', None)"""
    try:
        ns = quiet(w.options.parser.parse_args, argv)
        return "OK", ns
    except SystemExit as e:
        return ("USAGE" if e.code == 2 else "EXIT:%r" % (e.code,)), None
    except BaseException as e:       # noqa: B902
        return "CRASH:" + type(e).__name__, None


# ---------------------------------------------------------------------------
# generators

V4_VALUES = [0, 1, 255, 256, 65535, 65536, 0xffffff, 0x1000000, 0x7f000001, 0xb8ac0a4a, 0xc0a80000, 0xfffffffe, 0xffffffff]


def num_spell(rng, n, radix=None, pad=True):
    radix = radix or rng.choice(["d", "d", "x", "X", "o"])
    if radix == "d":
        return "%d" % n
    if radix == "o":
        return "0" + ("0" * rng.randint(0, 2) if pad and rng.random() < 0.3 else "") + ("%o" % n)
    body = "%x" % n
    if rng.random() < 0.3:
        body = body.upper()
    if pad and rng.random() < 0.3:
        body = "0" * rng.randint(1, 3) + body
    return ("0x" if radix == "x" else "0X") + body


def v4_spelling(rng, v, k=None, radix=None):
    k = k or rng.randint(1, 4)
    b = [(v >> 24) & 255, (v >> 16) & 255, (v >> 8) & 255, v & 255]
    if k == 4:
        parts = b
    elif k == 3:
        parts = [b[0], b[1], v & 0xffff]
    elif k == 2:
        parts = [b[0], v & 0xffffff]
    else:
        parts = [v]
    return ".".join(num_spell(rng, p, radix) for p in parts)


def v6_words(rng):
    kind = rng.random()
    if kind < 0.15:
        return [0] * 8
    ws = []
    for _ in range(8):
        r = rng.random()
        ws.append(0 if r < 0.5 else rng.choice([1, 0xf, 0x10, 0xff, 0x100, 0xfff, 0x1000, 0xffff, rng.randint(0, 0xffff)]))
    if kind < 0.3:
        ws[:5] = [0] * 5
        ws[5] = rng.choice([0xffff, 0, 0xfffe])
    return ws


def v6_words_arbitrary(rng):
    """eight words with ARBITRARY 16-bit values (every hex length) over a random zero mask"""
    mask = rng.randrange(256)
    if rng.random() < 0.25:
        mask &= 0x07 if rng.random() < 0.5 else 0x03          # zero run at the front: dotted-tail candidates
    ws = []
    for i in range(8):
        if not (mask >> (7 - i)) & 1:
            ws.append(0)
        else:
            hi = rng.choice([0xf, 0xff, 0xfff, 0xffff, 0xffff, 0xffff])
            ws.append(rng.choice([rng.randint(1, hi), rng.randint(1, hi), hi, (hi + 1) >> 4 or 1]))
    if mask & 0xf8 == 0 and rng.random() < 0.5:
        ws[5] = 0xffff
    return ws


def v6_pack(ws):
    return b"".join(w.to_bytes(2, "big") for w in ws)


def v6_spellings(ws, rng=None, embed=True):
    """all textual forms of eight words: full, every '::' placement over a zero run,
    optionally with the last 32 bits as a dotted quad"""
    def hexw(x):
        s = "%x" % x
        if rng is not None:
            if rng.random() < 0.2:
                s = s.upper()
            if rng.random() < 0.2:
                s = s.rjust(rng.randint(len(s), 4), "0")
        return s
    out = []
    tails = [(8, None)]
    if embed:
        tails.append((6, "%d.%d.%d.%d" % (ws[6] >> 8, ws[6] & 255, ws[7] >> 8, ws[7] & 255)))
    for n, tail in tails:
        g = ws[:n]

        def fin(txt):
            if tail is None:
                return txt
            return txt + tail if txt.endswith(":") else txt + ":" + tail
        out.append(fin(":".join(hexw(x) for x in g)))
        for i in range(n):
            for j in range(i + 1, n + 1):
                if all(x == 0 for x in g[i:j]):
                    left = ":".join(hexw(x) for x in g[:i])
                    right = ":".join(hexw(x) for x in g[j:])
                    if tail is None:
                        out.append(left + "::" + right)
                    else:
                        out.append(left + "::" + (right + ":" if right else "") + tail)
    return out


WIDTHS4 = [None, "-1", "0", "1", "8", "24", "31", "32", "33", "032", "0000000000000000000024", "128", "99999999999999999999"]
WIDTHS6 = [None, "-1", "0", "1", "32", "33", "64", "127", "128", "129", "0128", "4294967296"]
PORTS = [None, ("0", None), ("80", None), ("65535", None), ("65536", None), ("8000", "8080"), ("0", "65535"),
         ("90", "80"), ("0080", "00090"), ("99999999", None), ("1", "18446744073709551616")]
ALPH = "0123456789abcdefxXG.:/-[]*_ \n%@"


def subnet_text(host, width, ports, brackets):
    s = host + ("/" + width if width is not None else "")
    if brackets == "both":
        s = "[" + s + "]"
    elif brackets == "left":
        s = "[" + s
    elif brackets == "right":
        s = s + "]"
    if ports is not None:
        s += ":" + ports[0] + ("-" + ports[1] if ports[1] is not None else "")
    return s


def mutate(rng, s):
    if not s:
        return rng.choice(ALPH)
    i = rng.randrange(len(s))
    k = rng.random()
    if k < 0.3:
        return s[:i] + s[i + 1:]
    if k < 0.65:
        return s[:i] + rng.choice(ALPH) + s[i:]
    if k < 0.9:
        return s[:i] + rng.choice(ALPH) + s[i + 1:]
    j = rng.randrange(len(s))
    return s[:min(i, j)] + s[max(i, j):]


def gen_texts(ctx):
    """-> list of (text, kind, expectation) ; expectation = None or dict for the oracle"""
    rng = ctx.rng
    quick = ctx.quick()
    out = []

    def add(s, kind, exp=None):
        out.append((s, kind, exp))
        ctx.count("gen_" + kind)

    # --- IPv4 literals
    vals = list(V4_VALUES) + [rng.randrange(1 << 32) for _ in range(6 if quick else 60)]
    for v in vals:
        forms = set()
        for k in (1, 2, 3, 4):
            for radix in ("d", "x", "X", "o"):
                forms.add(v4_spelling(rng, v, k, radix))
            for _ in range(2 if quick else 6):
                forms.add(v4_spelling(rng, v, k))
        for h in sorted(forms):
            add(h, "v4_plain", {"fam": 2, "value": v, "width": 32, "fp": 0, "lp": 0})
            wl = WIDTHS4 if not quick else rng.sample(WIDTHS4, 4)
            for wd in wl:
                for ports in (PORTS if (not quick and rng.random() < 0.2) else rng.sample(PORTS, 2)):
                    br = rng.choice(["none", "none", "none", "both", "left", "right"])
                    s = subnet_text(h, wd, ports, br)
                    exp = None
                    if br == "none":
                        okw = wd is None or (wd.isdigit() and int(wd) <= 32)
                        exp = {"fam": 2, "value": v, "width": 32 if wd is None else (int(wd) if wd.isdigit() else None),
                               "fp": int(ports[0]) if ports else 0,
                               "lp": int(ports[1] if ports and ports[1] is not None else ports[0]) if ports else 0,
                               "reject": not okw}
                    add(s, "v4_spec", exp)
    # --- IPv6 literals
    nw = 10 if quick else 120
    wordsets = [[0] * 8, [0] * 7 + [1], [0xfc00] + [0] * 7, [0x2a01, 0x7e00, 0xe000, 0x188, 0, 0, 0, 1],
                [0, 0, 0, 0, 0, 0xffff, 0x0102, 0x0304], [0, 0, 0, 0, 0, 0, 0x0102, 0x0304], [1, 0, 0, 2, 0, 0, 0, 3],
                [1, 2, 3, 4, 5, 6, 7, 8], [0, 0, 0, 0, 0, 0, 1, 0x80], [0x64, 0xff9b, 0, 0, 0, 0, 0xc000, 0x0221]]
    wordsets += [v6_words(rng) for _ in range(nw)]
    for ws in wordsets:
        forms = v6_spellings(ws) + v6_spellings(ws, rng)
        if quick and len(forms) > 14:
            forms = forms[:4] + rng.sample(forms[4:], 10)
        for h in forms:
            emb = "." in h
            add(h, "v6_embedded" if emb else "v6_plain", {"fam": 10, "words": ws, "width": 128, "fp": 0, "lp": 0})
            for wd in rng.sample(WIDTHS6, 3 if quick else 6):
                for ports in rng.sample(PORTS, 2):
                    br = "both" if ports is not None and rng.random() < 0.7 else rng.choice(["none", "both", "left", "right"])
                    s = subnet_text(h, wd, ports, br)
                    exp = None
                    if br == "both" or (br == "none" and ports is None):
                        okw = wd is None or (wd.isdigit() and int(wd) <= 128)
                        exp = {"fam": 10, "words": ws, "width": 128 if wd is None else (int(wd) if wd.isdigit() else None),
                               "fp": int(ports[0]) if ports else 0,
                               "lp": int(ports[1] if ports and ports[1] is not None else ports[0]) if ports else 0,
                               "reject": not okw}
                    add(s, "v6_embedded_spec" if emb else "v6_spec", exp)
    # --- canonical IPv6 texts of arbitrary words (c16_canonical_v6_full): what glibc and ipaddress print
    for _ in range(150 if quick else 4000):
        ws = v6_words_arbitrary(rng)
        packed = v6_pack(ws)
        t_libc = socket.inet_ntop(socket.AF_INET6, packed)
        t_py = str(ipaddress.IPv6Address(packed))
        for t in sorted({t_libc, t_py}):
            exp = {"fam": 10, "words": ws, "width": 128, "fp": 0, "lp": 0, "canonical": t_libc, "python": t_py}
            add(t, "v6_canon_embedded" if "." in t else "v6_canon", exp)
            if rng.random() < 0.3:
                wd, ports = rng.choice(["0", "64", "128"]), rng.choice([None, ("443", None), ("8000", "8080")])
                e2 = dict(exp, width=int(wd), fp=int(ports[0]) if ports else 0,
                          lp=int(ports[1] if ports and ports[1] else ports[0]) if ports else 0)
                add(subnet_text(t, wd, ports, "both" if ports else "none"), "v6_canon_embedded_spec" if "." in t else "v6_canon_spec", e2)
    # --- names
    for name in list(NAMES) + ["unknown.test", "EXAMPLE.COM", "a..b", "x" * 63, "x" * 64, "-", "_", "*.x", "*."]:
        for wd in (None, "24", "64", "129", "33"):
            for ports in (None, ("80", None), ("80", "90")):
                add(subnet_text(name, wd, ports, "none"), "name_spec")
    # --- listen / to-ns forms
    for h in ["127.0.0.1", "0.0.0.0", "localhost", "router", "10.0", "0x7f.1", "[::1]", "[::]", "[fe80::1%1]", "[1.2.3.4]",
              "[2001:db8::ffff:1.2.3.4]", "[example.com]", "[multi4.test]", "multi4.test", "multi6.test", "my.local", "::1", ""]:
        for p in [None, "0", "53", "12300", "65535", "65536", "70000", "2147483647", "2147483648", "4294967296", "4294967376",
                  "9223372036854775808", "18446744073709551615", "18446744073709551616", "0080"]:
            add(h + (":" + p if p is not None else ""), "ipport_spec")
    for p in ["0", "1", "12300", "65535", "65536", "99999999999999999999", "007"]:
        add(p, "ipport_portonly")
    # --- remote specs
    users = [None, "user", "u.ser-1", "", "us@er", "DOMAIN\\user"]
    pws = [None, "", "pass", "p:a:ss", "p@ss", "p@s:s@", ":", "@"]
    hosts = ["host", "HOST.Example.COM", "1.2.3.4", "01.2.3.4", "2001::1", "[2001::1]", "2001:DB8::1", "[2001:DB8::1]",
             "::ffff:1.2.3.4", "[::ffff:1.2.3.4]", "fe80::1%eth0", "[fe80::1%Eth0]", "[v1.fe]", "", "[::1", "::1]", "x[::1]", "[1.2.3.4]"]
    rports = [None, "22", "0", "65535", "65536", "022", "abc", "", "22:33", "-1", "2\n2"]
    for u in users:
        for pw in (pws if u is not None else [None]):
            for h in (hosts if not quick else rng.sample(hosts, 7)):
                for p in (rports if not quick else rng.sample(rports, 4)):
                    s = ""
                    if u is not None:
                        s += u + (":" + pw if pw is not None else "") + "@"
                    s += h + (":" + p if p is not None else "")
                    add(s, "hostport_spec", {"user": u, "pw": pw, "host": h, "port": p})
    # --- host:port through ipaddress/urlparse (c16_hostport_port, c16_hostport_v6_port)
    name_alph = "abcxyzABCXYZ0123456789_.-"
    for _ in range(120 if quick else 3000):
        k = rng.random()
        if k < 0.5:
            h = "".join(rng.choice(name_alph) for _ in range(rng.choice([1, 2, 3, 5, 8, 13, 30])))
        elif k < 0.7:
            h = ".".join(str(rng.choice([0, 1, 9, 10, 99, 100, 199, 255, 256, rng.randint(0, 255)])) for _ in range(rng.choice([4, 4, 4, 3, 5])))
        else:
            ws = v6_words_arbitrary(rng)
            forms = v6_spellings(ws) + v6_spellings(ws, rng) + ([socket.inet_ntop(socket.AF_INET6, v6_pack(ws))] * 3)
            h = rng.choice(forms)
            if rng.random() < 0.85:
                h = "[" + h + "]"
        pt = rng.choice([None, "0", "22", "2222", "65535", "65536", "00022", str(rng.randint(0, 65535))])
        u = rng.choice([None, None, "user"])
        add((u + "@" if u else "") + h + (":" + pt if pt is not None else ""), "hostport_spec", {"user": u, "pw": None, "host": h, "port": pt})
    # --- very long digit runs (int() limit)
    for s in ["1.2.3.4/" + "0" * 4298 + "24", "1.2.3.4/" + "0" * 4299 + "24", "1.2.3.4:" + "9" * 4300, "1.2.3.4:" + "9" * 4301,
              "1.2.3.4:1-" + "9" * 4301, "1.2.3.4/33:" + "9" * 4301, "9" * 4301, "::1/" + "1" * 4301, "[::1]:" + "1" * 4301,
              "host:" + "0" * 4301, "0" * 63, "0" * 64, "0." * 3 + "0" * 63, "0x" + "0" * 61 + "1"]:
        add(s, "long_digits")
    # --- mutants and garbage
    base = [t for t, k, e in out if k not in ("long_digits",)]
    nmut = 3000 if quick else 60000
    for _ in range(nmut):
        s = rng.choice(base)
        for _ in range(rng.choice([1, 1, 1, 2, 3])):
            s = mutate(rng, s)
        add(s, "mutant")
    printable = "".join(chr(c) for c in range(32, 127))
    for _ in range(1500 if quick else 30000):
        n = rng.choice([0, 1, 2, 3, 5, 8, 13, 21])
        add("".join(rng.choice(printable if rng.random() < 0.7 else ALPH) for _ in range(n)), "garbage")
    for c in range(0, 128):
        add(chr(c), "single_char")
        add("1.2.3.4" + chr(c), "single_char")
        add("[::1]" + chr(c), "single_char")
    return out


NONASCII = ["1.2.3.4/٣", "1.2.3.4:٨٠", "١.2.3.4", "１.2.3.4", "1.2.3.4/２４", "²", "1.2.3.4:²",
            "٨٠", "[::1]:٨٠", "é", "hé.test", "1．2.3.4", "::１", "[::１]:80", "K", "1.2.3.4/௧௨",
            "①", "1.2.3.4/①", "x" * 70 + "é", "é" * 70, "İ.test", "a‍b", "\ud800", "1.2.3.4/\U0001d7d8", "\U0001d7d8.1"]


# ---------------------------------------------------------------------------
# oracle helpers (independent of the model: ipaddress / inet_pton)

def canonical_ok(fam, addr):
    try:
        af = socket.AF_INET if fam == 2 else socket.AF_INET6
        if socket.inet_ntop(af, socket.inet_pton(af, addr)) != addr:
            return False
        ip = ipaddress.ip_address(addr)
        return ip.version == (4 if fam == 2 else 6)
    except (OSError, ValueError):
        return False


def expected_ip(exp):
    if exp["fam"] == 2:
        return ipaddress.IPv4Address(exp["value"])
    v = 0
    for w in exp["words"]:
        v = (v << 16) | w
    return ipaddress.IPv6Address(v)


def check_subnet_oracle(ctx, s, kind, exp, res, exc):
    """property C16 on the implementation's behaviour alone"""
    if exc is not None and not usage_class(exc):
        ctx.violation("parse_subnetport raised an exception argparse does not turn into a usage error",
                      {"fn": "parse_subnetport", "text": s, "exception": type(exc).__name__})
        return
    if res.startswith("OK "):
        for ent in res[3:].split(";"):
            fam, a, wd, fp, lp = ent.split(",")
            addr = bytes.fromhex(a).decode("latin-1")
            if not canonical_ok(int(fam), addr):
                ctx.violation("returned address is not the canonical text of its family",
                              {"fn": "parse_subnetport", "text": s, "got": res[:200]})
            if int(wd, 16) > (32 if fam == "2" else 128):
                ctx.violation("width outside the family's range accepted", {"fn": "parse_subnetport", "text": s, "got": res[:200]})
    if exp is None:
        return
    if exp.get("reject"):
        if exc is None:
            ctx.violation("width outside the family's range accepted", {"fn": "parse_subnetport", "text": s, "got": res[:200]})
        return
    if exp.get("width") is None:
        return
    want_ip = expected_ip(exp)
    if exc is not None:
        emb = "embedded" in kind
        rep = {"fn": "parse_subnetport", "text": s, "got": res[:200], "expected_address": str(want_ip)}
        if emb:
            rep["finding_id"] = "F23"
            ctx.violation("IPv6 subnet with an embedded IPv4 tail is rejected", rep)
        else:
            ctx.violation("documented subnet spelling rejected", rep)
        return
    ents = res[3:].split(";")
    fam, a, wd, fp, lp = ents[0].split(",")
    if "canonical" in exp:
        got = bytes.fromhex(a).decode("latin-1")
        try:
            back = (socket.inet_pton(socket.AF_INET6, exp["canonical"]), ipaddress.IPv6Address(exp["python"]).packed,
                    str(ipaddress.ip_address(got)))
        except (OSError, ValueError) as e:
            back = (repr(e),)
        packed = v6_pack(exp["words"])
        if got != exp["canonical"] or back != (packed, packed, exp["python"]):
            ctx.violation("canonical IPv6 text is not a fixed point / does not read back as the address it denotes",
                          {"fn": "parse_subnetport", "text": s, "got": res[:200], "canonical_address": exp["canonical"]})
    got_ip = ipaddress.ip_address(bytes.fromhex(a).decode("latin-1"))
    if (len(ents) != 1 or int(fam) != exp["fam"] or got_ip != want_ip or int(wd, 16) != exp["width"]
            or int(fp, 16) != exp["fp"] or int(lp, 16) != exp["lp"]):
        ctx.violation("subnet spelling does not yield the address/width/ports it denotes",
                      {"fn": "parse_subnetport", "text": s, "got": res[:200],
                       "expected": [exp["fam"], str(want_ip), exp["width"], exp["fp"], exp["lp"]]})


def hostport_expect(s, exp):
    """(user, password, port, host) the generated remote text s = [user[:password]@]host[:port] denotes, from the parts the
    generator put in (spec side: ipaddress for literals); None when the text is outside the documented forms"""
    u, pw, h, p = exp["user"], exp["pw"], exp["host"], exp["port"]
    if u is not None and ":" in u:
        return None
    if "@" in h or not re.fullmatch(r"[A-Za-z0-9_.\-]+|\[?[0-9A-Fa-f:]+(\.[0-9.]+)?\]?", h):
        return None
    bare = h.strip("[]")
    is6 = ":" in bare
    if is6 and ((h.startswith("[")) != (h.endswith("]"))):
        return None
    try:
        want_host = str(ipaddress.ip_address(bare)) if is6 else None
    except ValueError:
        return None
    if is6 and p is not None and not h.startswith("["):
        return None      # ambiguous without brackets
    if not is6 and h.startswith("["):
        return None
    if p is not None and not (p.isdigit() and p.isascii() and int(p) <= 65535):
        return None
    if not is6:
        if ":" in s.rsplit("@", 1)[-1]:
            want_host = bare.lower()        # observation: a host given with a port is lower-cased
            try:
                want_host = str(ipaddress.ip_address(want_host))
            except ValueError:
                pass
        else:
            want_host = bare
    return u, (pw if pw else None), (None if p is None else int(p)), want_host


def check_hostport_oracle(ctx, s, exp, res):
    """valid remote specs decompose into what was put in"""
    w = hostport_expect(s, exp)
    if w is None:
        return
    u, pw, p, want_host = w
    o = lambda x: "N" if x is None else hx(x)
    want = "OK %s %s %s %s" % (o(u), o(pw), "N" if p is None else n_hex(p), o(want_host))
    if res != want:
        ctx.violation("remote specification does not decompose into the user/password/host/port it denotes",
                      {"fn": "parse_hostport", "text": s, "got": res, "expected": want})


# ---------------------------------------------------------------------------
# the remote specification at its point of use: the argv ssh.connect hands to Popen

class SshWorld:
    """boundary around the real sshuttle.ssh.connect: Popen records (argv, SSHPASS) and starts nothing; `ssh`, `myssh` and
    `sshpass` exist (as empty programs in a scratch directory at the head of PATH) so that ssh.connect's which() finds them"""

    def __enter__(self):
        import tempfile
        import types
        import sshuttle.ssh as ssh
        import sshuttle.helpers as helpers
        self.ssh, self.helpers = ssh, helpers
        self.dir = tempfile.mkdtemp(prefix="c16-ssh-")
        for n in ("ssh", "myssh", "sshpass"):
            pth = os.path.join(self.dir, n)
            with open(pth, "w") as f:
                f.write("#!/bin/sh\nexit 0\n")
            os.chmod(pth, 0o755)
        self.saved = (ssh.ssubprocess, helpers.log, helpers.verbose, os.environ.get("PATH"), os.environ.get("SSHPASS"))
        os.environ["PATH"] = self.dir + os.pathsep + (self.saved[3] or "")
        helpers.log = lambda s: None
        helpers.verbose = 0
        world = self
        self.calls = []

        class FakePopen:
            pid = 4242

            def __init__(self, argv, stdin=None, **kw):
                world.calls.append((list(argv), os.environ.get("SSHPASS")))
                self.keep = os.dup(stdin) if isinstance(stdin, int) else None     # keep the peer end open: no EPIPE

            def poll(self):
                return None
        self.FakePopen = FakePopen
        import subprocess
        ssh.ssubprocess = types.SimpleNamespace(Popen=FakePopen, PIPE=subprocess.PIPE)
        return self

    def connect(self, ssh_cmd, rhostport, delim):
        """-> ('OK', argv, sshpass) | ('RAISE <cls>', None, None)"""
        os.environ.pop("SSHPASS", None)
        del self.calls[:]
        p = rf = wf = None
        try:
            try:
                p, rf, wf = self.ssh.connect(ssh_cmd, rhostport, None, None, delim, None, {"latency_control": True})
            except Exception as e:      # noqa: BLE001 — the class is the observation
                return "RAISE " + type(e).__name__, None, None
            argv, sshpass = self.calls[-1]
            return "OK", argv, sshpass
        finally:
            for f in (rf, wf):
                if f is not None:
                    f.close()
            if p is not None and p.keep is not None:
                os.close(p.keep)

    def __exit__(self, *a):
        import shutil
        self.ssh.ssubprocess, self.helpers.log, self.helpers.verbose = self.saved[:3]
        for k, v in (("PATH", self.saved[3]), ("SSHPASS", self.saved[4])):
            if v is None:
                os.environ.pop(k, None)
            else:
                os.environ[k] = v
        shutil.rmtree(self.dir, ignore_errors=True)


SSH_CMDS = [None, "ssh", "ssh -v", "myssh -o 'ProxyCommand=nc %h %p' -F /dev/null", "ssh -i '/home/u/my key' -4"]


def ssh_argv_expected(sw, ssh_cmd, want, delim):
    """the argv (without the remote command) and SSHPASS that start ssh for the user/password/port/host `want`"""
    import shlex
    u, pw, port, host = want
    sshl = shlex.split(ssh_cmd) if ssh_cmd else ["ssh"]
    argv = (["sshpass", "-e"] if pw is not None else []) + sshl + (["-p", str(port)] if port is not None else []) + \
        [(u + "@" + host) if u else host] + (["--"] if delim else [])
    argv[0] = os.path.join(sw.dir, argv[0])
    return argv, pw


def check_ssh_argv(ctx, uniq):
    """every generated remote text through the real ssh.connect up to the Popen call: model (connect_argv) against the
    real argv; implementation-only oracle: the words that start ssh carry exactly the user, host and port the text denotes,
    the password only through SSHPASS behind `sshpass -e`"""
    import shlex
    rng = ctx.rng
    specs = [(s, exp) for s, kind, exp in uniq if kind == "hostport_spec" and exp is not None and s.isascii() and "\0" not in s]
    valid = [x for x in specs if hostport_expect(*x) is not None and hostport_expect(*x)[3]]
    rest = [x for x in specs if x not in valid]
    if ctx.quick():
        valid = rng.sample(valid, min(len(valid), 350))
        rest = rng.sample(rest, min(len(rest), 120))
    lines, cases = [], []
    with SshWorld() as sw:
        for i, (s, exp) in enumerate(valid + rest):
            ssh_cmd = SSH_CMDS[i % len(SSH_CMDS)]
            delim = bool((i // len(SSH_CMDS)) % 2)
            st, argv, sshpass = sw.connect(ssh_cmd, s, delim)
            want = hostport_expect(s, exp)
            ctx.case(("ssh_argv", s, ssh_cmd, delim), nontrivial=st == "OK",
                     sample={"kind": "remote -> ssh argv", "text": s, "ssh_cmd": ssh_cmd, "argv_without_command": argv[:-1],
                             "SSHPASS": sshpass} if i in (3, 11) and argv else None)
            ctx.count("ssh_argv_" + st.split(" ")[0] + ("_valid_spec" if want is not None and want[3] else "_other"))
            if want is not None and want[3]:
                exp_argv, exp_pw = ssh_argv_expected(sw, ssh_cmd, want, delim)
                got_head = None if argv is None else argv[:-1]
                if st != "OK" or got_head != exp_argv or sshpass != exp_pw or not argv[-1]:
                    ctx.violation("remote specification does not reach ssh as the user/password/host/port it denotes",
                                  {"fn": "ssh_argv", "text": s, "ssh_cmd": ssh_cmd, "delim": delim,
                                   "got": [st, None if got_head is None else [os.path.basename(got_head[0])] + got_head[1:], sshpass],
                                   "expected": ["OK", [os.path.basename(exp_argv[0])] + exp_argv[1:], exp_pw]})
            sshl = shlex.split(ssh_cmd) if ssh_cmd else ["ssh"]
            cmd = argv[-1] if argv else "CMD"
            lines.append("ARGV %s %s %d %s" % (",".join(hx(x) for x in sshl), hx(s), 1 if delim else 0, hx(cmd)))
            if st != "OK":
                impl = st
            elif argv[0] == sys.executable:
                impl = "LOCAL"
            else:
                impl = "OK %s SSHPASS=%s" % (",".join(hx(x) for x in [os.path.basename(argv[0])] + argv[1:]),
                                             "N" if sshpass is None else hx(sshpass))
            cases.append((s, ssh_cmd, delim, impl))
    out = ctx.run_driver(lines)
    for (s, ssh_cmd, delim, impl), m in zip(cases, out):
        if impl != m:
            ctx.disagree("connect_argv (ssh.connect up to Popen)", {"text": s[:200], "ssh_cmd": ssh_cmd, "delim": delim}, impl[:500], m[:500])


# ---------------------------------------------------------------------------
# argv merging

STORE_OPTS = [
    # dest, long, short, value generator kind
    ("listen", "--listen", "-l", "ipport"), ("method", "--method", None, "method"), ("python", "--python", None, "text"),
    ("remote", "--remote", "-r", "remote"), ("ssh_cmd", "--ssh-cmd", "-e", "text"), ("remote_shell", "--remote-shell", None, "text"),
    ("seed_hosts", "--seed-hosts", None, "text"), ("latency_buffer_size", "--latency-buffer-size", None, "int"),
    ("wrap", "--wrap", None, "int"), ("pidfile", "--pidfile", None, "text"), ("user", "--user", None, "text"),
    ("group", "--group", None, "text"), ("sudoers_user", "--sudoers-user", None, "text"), ("tmark", "--tmark", "-t", "text"),
    ("to_ns", "--to-ns", None, "ipport"), ("ns_hosts", "--ns-hosts", None, "text"), ("namespace", "--namespace", None, "ns"),
]


def gen_value(rng, kind, method_choices):
    if kind == "ipport":
        return rng.choice(["127.0.0.1:0", "0.0.0.0:12300", "[::1]:53", "10.0.0.1", "8053", "localhost:99"])
    if kind == "method":
        return rng.choice(method_choices)
    if kind == "int":
        return str(rng.choice([0, 1, 5, 1024, 65535, 32768]))
    if kind == "remote":
        return rng.choice(["user@host", "u:p@h:22", "host:2222", "[2001::1]:22", "example.com"])
    if kind == "ns":
        return rng.choice(["my_ns", "ab.cd1", "x_y"])
    return rng.choice(["ssh", "ssh -v", "a b", "x", "/usr/bin/python3", "0x01", "1.1.1.1,2.2.2.2", "h1,h2", "-", "a=b", "--dns", "v w=z", "'q'", "\"d\""])


def gen_argv(rng, method_choices, n):
    """-> (argv tokens, assignments [(dest, value)])"""
    toks, asg = [], []
    for _ in range(n):
        dest, lng, sht, kind = rng.choice(STORE_OPTS)
        v = gen_value(rng, kind, method_choices)
        form = rng.random()
        if sht and form < 0.25 and not v.startswith("-"):
            toks += [sht, v]
        elif sht and form < 0.4:
            toks += [sht + v]
        elif form < 0.7 or v.startswith("-"):
            toks += [lng + "=" + v]
        elif form < 0.8 and lng in ("--listen", "--python", "--pidfile", "--wrap", "--tmark", "--group", "--method"):
            toks += [lng[:5], v] if lng not in ("--python", "--pidfile") else [lng[:4], v]      # unambiguous abbreviations
        else:
            toks += [lng, v]
        asg.append((dest, v))
    return toks, asg


def typed(w, dest, v):
    if dest in ("latency_buffer_size", "wrap"):
        return int(v)
    if dest == "to_ns":
        return quiet(w.options.parse_ipport, v)
    if dest == "ns_hosts":
        return w.options.parse_list(v)
    return v


class StopMain(Exception):
    pass


def impl_main_args(w, env, argv):
    """run the real sshuttle.cmdline.main up to parser.parse_args and return what it parsed"""
    import shlex
    import sshuttle.cmdline as cmdline
    seen = {}

    class P:
        def parse_args(self, args):
            seen["args"] = list(args)
            seen["ns"] = impl_argparse(w, list(args))
            raise StopMain()

        def __getattr__(self, n):
            return getattr(w.options.parser, n)
    old_p, old_argv, old_env = cmdline.parser, sys.argv, os.environ.get("SSHUTTLE_ARGS")
    cmdline.parser = P()
    sys.argv = ["sshuttle"] + list(argv)
    if env is None:
        os.environ.pop("SSHUTTLE_ARGS", None)
    else:
        os.environ["SSHUTTLE_ARGS"] = shlex.join(env)
    try:
        try:
            cmdline.main()
        except StopMain:
            pass
    finally:
        cmdline.parser, sys.argv = old_p, old_argv
        if old_env is None:
            os.environ.pop("SSHUTTLE_ARGS", None)
        else:
            os.environ["SSHUTTLE_ARGS"] = old_env
    return seen.get("args"), seen.get("ns")


def correspondence_argv(ctx, w):
    rng = ctx.rng
    mc = list(w.options.method_choices)
    lines, cases = [], []
    for i in range(250 if ctx.quick() else 4000):
        ne, nc = rng.choice([0, 1, 2, 3, 5]), rng.choice([0, 1, 2, 3, 5])
        et, ea = gen_argv(rng, mc, ne)
        ct, ca = gen_argv(rng, mc, nc)
        if any(d == "namespace" for d, _ in ea + ca) and sys.platform != "linux":
            continue
        use_env = None if (ne == 0 and rng.random() < 0.5) else et
        args, (cls, ns) = impl_main_args(w, use_env, ct + ["10.0.0.0/8"])
        ctx.count("argv_env_%d_cli_%d" % (min(ne, 3), min(nc, 3)))
        if args != et + ct + ["10.0.0.0/8"]:
            ctx.violation("cmdline.main does not parse SSHUTTLE_ARGS followed by the command line",
                          {"fn": "main", "env": et, "argv": ct, "parsed": args})
            continue
        if cls != "OK":
            ctx.disagree("argv", {"env": et, "argv": ct}, cls, "OK", None)
            continue
        dests = sorted(set(d for d, _ in ea + ca) | {rng.choice(STORE_OPTS)[0]})
        for d in dests:
            if d == "namespace" and sys.platform != "linux":
                continue
            enc = lambda a: ",".join("%s=%s" % (hx(x), hx(y)) for x, y in a) or "-"
            lines.append("EFF %s %s %s" % (hx(d), enc(ea), enc(ca)))
            cases.append((d, ea, ca, getattr(ns, d), et, ct))
    out = ctx.run_driver(lines)
    for (d, ea, ca, got, et, ct), o in zip(cases, out):
        ctx.case(("argv", d, tuple(ea), tuple(ca)), nontrivial=bool(ea and ca),
                 sample={"kind": "argv", "env": et, "cli": ct, "dest": d, "value": repr(got)} if ea and ca else None)
        model = w.options.parser.get_default(d) if o == "N" else typed(w, d, bytes.fromhex(o.replace("-", "")).decode("latin-1"))
        if model != got:
            ctx.disagree("effective option value", {"dest": d, "env": et, "cli": ct}, repr(got), repr(model), None)
        # oracle on the implementation alone: the command line wins, else the environment, else the default
        cl = [v for x, v in ca if x == d]
        en = [v for x, v in ea if x == d]
        want = typed(w, d, cl[-1]) if cl else typed(w, d, en[-1]) if en else w.options.parser.get_default(d)
        if want != got:
            ctx.violation("an option given on the command line does not override the one from SSHUTTLE_ARGS",
                          {"fn": "main", "env": et, "argv": ct, "dest": d, "got": repr(got), "expected": repr(want)})


# ---------------------------------------------------------------------------
# arguments and subnets read from files: `@file` (one argument per line) and `-s file` / `-X file` (one subnet per line)

def ns_dict(ns):
    return dict((k, repr(v)) for k, v in sorted(vars(ns).items()))


def decorate_lines(rng, toks, quotes=False):
    """the lines of a configuration file carrying the arguments toks, one per line, with what the manual allows around
    them: comment lines, blank lines (subnet files only: see caller), blanks around a line"""
    out = []
    for t in toks:
        if rng.random() < 0.25:
            out.append("# " + rng.choice(["company-internal API", "home IoT", "--dns", "10.0.0.0/8", ""]))
        pad_l, pad_r = rng.choice(["", "", " ", "\t", "  "]), rng.choice(["", "", " ", "\t "])
        if quotes and rng.random() < 0.2 and "'" not in t and '"' not in t:
            q = rng.choice("'\"")
            t = q + t + q
        out.append(pad_l + t + pad_r)
    if rng.random() < 0.3 or not out:
        out.append("# trailing comment")        # (an empty line in an @file is an empty ARGUMENT: never produced here)
    return "\n".join(out) + ("\n" if rng.random() < 0.8 else "")


def check_arg_files(ctx, w, uniq):
    """implementation-only oracle: what is written in a file means what the same text means on the command line"""
    import shutil
    import tempfile
    rng = ctx.rng
    mc = list(w.options.method_choices)
    d = tempfile.mkdtemp(prefix="c16-files-")
    n = 0

    texts = {}

    def write(text):
        nonlocal n
        n += 1
        pth = os.path.join(d, "f%d.conf" % n)
        with open(pth, "w") as f:
            f.write(text)
        texts[pth] = text
        return pth

    def files_of(argv):
        return dict((a.lstrip("@"), texts[a.lstrip("@")]) for a in argv if a.lstrip("@") in texts)
    try:
        # subnet texts the parser accepts, with a plain shape (no blanks, not option- or comment-like)
        good = [s for s, kind, exp in uniq if kind in ("v4_spec", "v6_spec", "v4_plain", "v6_plain", "name_spec", "v6_canon_spec")
                and s.isascii() and s and not any(c.isspace() for c in s) and s[0] not in "#@-'\"" and len(s) < 120]
        good = [s for s in rng.sample(good, min(len(good), 400)) if impl_sub(w, s)[1].startswith("OK ")]
        bad = ["1.2.3.4/33", "[::1]/129", "no such host.test", "1.2.3.4:x"]
        # --- A: -s FILE / -X FILE against positional subnets / -x
        for i in range(60 if ctx.quick() else 1200):
            inc = [rng.choice(good) for _ in range(rng.choice([0, 1, 2, 5]))]
            groups = []             # excludes in command-line order: ("x", text) or ("X", [texts])
            for _ in range(rng.choice([0, 1, 2, 3])):
                groups.append(("x", rng.choice(good)) if rng.random() < 0.5 else ("X", [rng.choice(good) for _ in range(rng.choice([0, 1, 3]))]))
            spoil = rng.random() < 0.12
            argv_file, argv_cli = [], []
            if inc or rng.random() < 0.3:
                lines = list(inc)
                if spoil:
                    lines.insert(rng.randrange(len(lines) + 1), rng.choice(bad))
                argv_file += ["-s", write(decorate_lines(rng, lines).replace("\n#", "\n\n#", 1))]
            argv_cli += list(inc)
            for kind, val in groups:
                if kind == "x":
                    argv_file += ["-x", val]
                    argv_cli += ["-x", val]
                else:
                    argv_file += ["-X", write(decorate_lines(rng, val))]
                    for t in val:
                        argv_cli += ["-x", t]
            tail = ["-r", "host"] + ([] if inc else ["-N"])
            cf, nf = impl_argparse(w, argv_file + tail)
            cc, nc = impl_argparse(w, argv_cli + tail)
            ctx.case(("subnet_file", tuple(argv_cli), spoil), nontrivial=True,
                     sample={"kind": "subnets file", "command_line_spelling": argv_cli[:8], "outcome": cf} if i == 2 else None)
            ctx.count("subnet_file_" + cf.split(":")[0])
            if spoil and "-s" in argv_file:
                if cf != "USAGE":
                    ctx.violation("a subnets file with an unacceptable line does not end in a usage error",
                                  {"fn": "subnet_file", "argv_file": argv_file + tail, "argv_cli": argv_cli + tail, "files": files_of(argv_file),
                                   "expect_usage": True, "outcome": cf})
                continue
            ok = cf == cc == "OK"
            if ok:
                flat_f = [x for sub in (nf.subnets + nf.subnets_file) for x in sub]
                flat_c = [x for sub in (nc.subnets + nc.subnets_file) for x in sub]
                ok = flat_f == flat_c and nf.exclude == nc.exclude
            if not ok:
                ctx.violation("subnets read from a file (-s / -X) do not mean what the same texts mean on the command line",
                              {"fn": "subnet_file", "argv_file": argv_file + tail, "argv_cli": argv_cli + tail, "files": files_of(argv_file),
                               "file_outcome": cf, "cli_outcome": cc,
                               "file_excludes": None if nf is None else repr(nf.exclude)[:300],
                               "cli_excludes": None if nc is None else repr(nc.exclude)[:300]})
        cf, _ = impl_argparse(w, ["-s", os.path.join(d, "does-not-exist"), "-r", "host"])
        ctx.count("subnet_file_missing_" + cf.split(":")[0])
        if cf != "USAGE":
            ctx.violation("a missing subnets file does not end in a usage error", {"fn": "subnet_file_missing", "outcome": cf})
        # --- B: @FILE (one argument per line) against the same arguments on the command line; command line after it wins
        for i in range(80 if ctx.quick() else 1500):
            ft, fa = gen_argv(rng, mc, rng.choice([0, 1, 2, 3, 5]))
            ct, ca = gen_argv(rng, mc, rng.choice([0, 0, 1, 2]))
            if any(dn == "namespace" for dn, _ in fa + ca) and sys.platform != "linux":
                continue
            subs = [rng.choice(good) for _ in range(rng.choice([0, 1, 3]))]
            ft += subs
            # (argparse takes positional subnets from ONE place only: none on the command line when the file has some)
            pos = [] if subs else ["10.0.0.0/8"]
            if any(t != t.strip() or t[:1] in ("#", "'", '"') or "\n" in t for t in ft):
                continue
            if rng.random() < 0.5:
                ft.append("--dns")
            pth = write(decorate_lines(rng, ft, quotes=True))
            args, (cls, ns) = impl_main_args(w, None, ["@" + pth] + ct + pos)
            c2, n2 = impl_argparse(w, ft + ct + pos)
            ctx.case(("argfile", tuple(ft), tuple(ct)), nontrivial=bool(ft),
                     sample={"kind": "@file", "file_arguments": ft, "cli": ct, "outcome": cls} if i == 1 else None)
            ctx.count("argfile_" + cls.split(":")[0])
            if cls != c2 or (ns is not None and ns_dict(ns) != ns_dict(n2)):
                diff = None if ns is None or n2 is None else \
                    dict((k, [ns_dict(ns)[k], ns_dict(n2)[k]]) for k in ns_dict(ns) if ns_dict(ns)[k] != ns_dict(n2).get(k))
                ctx.violation("arguments read from a configuration file (@file, one per line) do not mean what the same arguments "
                              "mean on the command line",
                              {"fn": "argfile", "file_arguments": ft, "cli": ct, "argv_file": ["@" + pth] + ct + pos, "argv_cli": ft + ct + pos,
                               "files": files_of(["@" + pth]), "file_outcome": cls, "cli_outcome": c2, "differences": diff})
    finally:
        shutil.rmtree(d, ignore_errors=True)


# ---------------------------------------------------------------------------
# listen specifications (implementation-only oracle; the spec side is ipaddress / the table NAMES)

def listen_expected(host, exp):
    """(family, canonical address) a port-less listen text denotes, from the generator's own knowledge of the
    address (exp), ipaddress, or the table NAMES; None when the text denotes no host"""
    if exp is not None and exp.get("fam") == 2 and "value" in exp:
        return 2, str(ipaddress.IPv4Address(exp["value"]))
    if exp is not None and exp.get("fam") == 10 and "words" in exp:
        return 10, socket.inet_ntop(socket.AF_INET6, v6_pack(exp["words"]))
    bare = host[1:-1] if host.startswith("[") and host.endswith("]") else host
    if bare in NAMES:
        return min(NAMES[bare])
    try:
        ip = ipaddress.ip_address(bare)
    except ValueError:
        return None
    if ip.version == 4:
        return 2, str(ip)
    return 10, socket.inet_ntop(socket.AF_INET6, ip.packed)


def listen_hosts(ctx, uniq):
    """-> [(host text without a port part, expectation or None)] : every IPv4 spelling, every IPv6 spelling in
    brackets (and bare: never accepted, with or without ':0'), names, the hosts of the ipport forms"""
    out, seen = [], set()

    def add(h, exp, kind):
        if h in seen or not h.isascii():
            return
        seen.add(h)
        out.append((h, exp))
        ctx.count("listen_host_" + kind)
    for s, kind, exp in uniq:
        if kind == "v4_plain":
            add(s, exp, "v4")
        elif kind in ("v6_plain", "v6_embedded", "v6_canon", "v6_canon_embedded") and exp is not None and exp.get("width") == 128 \
                and exp.get("fp") == 0 and "/" not in s and "[" not in s:
            add("[" + s + "]", exp, "v6_bracketed")
            if len(out) % 5 == 0:
                add(s, None, "v6_bare")
    for h in ["127.0.0.1", "0.0.0.0", "localhost", "router", "10.0", "0x7f.1", "127.1", "[::1]", "[::]", "[1:2::3]", "[1.2.3.4]",
              "[2001:db8::ffff:1.2.3.4]", "[example.com]", "[multi4.test]", "multi4.test", "multi6.test", "my.local", "v6only.test",
              "v4only.test", "example.com", "under_score-1.lan", "unknown.test", "::1", "1::2", "[::1", "::1]", "a b", "-", "_"]:
        add(h, None, "fixed")
    return out


def check_listen_text(ctx, w, h, exp):
    """a listen entry with a host and no port part denotes port 0 ("pick a free port"): parse_ipport(h) must be
    what parse_ipport(h + ':0') is, and — when the host is one the spec side knows — exactly (family, address, 0)"""
    g0, r0, e0 = impl_ipp(w, h)
    g1, r1, e1 = impl_ipp(w, h + ":0")
    want = listen_expected(h, exp)
    ctx.case(("listen_text", h), nontrivial=r0.startswith("OK") or r1.startswith("OK"))
    ctx.count("listen_text_" + r0.split(" ")[0])
    if h.isdigit() or h == "":
        return            # "just 567": the text is a port, not a host
    if r0 != r1:
        ctx.violation("a listen specification without a port does not decompose into the host and port 0 its text denotes "
                      "(parse_ipport(host) differs from parse_ipport(host:0))",
                      {"fn": "listen_text", "text": h, "got": r0, "with_port_0": r1})
        return
    if want is not None and r0.startswith("OK") and r0 != "OK %d %s 0" % (want[0], hx(want[1])):
        ctx.violation("a listen specification does not decompose into the host and port its text denotes",
                      {"fn": "listen_text", "text": h, "got": r0, "expected": "OK %d %s 0" % (want[0], hx(want[1]))})


def impl_main_listen(w, env, argv):
    """real cmdline.main with client.main replaced by a recorder -> ('OK', v6, v4) | (outcome string, None, None)"""
    import shlex
    import sshuttle.cmdline as cmdline
    got = {}

    def rec(listenip_v6, listenip_v4, *rest):
        got["v6"], got["v4"] = listenip_v6, listenip_v4
        return 0
    saved = (cmdline.client.main, sys.argv, cmdline.log, os.environ.get("SSHUTTLE_ARGS"))
    cmdline.client.main = rec
    cmdline.log = lambda s: None
    sys.argv = ["sshuttle"] + list(argv)
    if env is None:
        os.environ.pop("SSHUTTLE_ARGS", None)
    else:
        os.environ["SSHUTTLE_ARGS"] = shlex.join(env)
    try:
        try:
            rv = quiet(cmdline.main)
        except SystemExit as e:
            return "USAGE %s" % (e.code,), None, None
        except BaseException as e:       # noqa: B902
            return "CRASH " + type(e).__name__, None, None
        if "v4" not in got:
            return "RETURNED %r" % (rv,), None, None
        return "OK", got["v6"], got["v4"]
    finally:
        cmdline.client.main, sys.argv, cmdline.log = saved[:3]
        if saved[3] is None:
            os.environ.pop("SSHUTTLE_ARGS", None)
        else:
            os.environ["SSHUTTLE_ARGS"] = saved[3]


def pair_str(p):
    return None if p is None else [p[0], p[1]] if isinstance(p, tuple) else p


def run_listen_case(w, entries, form):
    """entries = [(host, port text or None)] ; -> (outcome, v6, v4, argv, env)"""
    val = ",".join(h + (":" + p if p is not None else "") for h, p in entries)
    rest = ["-r", "-", "10.0.0.0/8"]
    env = None
    if form == "long":
        argv = ["--listen", val] + rest
    elif form == "eq":
        argv = ["--listen=" + val] + rest
    elif form == "short":
        argv = ["-l", val] + rest
    elif form == "glued":
        argv = ["-l" + val] + rest
    else:
        env, argv = ["--listen", val], rest
    o, v6, v4 = impl_main_listen(w, env, argv)
    return o, v6, v4, argv, env


def check_listen_main(ctx, w, hosts):
    """`--listen host[,host]` through the real cmdline.main: what reaches client.main is, per family, the address
    the text denotes and the port it gives — 0 when it gives none"""
    rng = ctx.rng
    known = []
    for h, exp in hosts:
        want = listen_expected(h, exp)
        if want is not None and not h.isdigit() and "," not in h and not h.startswith("-") and (h.startswith("[") or ":" not in h):
            known.append((h, want))
    v4s = [x for x in known if x[1][0] == 2]
    v6s = [x for x in known if x[1][0] == 10]
    fixed4 = [x for x in v4s if x[0] in ("127.0.0.1", "0.0.0.0", "localhost", "127.1", "router", "my.local")]
    fixed6 = [x for x in v6s if x[0] in ("[::1]", "[::]", "[1:2::3]", "v6only.test")]
    n = 120 if ctx.quick() else 1500
    cases = []
    for a in fixed4 + fixed6:
        cases.append([(a, None)])
    for a in fixed4[:3]:
        for b in fixed6[:3]:
            for pa, pb in ((None, None), ("0", None), (None, "4000"), ("12300", None)):
                cases.append([(a, pa), (b, pb)])
                cases.append([(b, pb), (a, pa)])
    for _ in range(n):
        k = rng.random()
        ports = [None, None, None, "0", "12300", "4000", "65535", "53"]
        if k < 0.35 and v4s:
            cases.append([(rng.choice(v4s), rng.choice(ports))])
        elif k < 0.6 and v6s:
            cases.append([(rng.choice(v6s), rng.choice(ports))])
        elif v4s and v6s:
            c = [(rng.choice(v4s), rng.choice(ports)), (rng.choice(v6s), rng.choice(ports))]
            rng.shuffle(c)
            cases.append(c)
    for i, c in enumerate(cases):
        form = ("long", "eq", "short", "glued", "env")[i % 5]
        entries = [(h, p) for (h, _), p in c]
        want6 = want4 = None
        for (h, (fam, addr)), p in c:
            if fam == 10:
                want6 = (addr, int(p) if p is not None else 0)
            else:
                want4 = (addr, int(p) if p is not None else 0)
        o, v6, v4, argv, env = run_listen_case(w, entries, form)
        portless = any(p is None for _, p in c)
        ctx.case(("listen_main", tuple(entries), form), nontrivial=True,
                 sample={"kind": "listen", "argv": argv, "env": env, "client_main_v6": pair_str(v6), "client_main_v4": pair_str(v4)}
                 if i % 40 == 0 else None)
        ctx.count("listen_main_%s_%s" % (form, "portless" if portless else "explicit"))
        if o != "OK" or v6 != want6 or v4 != want4:
            ctx.violation("--listen does not hand client.main the host and port its text denotes (no port = 0, pick a free port)",
                          {"fn": "main_listen", "entries": [[h, p] for h, p in entries], "form": form,
                           "got": [o, pair_str(v6), pair_str(v4)], "expected": ["OK", pair_str(want6), pair_str(want4)]})


# other options a --listen text may be combined with (none of them takes part in the dispatch of the listen elements:
# Model/Args.v listen_dispatch, theorem c16_listen_dispatch).  Options with process-wide side effects in cmdline.main
# (--daemon/--syslog: stdio to syslog; --wrap/--latency-buffer-size: ssnet globals; -v: helpers.verbose) are left out.
LISTEN_CONTEXTS = [
    [], ["--disable-ipv6"], ["--dns"], ["--disable-ipv6", "--dns"], ["--method", "nat"], ["--method", "tproxy"],
    ["--method", "tproxy", "--disable-ipv6"], ["--method", "nft", "--dns", "--disable-ipv6"], ["--method", "pf", "--disable-ipv6"],
    ["--method", "auto", "--disable-ipv6", "-N"], ["-N", "-H"], ["--disable-ipv6", "--seed-hosts", "a,b"], ["--no-latency-control", "--disable-ipv6"],
    ["--to-ns", "10.0.0.1:53", "--dns"], ["--ns-hosts", "10.0.0.1,fd00::1", "--disable-ipv6"], ["-x", "10.1.0.0/16", "--disable-ipv6"],
    ["--python", "python3", "--tmark", "0x02"], ["--user", "nobody", "--disable-ipv6"], ["--remote-shell", "cmd"],
    ["--disable-ipv6", "--disable-ipv6"],
]


def listen_slot_str(x):
    """a listen address as client.main receives it -> the driver's spelling"""
    if x is None:
        return "NONE"
    if isinstance(x, str):
        return "AUTO" if x == "auto" else "STR:" + hx(x)
    return "%s:%d" % (hx(x[0]), x[1])


def run_listen_dispatch(w, val, ctxopts, place):
    """-> (outcome, v6, v4, argv, env) of the real cmdline.main; place says which of the listen option and the other
    options come from SSHUTTLE_ARGS"""
    rest = ["-r", "-", "10.0.0.0/8"]
    lst = [] if val is None else ["--listen", val]
    env = None
    if place == "cli":
        argv = lst + list(ctxopts) + rest
    elif place == "cli_rev":
        argv = list(ctxopts) + lst + rest
    elif place == "env_listen":
        env, argv = lst, list(ctxopts) + rest
    else:
        env, argv = list(ctxopts), lst + rest
    o, v6, v4 = impl_main_listen(w, env, argv)
    return o, v6, v4, argv, env


def listen_dispatch_expected(elems):
    """spec side, from the text alone (cmdline.py:82-97 as the manual's `-l [IP:]PORT[,[IP6]:PORT]` reads): the IPv6
    listen address is the LAST element that denotes an IPv6 address, the IPv4 one the last that does not; None when
    the text has no element of that family; without --listen see listen_absent_expected"""
    want6 = want4 = None
    for fam, addr, port in elems:
        if fam == 10:
            want6 = (addr, port)
        else:
            want4 = (addr, port)
    return want6, want4


def check_listen_dispatch(ctx, w, hosts):
    """the family dispatch that finishes the decomposition of a (possibly dual-stack) --listen text: 1-3 elements in
    every family order x the other options of the command line, through the real cmdline.main up to client.main,
    against the spec side above and the model's listen_dispatch"""
    rng = ctx.rng
    known = []
    for h, exp in hosts:
        want = listen_expected(h, exp)
        if want is not None and not h.isdigit() and "," not in h and not h.startswith("-") and (h.startswith("[") or ":" not in h):
            known.append((h, want))
    v4s = [x for x in known if x[1][0] == 2]
    v6s = [x for x in known if x[1][0] == 10]
    fixed4 = [x for x in v4s if x[0] in ("127.0.0.1", "0.0.0.0", "localhost", "127.1", "router", "my.local", "v4only.test")]
    fixed6 = [x for x in v6s if x[0] in ("[::1]", "[::]", "[1:2::3]", "v6only.test", "[2001:db8::ffff:1.2.3.4]")]
    ports = [None, None, "0", "12300", "4000", "65535", "53", "1"]
    patterns = [pt for k in (1, 2, 3) for pt in itertools.product((4, 6), repeat=k)]
    places = ("cli", "cli_rev", "env_listen", "env_opts")
    per = 1 if ctx.quick() else 6
    cases = []

    def element(fam, fixed):
        if fam == 4 and rng.random() < 0.12:
            p = rng.choice(ports[2:])
            return (p, None), (2, "0.0.0.0", int(p))         # "just 567"
        pool = (fixed4 if fixed else v4s) if fam == 4 else (fixed6 if fixed else v6s)
        h, (f, addr) = rng.choice(pool)
        p = rng.choice(ports)
        return (h, p), (f, addr, int(p) if p is not None else 0)
    for ci, copts in enumerate(LISTEN_CONTEXTS):
        for pt in patterns:
            for j in range(per):
                els = [element(f, fixed=(j == 0 and ci % 2 == 0)) for f in pt]
                cases.append((els, copts, places[(ci + len(cases)) % 4]))
        cases.append((None, copts, places[ci % 2]))           # no --listen at all
    lines, runs = [], []
    for i, (els, copts, place) in enumerate(cases):
        dis = "--disable-ipv6" in copts
        if els is None:
            val, entries = None, None
            want6, want4 = (None if dis else "auto"), "auto"
        else:
            entries = [e for e, _ in els]
            val = ",".join(h + (":" + p if p is not None else "") for h, p in entries)
            want6, want4 = listen_dispatch_expected([d for _, d in els])
        o, v6, v4, argv, env = run_listen_dispatch(w, val, copts, place)
        fams = "none" if els is None else "".join(str(d[0] == 10 and 6 or 4) for _, d in els)
        ctx.case(("listen_dispatch", val, tuple(copts), place), nontrivial=True,
                 sample={"kind": "listen_dispatch", "argv": argv, "env": env, "client_main_v6": pair_str(v6), "client_main_v4": pair_str(v4)}
                 if i % 97 == 0 else None)
        ctx.count("listen_dispatch_%s_%s" % (fams, "disable_ipv6" if dis else "ipv6"))
        got = [o, pair_str(v6), pair_str(v4)]
        expd = ["OK", pair_str(want6), pair_str(want4)]
        if got != expd:
            wrong_family = o == "OK" and els is not None and (
                (isinstance(v4, tuple) and any(d[0] == 10 and (d[1], d[2]) == v4 for _, d in els) and v4 != want4)
                or (isinstance(v6, tuple) and any(d[0] != 10 and (d[1], d[2]) == v6 for _, d in els) and v6 != want6))
            ctx.violation(
                ("--listen with other options: an element of one family is handed to client.main as the listen address of the OTHER family "
                 "(listenip_v4 must be the last IPv4 element of the text or None, listenip_v6 the last IPv6 element or None)")
                if wrong_family else
                ("--listen with other options: client.main does not receive, per family, the last element of that family the text gives "
                 "(None when it gives none; without --listen: IPv4 auto, IPv6 auto unless --disable-ipv6)"),
                {"fn": "main_listen_dispatch", "listen": val, "options": list(copts), "place": place, "argv": argv, "env": env,
                 "got": got, "expected": expd})
        lines.append("LISTEN %s %d %s" % ("N" if val is None else hx(val), 1 if dis else 0, table_str()))
        runs.append((val, copts, place, o, v6, v4))
    if ctx.driver:
        out = ctx.run_driver(lines)
        for (val, copts, place, o, v6, v4), m in zip(runs, out):
            impl = "OK %s %s" % (listen_slot_str(v6), listen_slot_str(v4)) if o == "OK" else o
            if impl != m and not (o != "OK" and m.startswith("RAISE")):
                ctx.disagree("listen_dispatch", {"listen": val, "options": list(copts), "place": place}, impl, m, None)
    ctx.notes.append("listen dispatch: %d command lines = {1,2,3 elements in every family order (incl. port-only elements) + no --listen} x %d "
                     "sets of other options (--disable-ipv6, --method, --dns, -N/-H, --seed-hosts, --to-ns, --ns-hosts, -x, ...) x option "
                     "placement (command line before/after, SSHUTTLE_ARGS) through the real cmdline.main up to client.main; oracle = per "
                     "family the last element of that family (spec side from the text; model listen_dispatch, theorems c16_listen_dispatch / "
                     "c16_listen_family / c16_listen_absent)" % (len(cases), len(LISTEN_CONTEXTS)))


def correspondence(ctx):
    w = World()
    texts = gen_texts(ctx)
    seen = set()
    uniq = []
    for t in texts:
        if t[0] in seen and t[2] is None:
            continue
        seen.add(t[0])
        uniq.append(t)
    tbl = table_str()
    quick = ctx.quick()
    lines, cases = [], []
    f23 = 0
    for idx, (s, kind, exp) in enumerate(uniq):
        try:
            s.encode("ascii")
        except UnicodeEncodeError:
            continue
        gs, rs, es = impl_sub(w, s)
        scoped = dict(w.scoped)
        w.scoped.clear()
        gi, ri, ei = impl_ipp(w, s)
        scoped.update(w.scoped)
        w.scoped.clear()
        rh, eh = impl_hp(s)
        t = table_str(scoped) if scoped else tbl
        if scoped:
            ctx.count("scoped_literal_answered_through_table")
        a_sub = a_ipp = None
        # the value "--" is consumed by argparse itself (CPython _get_values strips it: `--to-ns=--` / `--exclude=--`
        # yield an empty value without ever calling the type= callable), so it says nothing about the readers
        if not s.startswith("@") and s != "--" and (idx % (4 if quick else 2) == 0 or rs.startswith("OK")) and len(s) < 200:
            a_sub = impl_argparse(w, ["--", s] if idx % 8 else ["--exclude=" + s, "-N"])[0]
            a_ipp = impl_argparse(w, ["--to-ns=" + s, "-N"])[0]
            ctx.count("through_argparse")
        lines += ["SUB %s %s" % (hx(s), t), "IPP %s %s" % (hx(s), t), "HP %s" % hx(s)]
        cases.append((s, kind, exp, (gs, rs, es, a_sub), (gi, ri, ei, a_ipp), (rh, eh)))
    out = ctx.run_driver(lines)
    for i, (s, kind, exp, sub, ipp, hp) in enumerate(cases):
        msub, mipp, mhp = out[3 * i], out[3 * i + 1], out[3 * i + 2]
        gs, rs, es, a_sub = sub
        gi, ri, ei, a_ipp = ipp
        rh, eh = hp
        accepted = rs.startswith("OK") or ri.startswith("OK") or rh.startswith("OK")
        ctx.case((kind, s), nontrivial=accepted or kind == "mutant",
                 sample={"text": s[:80], "kind": kind, "parse_subnetport": rs[:120], "parse_ipport": ri[:80], "parse_hostport": rh[:80]}
                 if (kind in ("v6_spec", "v4_spec", "hostport_spec") and rs.startswith("OK") and i % 7 == 0) else None)
        ctx.count("sub_" + rs.split(" ")[0] + ("_" + rs.split(" ")[1] if rs.startswith("RAISE") else ""))
        ctx.count("ipp_" + ri.split(" ")[0] + ("_" + ri.split(" ")[1] if ri.startswith("RAISE") else ""))
        ctx.count("hp_" + rh.split(" ")[0] + ("_" + rh.split(" ")[1] if rh.startswith("RAISE") else ""))
        # --- model vs implementation
        mg, mr, ma, mr_asfound = [x.strip() for x in msub.split("|")]
        if " ".join(mg.split(" ")[:2]) != gs and not (rs == mr_asfound and rs != mr):
            # the host text is observable only when getaddrinfo was reached
            if not (mg != "G NONE" and gs == "G NONE"):
                ctx.disagree("parse_subnetport host group", s[:300], gs, mg)
            elif not rs.startswith("RAISE ArgumentTypeError:Format"):
                ctx.disagree("parse_subnetport host group", s[:300], gs, mg)
        if mr != rs:
            if rs == mr_asfound and "." in s and s.count(":") > 1:
                f23 += 1          # the model is the repaired code; the witness is reported by the oracle below
            else:
                ctx.disagree("parse_subnetport", s[:300], rs[:300], mr[:300])
        if a_sub is not None and ma != "A " + a_sub and not (rs == mr_asfound and rs != mr):
            ctx.disagree("parse_subnetport through argparse", s[:300], a_sub, ma)
        mg, mr, ma = [x.strip() for x in mipp.split("|")]
        if mr != ri:
            ctx.disagree("parse_ipport", s[:300], ri[:300], mr[:300])
        elif gi != "G NONE" and " ".join(mg.split(" ")[:2]) != gi and not (mg.startswith("G - ") and gi == "G " + hx("0.0.0.0")):
            ctx.disagree("parse_ipport host group", s[:300], gi, mg)
        if a_ipp is not None and ma != "A " + a_ipp:
            ctx.disagree("parse_ipport through argparse", s[:300], a_ipp, ma)
        if mhp != rh:
            ctx.disagree("parse_hostport", s[:300], rh[:300], mhp[:300])
        # --- property oracle on the implementation alone
        check_subnet_oracle(ctx, s, kind, exp if kind.startswith("v") else None, rs, es)
        if ei is not None and not usage_class(ei):
            ctx.violation("parse_ipport raised an exception argparse does not turn into a usage error",
                          {"fn": "parse_ipport", "text": s, "exception": type(ei).__name__})
        if a_sub is not None and a_sub not in ("OK", "USAGE"):
            ctx.violation("a subnet argument ends in an internal error instead of a usage error",
                          {"fn": "argparse", "text": s, "outcome": a_sub})
        if kind == "hostport_spec" and exp is not None:
            check_hostport_oracle(ctx, s, exp, rh)
    ctx.extra["f23_embedded_ipv4_texts_rejected_by_the_code_as_found"] = f23

    # --- numeric readers/printers against libc and ipaddress (independent oracles)
    lines, cases = [], []
    rng = ctx.rng
    for s, kind, exp in uniq:
        if kind in ("v4_plain", "v6_plain", "v6_embedded", "v6_canon", "v6_canon_embedded") or (kind in ("mutant", "garbage") and rng.random() < 0.3):
            try:
                s.encode("ascii")
            except UnicodeEncodeError:
                continue
            if "\0" in s:
                continue
            lines += ["ATON %s" % hx(s), "V6 %s" % hx(s), "PIP %s" % hx(s)]
            cases.append(s)
    out = ctx.run_driver(lines)
    for i, s in enumerate(cases):
        ma, m6, mp = out[3 * i], out[3 * i + 1], out[3 * i + 2]
        try:
            packed = socket.inet_aton(s) if not any(c.isspace() for c in s) else None
            # inet_aton() tolerates trailing white space; getaddrinfo uses the exact variant
            want = ("%x %s" % (int.from_bytes(packed, "big"), hx(socket.inet_ntoa(packed)))) if packed is not None else "NONE"
        except OSError:
            want = "NONE"
        if ma != want:
            ctx.disagree("inet_aton model vs libc", s[:100], want, ma)
        try:
            p6 = socket.inet_pton(socket.AF_INET6, s)
            ws = [int.from_bytes(p6[j:j + 2], "big") for j in range(0, 16, 2)]
            want = "%s %s %s" % (".".join("%x" % x for x in ws), hx(socket.inet_ntop(socket.AF_INET6, p6)), hx(str(ipaddress.IPv6Address(p6))))
        except OSError:
            want = "NONE"
        if m6 != want:
            ctx.disagree("inet_pton/inet_ntop(AF_INET6) model vs libc and ipaddress", s[:100], want, m6)
        try:
            want = hx(str(ipaddress.ip_address(s)))
        except ValueError:
            want = "NONE"
        if mp != want:
            ctx.disagree("ipaddress.ip_address model", s[:100], want, mp)
        ctx.case(("num", s), nontrivial=(ma != "NONE" or m6 != "NONE"))
        ctx.count("numeric_reader_cases")

    # --- non-ASCII text: real code only (the model is ASCII); totality + digit folding
    import unicodedata
    for s in NONASCII:
        gs, rs, es = impl_sub(w, s)
        gi, ri, ei = impl_ipp(w, s)
        try:
            a_sub = impl_argparse(w, ["--", s])[0]
        except UnicodeError:
            a_sub = "USAGE"
        ctx.case(("nonascii", s), nontrivial=True)
        ctx.count("nonascii_sub_" + rs.split(" ")[0])
        for fn, exc in (("parse_subnetport", es), ("parse_ipport", ei)):
            if exc is not None and not usage_class(exc):
                ctx.violation("%s raised an exception argparse does not turn into a usage error" % fn,
                              {"fn": fn, "text": s, "exception": type(exc).__name__})
        if a_sub not in ("OK", "USAGE"):
            ctx.violation("a subnet argument ends in an internal error instead of a usage error",
                          {"fn": "argparse", "text": s, "outcome": a_sub})
        # observation: Unicode decimal digits are read like ASCII digits
        folded = "".join(str(unicodedata.decimal(c)) if (ord(c) > 127 and unicodedata.decimal(c, None) is not None) else c for c in s)
        if folded != s and folded.isascii() and rs.startswith("OK"):
            g2, r2, e2 = impl_sub(w, folded)
            ctx.count("nonascii_digits_read_like_ascii" if r2 == rs else "nonascii_digits_read_differently")
    ctx.notes.append("non-ASCII: \\d/\\w/int() accept Unicode decimal digits as widths and ports; fullwidth digits in a host are folded by the idna codec; "
                     "all observed outcomes are Ok or usage error")

    ctx.notes.append("observations (outside the property text, reproduced by model and code alike): ports are not range-checked — "
                     "parse_subnetport returns e.g. 99999999 / 90-80 as given, parse_ipport lets libc wrap the port modulo 65536 "
                     "(127.0.0.1:70000 -> 4464); unbalanced brackets ('[::1', '::1]') and one trailing newline are accepted; "
                     "'::1:80' is the address ::1:80 (brackets are required for a port); parse_hostport lower-cases a host given with a port, "
                     "raises a bare ValueError for a non-numeric or >65535 port and for unbalanced brackets, and ignores text around a bracketed host; "
                     "--listen is parsed in cmdline.main, where an ArgumentTypeError from parse_ipport is not caught (traceback instead of usage error); "
                     "argparse itself swallows the option value '--' (`--to-ns=--` gives an empty list without calling parse_ipport)")
    correspondence_argv(ctx, w)

    # --- remote specifications at their point of use (ssh.connect's argv and SSHPASS)
    check_ssh_argv(ctx, uniq)

    # --- arguments and subnets written in files
    check_arg_files(ctx, w, uniq)

    # --- listen specifications without a port part (implementation-only oracle), then the family dispatch of the whole --listen
    #     text under the other options (spec side + the model's listen_dispatch = cmdline.main's step up to client.main)
    hosts = listen_hosts(ctx, uniq)
    for h, exp in hosts:
        check_listen_text(ctx, w, h, exp)
    check_listen_main(ctx, w, hosts)
    check_listen_dispatch(ctx, w, hosts)
    ctx.notes.append("listen clause, implementation-only oracle: for every generated host text without a port part (IPv4 spellings, "
                     "bracketed IPv6 spellings, names of the table; bare IPv6 is accepted neither with nor without ':0') "
                     "parse_ipport(host) == parse_ipport(host + ':0') == (family, canonical address, 0), and `--listen` values "
                     "(one entry or one per family, with and without ports; --listen/-l/=/glued/SSHUTTLE_ARGS) reach client.main through "
                     "the real cmdline.main as exactly (address, port) per family, port 0 when the text gives none; --to-ns is not "
                     "constrained here (a missing port there means the resolver's default port, chosen by the server)")
    ctx.programs = ctx.evaluations


def replay(ctx, rp):
    """re-run a stored failing input against the real code; True if it still fails"""
    w = World()
    r = rp.get("replay", {})
    fn, s = r.get("fn"), r.get("text")
    if fn == "parse_subnetport":
        g, res, exc = impl_sub(w, s)
        print("parse_subnetport(%r) -> %s" % (s, res[:200]))
        if "canonical_address" in r:
            return not res.startswith("OK 10,%s," % hx(r["canonical_address"]))
        if "expected_address" in r or "expected" in r:
            return not res.startswith("OK")
        if "exception" in r:
            return exc is not None and not usage_class(exc)
        return not res.startswith("RAISE")
    if fn == "parse_ipport":
        g, res, exc = impl_ipp(w, s)
        print("parse_ipport(%r) -> %s" % (s, res[:200]))
        return exc is not None and not usage_class(exc)
    if fn == "parse_hostport":
        res, exc = impl_hp(s)
        print("parse_hostport(%r) -> %s ; expected %s" % (s, res, r.get("expected")))
        return res != r.get("expected")
    if fn in ("subnet_file", "argfile"):
        for pth, text in r.get("files", {}).items():
            os.makedirs(os.path.dirname(pth), exist_ok=True)
            with open(pth, "w") as f:
                f.write(text)
        try:
            cf, nf = impl_argparse(w, r["argv_file"])
            cc, nc = impl_argparse(w, r["argv_cli"])
        finally:
            for pth in r.get("files", {}):
                try:
                    os.unlink(pth)
                    os.rmdir(os.path.dirname(pth))
                except OSError:
                    pass
        print("with the file(s): %s ; same text on the command line: %s" % (cf, cc))
        if r.get("expect_usage"):
            return cf != "USAGE"
        if cf != cc or cf != "OK":
            return cf != cc
        flat = lambda ns: [x for sub in (ns.subnets + ns.subnets_file) for x in sub]      # noqa: E731
        diff = dict((k, [ns_dict(nf)[k], ns_dict(nc)[k]]) for k in ns_dict(nf) if ns_dict(nf)[k] != ns_dict(nc).get(k)
                    and k not in ("subnets", "subnets_file"))
        print("differences:", diff, "" if flat(nf) == flat(nc) else "subnets: %r / %r" % (flat(nf), flat(nc)))
        return bool(diff) or flat(nf) != flat(nc)
    if fn == "ssh_argv":
        with SshWorld() as sw:
            st, argv, sshpass = sw.connect(r.get("ssh_cmd"), s, r.get("delim"))
            got = [st, None if argv is None else [os.path.basename(argv[0])] + argv[1:-1], sshpass]
        print("ssh.connect(%r, %r) starts %r ; expected %r" % (r.get("ssh_cmd"), s, got, r.get("expected")))
        return got != r.get("expected")
    if fn == "argparse":
        o = impl_argparse(w, ["--", s])[0]
        print("parse_args(['--', %r]) -> %s" % (s, o))
        return o not in ("OK", "USAGE")
    if fn == "listen_text":
        g0, r0, e0 = impl_ipp(w, s)
        g1, r1, e1 = impl_ipp(w, s + ":0")
        print("parse_ipport(%r) -> %s ; parse_ipport(%r) -> %s ; expected %s" % (s, r0, s + ":0", r1, r.get("expected", "the same")))
        return r0 != r1 or ("expected" in r and r0 != r["expected"])
    if fn == "main_listen":
        o, v6, v4, argv, env = run_listen_case(w, [(h, p) for h, p in r["entries"]], r.get("form", "long"))
        got = [o, pair_str(v6), pair_str(v4)]
        print("SSHUTTLE_ARGS=%r argv=%r -> client.main(v6, v4) = %r ; expected %r" % (env, argv, got, r.get("expected")))
        return got != r.get("expected")
    if fn == "main_listen_dispatch":
        o, v6, v4, argv, env = run_listen_dispatch(w, r.get("listen"), r.get("options", []), r.get("place", "cli"))
        got = [o, pair_str(v6), pair_str(v4)]
        print("SSHUTTLE_ARGS=%r argv=%r -> client.main(listenip_v6, listenip_v4) = %r ; expected %r" % (env, argv, got, r.get("expected")))
        return got != r.get("expected")
    if fn == "main":
        args, (cls, ns) = impl_main_args(w, r.get("env"), list(r.get("argv", [])) + ["10.0.0.0/8"])
        got = repr(getattr(ns, r["dest"])) if ns is not None and "dest" in r else None
        print("main parsed %r -> %s=%s ; expected %s" % (args, r.get("dest"), got, r.get("expected")))
        return got != r.get("expected")
    print("nothing replayable in", rp.get("kind"))
    return False


if __name__ == "__main__":
    sys.path.insert(0, os.path.join(os.path.dirname(os.path.abspath(__file__)), ".."))
    import framework
    sys.exit(framework.main(sys.modules[__name__]))
