"""C09 — stream core (see stream_common.py and coq/Model/Stream.v)."""
import os
import sys
sys.path.insert(0, os.path.dirname(os.path.abspath(__file__)))
import stream_common as sc  # noqa: E402

PROP = "C09"
DRIVER_PROP = "C01"
RULE = ("real ssnet.runonce on both tunnel ends over fake sockets, every micro-step replayed on the extracted model and the full "
        "state of both ends compared after every iteration; cases: buffer sizes 1..32768 with bulk transfers on 1-4 flows, latency control on and off, acknowledgements delayed by the scheduler; a case is non-trivial when at least one flow was "
        "accepted; distinct by case seed; plus (implementation only) the real server.main in a child process on a socket pair: k "
        "round-trip requests delivered to descriptor 0 in ONE segment (just over one read, many small ones, more than two reads' "
        "worth, one message larger than a read) give k answers without further input, for --latency-buffer-size 1..40000 incl. "
        "sizes that are no multiple of a block size; 'not answered' is decided when the server has taken every byte off the "
        "descriptor and sleeps in select(); and the budget that server.main really applies is measured: one bulk download "
        "(300000 bytes from a loopback destination) through the real server.main run with --latency-buffer-size L (1..40000 "
        "incl. 1, 256, 2047-2049, 32767, 32768, 40000), the server's round-trip request never answered — until it sleeps in "
        "select() it must have queued at most L + 4*2048 bytes of stream payload on the tunnel (c09_bound: one 2048-byte frame "
        "per callback, at most 4 callbacks per connection and iteration), must have asked (PING 'rttest') and queued none after")
TRUSTED_BASE = sc.STREAM_TB
ASSUMPTIONS = sc.STREAM_ASSUMPTIONS
PROFILES = ["latency","latency","bulk","many","noise","trickle"]


def correspondence(ctx):
    # the server's end of the ssh channel first: real server.main in a child process, requests delivered in one segment
    import time
    t0 = time.time()
    sc.server_reader_check(ctx, PROP)
    ctx.extra["tunnel_endpoint_checks_wall_s"] = round(time.time() - t0, 2)
    sc.stream_check(ctx, PROP, PROFILES, 120, 2500)


def replay(ctx, rp):
    return sc.stream_replay(ctx, rp, PROP)


if __name__ == "__main__":
    sys.path.insert(0, os.path.join(os.path.dirname(os.path.abspath(__file__)), ".."))
    import framework
    sys.exit(framework.main(sys.modules[__name__]))
