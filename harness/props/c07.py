"""C07 — tunnel messages and the start-up handshake survive any segmentation.

Correspondence: the real sshuttle.ssnet.Mux (send / flush / fill+handle) and the
real sshuttle.client._main handshake are run on scripted fake files; the
extracted Coq model (coq/Model/Wire.v) is run on the same scripts."""
import itertools
import os
import re
import sys

PROP = "C07"
RULE = ("frames x cuttings: structured streams of encoded frames (payload lengths 0,1,7,8,9,2047..2049,65534,65535), "
        "bad-magic and truncated streams, random and exhaustive cuttings into reads, random send/flush scripts with "
        "partial writes and EAGAIN, an end-of-stream read or read error after every sampled stream (implementation only), handshake deliveries cut at every position with NUL-free noise; "
        "handshake streams whose leading noise ranges over content, encoding and length (every byte value 0x01-0xff before the first "
        "NUL and between the two NULs, Latin-1/UTF-8 text, sequences that are not UTF-8, CR/LF, escape and format-like sequences, "
        "pieces of the synchronisation string, single NULs, 5000- and 70000-byte noise, random noise; intact, damaged and missing "
        "strings) x deliveries x client verbosity 0..3 with the real helpers.log writing to an ASCII sink, on scripted files and "
        "(short streams) on the real ssh.connect: the client accepts or rejects as hs_spec says and never ends any other way; a case is "
        "non-trivial when it contains at least one complete frame or one cut inside a header/sync string; distinct by content hash; "
        "the real server.main's start (synchronisation string through the real TextIOWrapper/BufferedWriter layering of sys.stdout, "
        "first messages and PONGs through the real Mux/runonce) on a raw descriptor 1 that takes 1..13 bytes per write / per first "
        "write / random scripts incl. would-block: the stream on descriptor 1 is the complete string followed by whole messages "
        "(judged by byte comparison and by the model's hs_spec + decode); the real client._main on the real ssh.connect (ssh process "
        "absent) with recording tunnel files, server bytes delivered whole / byte by byte / cut at random: nothing is written after "
        "the two uploads until the client's last handshake read, nothing at all when it rejects the string (implementation only); "
        "every sender script also with the pipe writable while messages are queued: nothing reaches the pipe outside Mux.flush")
TRUSTED_BASE = [
    "modelled, not verified: CPython struct.pack/unpack('!ccHHH'), bytes slicing, list.append; raw socket-file read(n) returns 1..n bytes (b'' at EOF), non-blocking write returns None/0..len",
    "the fake rfile/wfile objects of harness/props/c07.py stand for the ssh pipe",
    "modelled, not verified: io.BufferedWriter.flush repeats the raw write with the unwritten tail until its buffer is empty, and a raw write on a blocking descriptor takes at least one byte (WireStart.flush_all); the run itself uses the REAL io.TextIOWrapper/BufferedWriter over a scripted raw file for descriptor 1",
]
ASSUMPTIONS = [
    "Mux.fill never sees read() -> None after select reported readable (would raise TypeError in the debug2 argument)",
    "the client's handshake reads are blocking reads on an unbuffered socket file (ssh.connect: makefile('rb', buffering=0))",
]

LENS = [0, 1, 7, 8, 9, 2047, 2048, 2049, 65534, 65535]


def hx(b):
    return b.hex() if b else "-"


class FakeR:
    """raw, scripted reader: read(n) returns at most n bytes of the current chunk"""

    def __init__(self, chunks):
        self.chunks = [bytes(c) for c in chunks]

    def fileno(self):
        return 0

    def read(self, n=-1):
        if not self.chunks:
            return b""
        c = self.chunks[0]
        if n < 0 or len(c) <= n:
            self.chunks.pop(0)
            return c
        self.chunks[0] = c[n:]
        return c[:n]

    def rest(self):
        return b"".join(self.chunks)


class FastR(object):
    """FakeR for long deliveries: the same read() answers without copying the pending delivery on every read"""

    def __init__(self, chunks):
        self.chunks = [bytes(c) for c in chunks if c]
        self.i = self.off = 0

    def fileno(self):
        return 0

    def read(self, n=-1):
        if self.i >= len(self.chunks):
            return b""
        c, o = self.chunks[self.i], self.off
        if n < 0 or len(c) - o <= n:
            self.i, self.off = self.i + 1, 0
            return c[o:]
        self.off = o + n
        return c[o:o + n]

    def rest(self):
        if self.i >= len(self.chunks):
            return b""
        return self.chunks[self.i][self.off:] + b"".join(self.chunks[self.i + 1:])


class FakeW:
    def __init__(self):
        self.script = []
        self.wire = b""

    def fileno(self):
        return 1

    def write(self, b):
        k = self.script.pop(0) if self.script else None
        if k is None:
            return None
        k = min(k, len(b))
        self.wire += bytes(b[:k])
        return k

    def flush(self):
        pass


def load():
    import sshuttle.ssnet as ssnet
    ssnet.set_non_blocking_io = lambda fd: None
    return ssnet


def exc_class(e):
    if isinstance(e, AssertionError):
        return "ASSERT"
    return type(e).__name__


def impl_rx(ssnet, chunks):
    r = FakeR([])
    m = ssnet.Mux(r, FakeW())
    got = []
    m.got_packet = lambda ch, cmd, data: got.append((ch, cmd, bytes(data)))
    status = "OK"
    for c in chunks:
        r.chunks = [c]
        try:
            m.handle()
        except AssertionError:
            status = "ASSERT"
            break
    fr = ";".join("%d,%d,%s" % (a, b, hx(d)) for a, b, d in got)
    return "%s %s | %s %d" % (status, fr, hx(bytes(m.inbuf)), m.want)


def impl_rx_end(ssnet, chunks, err=None):
    """like impl_rx, then the stream ENDS: one more wake-up whose read() answers b"" (the peer closed the tunnel) or
    fails with errno `err`.  Returns (result in impl_rx's format, how that last wake-up ended)."""
    import sshuttle.helpers as helpers

    class EndR(FakeR):
        def read(self, n=-1):
            if not self.chunks and err is not None:
                raise OSError(err, "injected")
            return FakeR.read(self, n)
    r = EndR([])
    m = ssnet.Mux(r, FakeW())
    got = []
    m.got_packet = lambda ch, cmd, data: got.append((ch, cmd, bytes(data)))
    status, end = "OK", "not reached"
    for c in list(chunks) + [None]:
        r.chunks = [c] if c is not None else []
        try:
            m.handle()
            end = "returned" if c is None else end
        except AssertionError:
            status = "ASSERT"
            break
        except helpers.Fatal:
            end = "Fatal"
        except Exception as e:        # noqa
            end = type(e).__name__
    fr = ";".join("%d,%d,%s" % (a, b, hx(d)) for a, b, d in got)
    return "%s %s | %s %d" % (status, fr, hx(bytes(m.inbuf)), m.want), end


def impl_tx(ssnet, ops, probe=None, lb=None):
    """probe (a list): the pipe is WRITABLE while a message is being queued (as the ssh pipe normally is); every byte
    that reaches the pipe during Mux.send / got_packet — outside Mux.flush, which only the main loop calls — is
    recorded there as (index of the operation, bytes).  On code that only queues this changes nothing.
    lb: the value of ssnet.LATENCY_BUFFER_SIZE during the script (--latency-buffer-size; cmdline.py:37 / server.py:299
    assign it); None = the module's default."""
    if lb is not None:
        saved = ssnet.LATENCY_BUFFER_SIZE
        ssnet.LATENCY_BUFFER_SIZE = lb
        try:
            return impl_tx(ssnet, ops, probe)
        finally:
            ssnet.LATENCY_BUFFER_SIZE = saved
    w = FakeW()
    if probe is not None:
        w.script = [10 ** 9]
    m = ssnet.Mux(FakeR([]), w)
    if probe is not None:
        if w.wire:
            probe.append((-1, w.wire))     # the constructor itself wrote (its PING) — before any handshake
        w.wire, w.script = b"", []
    m.outbuf = []          # drop the constructor's PING; scripts start from an empty queue
    nsent = 0
    for n, op in enumerate(ops):
        before, keep = len(w.wire), w.script
        if probe is not None and op[0] in "SG":
            w.script = [10 ** 9]
        if op[0] == "S":
            try:
                m.send(op[1], op[2], op[3])
                nsent += 1
            except Exception:
                pass
        elif op[0] == "G":
            # a PING from the peer is handled between two flushes: the PONG is queued by the real got_packet
            m.got_packet(0, 0x4201, op[1])
            nsent += 1
        if probe is not None and op[0] in "SG":
            if len(w.wire) > before:
                probe.append((n, w.wire[before:]))
            w.script = keep
        if op[0] in "SG":
            continue
        elif op[0] == "D":
            # the main loop from here on: the pipe takes op[1] bytes per wake-up (None: whatever is offered) and
            # flush is called as long as something is queued (ssnet.runonce: the Mux asks for writability while
            # outbuf is non-empty).  Bounded: every wake-up on a pipe with room must move at least one byte.
            rounds = sum(len(b) for b in m.outbuf) // max(1, min(op[1] or 512, 512)) + len(m.outbuf) + 4
            while m.outbuf and rounds > 0:
                rounds -= 1
                w.script = [op[1] or 10 ** 9]
                m.flush()
        else:
            w.script = [op[1]]
            m.flush()
    return "%s | %s | %d" % (",".join(hx(bytes(b)) for b in m.outbuf), hx(w.wire), nsent)


def impl_enc(ssnet, ch, cmd, data):
    m = ssnet.Mux(FakeR([]), FakeW())
    m.outbuf = []
    try:
        m.send(ch, cmd, data)
    except AssertionError:
        return "ASSERTLEN"
    except Exception as e:
        if type(e).__name__ == "error":
            return "STRUCT"
        return "EXC " + type(e).__name__
    return "OK " + hx(bytes(m.outbuf[0]))


class StopLoop(Exception):
    pass


def rep_payload(blk, n):
    return (blk * (n // max(1, len(blk)) + 1))[:n]


def ops_str(ops):
    """S:ch:cmd:hex | P:ch:cmd:len:blockhex (payload = the block repeated up to len bytes) | G:hex | F:k | D:k"""
    out = []
    for o in ops:
        if o[0] == "G":
            out.append("G:" + hx(o[1]))
        elif o[0] == "S":
            if len(o[3]) > 122 and o[3] == rep_payload(o[3][:61], len(o[3])):
                out.append("P:%d:%d:%d:%s" % (o[1], o[2], len(o[3]), hx(o[3][:61])))
            else:
                out.append("S:%d:%d:%s" % (o[1], o[2], hx(o[3])))
        else:
            out.append("%s:%s" % (o[0], o[1]))
    return " ".join(out)


def ops_parse(txt):
    ops = []
    for t in txt.split():
        f = t.split(":")
        if f[0] == "G":
            ops.append(("G", bytes.fromhex(f[1]) if f[1] != "-" else b""))
        elif f[0] == "S":
            ops.append(("S", int(f[1]), int(f[2]), bytes.fromhex(f[3]) if f[3] != "-" else b""))
        elif f[0] == "P":
            ops.append(("S", int(f[1]), int(f[2]), rep_payload(bytes.fromhex(f[4]), int(f[3]))))
        else:
            ops.append((f[0], None if f[1] == "None" else int(f[1])))
    return ops


def tx_sent_ok(ops):
    """the messages a script hands to the real Mux that the format can carry (the others are rejected by Mux.send),
    in order; a handled PING counts as the PONG it queues"""
    out = []
    for o in ops:
        if o[0] == "G":
            out.append((0, 0x4202, o[1]))
        elif o[0] == "S" and o[1] <= 65535 and len(o[3]) <= 65535:
            out.append((o[1], o[2], o[3]))
    return out


def tx_drain_decode(ssnet, ops, lb=None, per_wakeup=None):
    """run the script on the real Mux, then let the main loop drain the queue (the pipe takes per_wakeup bytes per
    wake-up), and decode everything that reached the pipe with the real Mux.handle.
    Returns (decoded, expected, bytes still queued)."""
    res = impl_tx(ssnet, ops + [("D", per_wakeup)], lb=lb)
    left, wire, _ = res.split(" | ")
    wire = bytes.fromhex(wire) if wire != "-" else b""
    got = impl_rx(ssnet, [wire[i:i + 32768] for i in range(0, len(wire), 32768)] or [])
    want = "OK %s | - 0" % ";".join("%d,%d,%s" % (c, k, hx(d)) for c, k, d in tx_sent_ok(ops))
    return got, want, 0 if left == "-" else sum(len(x) // 2 for x in left.split(","))


def short_result(r):
    """decoded-messages string, long payloads abbreviated (for the replay file)"""
    return re.sub(r"[0-9a-f]{80,}", lambda m: "%s…(%d bytes)" % (m.group(0)[:16], len(m.group(0)) // 2), r)[:600]


WHAT_TX = ("messages decoded from the pipe are not the messages sent, in order (partial writes interleaved with sends; "
           "frames of every legal size, every latency buffer size)")


class LogSink(object):
    """stands for the client's stderr: an ASCII text stream with the error handler CPython gives sys.stderr
    (backslashreplace), as under LANG=C; what is logged is kept (size only matters to nobody)"""

    def __init__(self):
        import io
        self.raw = io.BytesIO()
        self.txt = io.TextIOWrapper(self.raw, encoding="ascii", errors="backslashreplace", write_through=True)

    def write(self, s):
        return self.txt.write(s)

    def flush(self):
        self.txt.flush()

    def size(self):
        return len(self.raw.getvalue())


def exc_detail(detail, e):
    if detail is not None:
        detail["exception"] = type(e).__name__
        detail["message"] = str(e)[:200]


def impl_hs(chunks, verbosity=None, detail=None):
    """run the real client._main until the main loop is reached.
    verbosity None: helpers.verbose as it is (0), log calls dropped.  verbosity 0..3: helpers.verbose is set to it
    (what -v/-vv/-vvv do) and the REAL helpers.log writes to a sink standing for stderr.  detail (a dict): receives
    the class and message of an exception other than the documented ones, and the number of bytes logged."""
    import sshuttle.client as client
    import sshuttle.ssnet as ssnet
    import sshuttle.ssh as ssh
    import sshuttle.helpers as helpers
    r = FastR(chunks)

    class Proc:
        pid = 4242

        def poll(self):
            return None

    class L:
        v4 = object()
        v6 = None

        def add_handler(self, *a):
            pass

    class FW:
        method = None
        auto_nets = []

    def fake_connect(*a, **k):
        return Proc(), r, FakeW()

    def stop(handlers, mux):
        raise StopLoop()
    old = (ssh.connect, ssnet.runonce, helpers.log, client.log, helpers.verbose)
    ssh.connect = fake_connect
    ssnet.runonce = stop
    so, se = sys.stdout, sys.stderr
    sink = None
    if verbosity is None:
        client.log = helpers.log = lambda s: None
    else:
        helpers.verbose = verbosity
        sink = sys.stderr = LogSink()
    try:
        try:
            client._main(L(), None, FW(), None, "remote", None, False, 0, None, None, False, False,
                         False, None, False, None)
        except StopLoop:
            return "1 %s" % hx(r.rest())
        except helpers.Fatal as e:
            if "expected server init string" in str(e):
                return "0 %s" % hx(r.rest())
            exc_detail(detail, e)
            return "FATAL %s" % e
        except Exception as e:
            exc_detail(detail, e)
            return "EXC %s" % type(e).__name__
    finally:
        ssh.connect, ssnet.runonce, helpers.log, client.log, helpers.verbose = old
        sys.stdout, sys.stderr = so, se
        if detail is not None and sink is not None:
            detail["logged_bytes"] = sink.size()
    return "RETURNED"


STALL_S = 0.4        # a read on the local socket pair that has not returned after this long is waiting for bytes not yet sent


def client_start_run(chunks, verbosity=None, detail=None, tunnel_frames=None):
    """(verbosity, detail: as for impl_hs.)  The real client._main from its first line to the main loop on the REAL ssh.connect (only the ssh process is
    absent: Popen is a stub that leaves us the far end of the socket pair), with the two tunnel file objects that
    ssh.connect returns wrapped in recorders.  The server's bytes are delivered piece by piece: the next piece is
    sent only when the client asks for more than has arrived, the stream is closed after the last.  Returns
    (outcome, events, info): events = ("r", bytes) / ("w", bytes) in program order from the moment ssh.connect has
    returned — i.e. after the two uploads, which are taken off the far end and counted in info["upload_bytes"].
    Every read on the real socket runs under a watchdog thread: a read that waits for bytes the harness has not sent yet
    (a reader that insists on N bytes) gets what the real server would have sent anyway — the rest of the stream — after
    STALL_S, so a run always ENDS (info["read_waits"] counts this).
    tunnel_frames = the (channel, command, payload) messages the stream carries after the synchronisation string: when
    given and the handshake is accepted, the client's real multiplexer then reads the tunnel the way the main loop does
    (select on its read descriptor, Mux.callback when readable); the next piece is delivered only when the descriptor is
    idle, and at every such moment the messages decoded so far are compared with the messages whose bytes have all been
    delivered (info["undecoded"] = first moment at which they differ, info["decoded"] = all messages decoded)."""
    import select
    import threading
    import time
    import socket
    import types
    import sshuttle.client as client
    import sshuttle.ssnet as ssnet
    import sshuttle.ssh as ssh
    import sshuttle.helpers as helpers
    keep, ev = [], []
    st = {"chunks": [bytes(c) for c in chunks if c], "peer": None, "closed": False, "upload_bytes": 0,
          "sent": 0, "reading": None, "read_waits": 0, "decoded": [], "undecoded": None}
    done = threading.Event()

    def deliver_next():
        """the next piece of the server's stream, or its end; False when there is nothing left to do"""
        if st["chunks"]:
            c = st["chunks"].pop(0)
            st["peer"].sendall(c)
            st["sent"] += len(c)
        elif not st["closed"]:
            st["peer"].shutdown(socket.SHUT_WR)
            st["closed"] = True
        else:
            return False
        return True

    def watchdog():
        while not done.wait(0.05):
            rd = st["reading"]
            if rd and time.time() - rd[0] > STALL_S and st["reading"] is rd:
                st["read_waits"] += 1
                st.setdefault("first_read_wait", {"asked_for": rd[1], "stream_bytes_delivered": st["sent"]})
                try:
                    while deliver_next():
                        pass
                except OSError:
                    pass
                st["reading"] = None

    class FakePopen(object):
        pid = 4242

        def __init__(self, argv, stdin=None, stdout=None, **kw):
            keep.append(os.dup(stdin))

        def poll(self):
            return None

    class Rec(object):
        def __init__(self, real):
            self.real = real

        def fileno(self):
            return self.real.fileno()

        def flush(self):
            pass

        def close(self):
            self.real.close()

    class RecR(Rec):
        def read(self, n=-1):
            if not select.select([self.real], [], [], 0)[0]:
                deliver_next()
            st["reading"] = (time.time(), n)
            try:
                d = self.real.read(n)
            finally:
                st["reading"] = None
            ev.append(("r", bytes(d or b"")))
            return d

    class RecW(Rec):
        def write(self, b):
            ev.append(("w", bytes(b)))
            return self.real.write(b)

    real_connect = ssh.connect

    def connect(*a, **k):
        p, rf, wf = real_connect(*a, **k)
        peer = st["peer"] = socket.socket(fileno=keep.pop())
        peer.setblocking(False)
        try:
            while True:
                d = peer.recv(1 << 16)
                if not d:
                    break
                st["upload_bytes"] += len(d)
        except (BlockingIOError, InterruptedError):
            pass
        peer.setblocking(True)
        st["files"] = (rf, wf)
        return p, RecR(rf), RecW(wf)

    class L:
        v4 = object()
        v6 = None

        def add_handler(self, *a):
            pass

    class FW:
        method = None
        auto_nets = []

    def stop(handlers, mux):
        st["queued_at_loop"] = b"".join(bytes(b) for b in mux.outbuf)
        ev.append(("loop", b""))
        mux.flush()                 # what the loop does first when the pipe is writable (shows that writes ARE recorded)
        if tunnel_frames is not None:
            read_tunnel(mux)
        raise StopLoop()

    def read_tunnel(mux):
        msgs = st["decoded"]
        mux.got_packet = lambda ch, cmd, data: msgs.append((ch, cmd, bytes(data)))
        ends, at = [], st["stream_len"] - sum(8 + len(d) for _, _, d in tunnel_frames)
        for _, _, d in tunnel_frames:
            at += 8 + len(d)
            ends.append(at)
        for _ in range(100000):
            if not mux.ok:
                break
            # what ssnet.runonce does for the multiplexer: wait for its read descriptor, then Mux.callback
            if select.select([mux.rfile], [], [], 0)[0]:
                mux.callback(mux.rfile)
                continue
            # the descriptor is idle: the client will not read again before more arrives
            complete = sum(1 for e in ends if e <= st["sent"])
            if st["undecoded"] is None and msgs != list(tunnel_frames[:complete]):
                st["undecoded"] = {"stream_bytes_delivered": st["sent"], "messages_complete_in_them": complete,
                                   "messages_decoded": len(msgs),
                                   "bytes_returned_by_the_reads_of_the_handshake": sum(len(d) for k, d in ev if k == "r")}
            if not deliver_next():
                break
    old = (ssh.connect, ssh.ssubprocess, ssnet.runonce, helpers.log, client.log, helpers.verbose)
    ssh.ssubprocess = types.SimpleNamespace(Popen=FakePopen, PIPE=getattr(old[1], "PIPE", -1))
    ssh.connect = connect
    ssnet.runonce = stop
    so, se = sys.stdout, sys.stderr
    if verbosity is None:
        client.log = helpers.log = lambda s: None
    else:
        helpers.verbose = verbosity
        sys.stderr = LogSink()
    st["stream_len"] = sum(len(c) for c in st["chunks"])
    wd = threading.Thread(target=watchdog, daemon=True)
    wd.start()
    try:
        try:
            client._main(L(), None, FW(), None, "remote.example", None, False, 0, None, None, False, False,
                         False, None, False, None)
            outcome = "RETURNED"
        except StopLoop:
            outcome = "1"
        except helpers.Fatal as e:
            outcome = "0" if "expected server init string" in str(e) else "FATAL %s" % str(e)[:80]
            if outcome != "0":
                exc_detail(detail, e)
        except Exception as e:
            outcome = "EXC %s" % type(e).__name__
            exc_detail(detail, e)
    finally:
        done.set()
        wd.join(2)
        ssh.connect, ssh.ssubprocess, ssnet.runonce, helpers.log, client.log, helpers.verbose = old
        sys.stdout, sys.stderr = so, se
        for f in list(st.get("files", ())) + [st["peer"]]:
            try:
                f and f.close()
            except Exception:
                pass
        for fd in keep:
            try:
                os.close(fd)
            except OSError:
                pass
    return outcome, ev, st


def client_start_judge(outcome, ev):
    """C07: nothing but the uploads is written before the synchronisation string is verified.  The client reads the
    tunnel for the last time (inside _main, before its loop) when it completes — or gives up on — that string, so every
    write that precedes its last read went out before the string was verified; and a client that rejects the string
    must not have written at all."""
    reads = [i for i, (k, _) in enumerate(ev) if k == "r"]
    loop = next((i for i, (k, _) in enumerate(ev) if k == "loop"), len(ev))
    last = reads[-1] if reads else -1
    early = [(i, d) for i, (k, d) in enumerate(ev) if k == "w" and (i < last or (outcome != "1" and i < loop))]
    if not early:
        return None
    i, d = early[0]
    got = b"".join(x for k, x in ev[:i] if k == "r")
    return ("the client wrote to the tunnel before it had verified the server's synchronisation string: only the two "
            "uploads of ssh.connect may go out before it — the server's start-up reader is still reading the uploaded "
            "modules through a buffer and swallows whatever follows them, whole or in part depending on the read "
            "boundaries (the server's multiplexer then misses the message or dies on half a header)",
            {"written_too_early_hex": d.hex()[:200], "bytes_written_too_early": sum(len(x) for _, x in early),
             "bytes_of_the_server_read_before_that_write_hex": got.hex()[:80],
             "handshake_outcome": {"1": "accepted", "0": "rejected"}.get(outcome, outcome)})


WHAT_HS_DIED = {
    "1": ("the client died with an exception other than the documented Fatal during the start-up handshake although the "
          "server's synchronisation string arrived intact after the leading noise and every byte was delivered, in order: "
          "recognition of the string must depend only on where the two NUL bytes and the 12-byte string are — never on what "
          "the leading noise contains, how long it is or how verbose the client is"),
    "0": ("the client died with an exception other than the documented Fatal ('expected server init string') on a stream "
          "whose synchronisation string is missing or damaged: rejecting it must not depend on what the bytes before it "
          "contain, how many they are or how verbose the client is"),
}
WHAT_HS_CUTS = "handshake outcome depends on delivery boundaries"
WHAT_HS_VERB = ("handshake outcome depends on the client's verbosity level: the same bytes in the same deliveries are accepted "
                "or rejected differently with more or fewer -v")
WHAT_HS_SPEC = ("handshake outcome differs from the stream-level specification under every delivery of the stream (skip to "
                "the first NUL, skip to the next NUL, compare the next 12 bytes with SSHUTTLE0001; leading noise is arbitrary)")


def client_start_check(ctx, streams, verbosities=(None,)):
    """implementation only: see client_start_run / client_start_judge"""
    rng = ctx.rng
    spec = dict(zip(streams, ctx.run_driver(["HSSPEC %s" % hx(s) for s in streams])))
    for n, s in enumerate(streams):
        cuts = [[s], [s[i:i + 1] for i in range(len(s))]]
        for _ in range(3 if ctx.quick() else 12):
            if len(s) > 1:
                i = rng.randint(1, len(s) - 1)
                cuts.append([s[:i], s[i:]])
        for k, chunks in enumerate(cuts):
            verb = verbosities[(n + k) % len(verbosities)]
            det = {}
            outcome, ev, st = client_start_run(chunks, verb, det)
            ctx.case(("client-start", s, tuple(chunks), verb), nontrivial=True)
            ctx.count("client_start_runs")
            if st["read_waits"]:
                ctx.count("client_start_reads_that_waited_for_bytes_not_yet_sent", st["read_waits"])
            ctx.count("client_start_outcome_%s" % outcome.split(" ")[0])
            if verb is not None:
                ctx.count("client_start_verbosity_%d" % verb)
            if st["upload_bytes"]:
                ctx.count("client_start_runs_with_upload_seen")
            if outcome == "1" and any(k == "w" for k, _ in ev):
                ctx.count("client_start_first_flush_recorded")
            bad = client_start_judge(outcome, ev)
            if bad:
                ctx.violation(bad[0], {"client_start": {"deliveries": [c.hex() for c in chunks], "verbosity": verb},
                                       "detail": dict(bad[1], upload_bytes=st["upload_bytes"])})
            if outcome.split(" ")[0] not in ("0", "1", "FATAL"):
                ctx.violation(WHAT_HS_DIED[spec[s][:1]], {"client_start": {"deliveries": [c.hex() for c in chunks], "verbosity": verb,
                                                              "expect": "accepted-or-rejected"},
                                             "detail": {"stream_hex": s.hex(), "client_outcome": dict(det, outcome=outcome),
                                                        "stream_level_spec": spec[s][:300],
                                                        "run": "real ssh.connect, ssh process absent"}})
            ref = impl_hs([c for c in chunks if c], verb).split(" ")[0]
            if ref != outcome.split(" ")[0]:
                ctx.disagree("client start: outcome on the real ssh.connect differs from the outcome on scripted files",
                             [c.hex() for c in chunks], outcome, ref)


WHAT_TUNNEL_STALL = ("the client stopped reading although bytes of the tunnel stream it had already taken off the descriptor "
                     "were undecoded: messages whose bytes had all been delivered (the server's first frames arriving in the "
                     "same segment as its synchronisation string) were not decoded while the tunnel's read descriptor was idle "
                     "— the client's main loop waits on that descriptor, so they stay undecoded until the server happens to send "
                     "more; the same bytes cut right after the synchronisation string are decoded at once.  The decoded message "
                     "sequence must depend only on the bytes sent, never on how they are split across reads")
WHAT_TUNNEL_SEQ = ("the messages the client decoded from the tunnel after the start-up handshake differ from the messages the "
                   "server sent after its synchronisation string (real client._main on the real ssh.connect, real Mux): the "
                   "decoded sequence must depend only on the bytes sent, never on how they are split across reads")


def client_tunnel_run(noise, frames, cut_at, verbosity=None):
    """one run of client_start_run with frames after the synchronisation string; cut_at = offsets at which the stream is
    cut into deliveries.  Returns (what, detail) or None."""
    s = noise + b"\0\0SSHUTTLE0001" + b"".join(encode_py(*f) for f in frames)
    pts = [0] + sorted(set(c for c in cut_at if 0 < c < len(s))) + [len(s)]
    chunks = [s[a:b] for a, b in zip(pts, pts[1:])]
    det = {}
    outcome, ev, st = client_start_run(chunks, verbosity, det, tunnel_frames=list(frames))
    info = {"handshake_outcome": outcome, "deliveries": len(chunks), "read_waits": st["read_waits"],
            "first_read_wait": st.get("first_read_wait"),
            "sent": [[c, k, len(d)] for c, k, d in frames], "decoded": [[c, k, len(d)] for c, k, d in st["decoded"]][:20]}
    if outcome != "1":
        return ("the client did not accept a stream whose synchronisation string is intact and followed by well-formed "
                "messages: recognition of the string must not depend on what follows it in the same delivery", dict(info, **det)), st
    if st["undecoded"]:
        return (WHAT_TUNNEL_STALL, dict(info, idle_descriptor_with_undecoded_messages=st["undecoded"])), st
    if st["decoded"] != list(frames):
        return (WHAT_TUNNEL_SEQ, info), st
    return None, st


def client_tunnel_check(ctx, ssnet):
    """C07 on the seam between handshake and multiplexer: synchronisation string + first frames in ONE delivery must decode
    the same as in two, and as under every other cutting (implementation only; the expected sequence is the one sent)."""
    rng, quick = ctx.rng, ctx.quick()
    sync_len = 14
    for n in range(6 if quick else 30):
        noise = [b"", b"Last login: today\r\n", bytes(rng.randrange(1, 256) for _ in range(rng.randint(1, 60)))][n % 3]
        frames = [(0, ssnet.CMD_ROUTES, b"2,10.0.0.0,8\n"), (0, ssnet.CMD_PING, b"hi")][:1 + n % 2]
        for _ in range(rng.randint(0, 4)):
            frames.append((rng.randint(0, 65535), rng.choice([ssnet.CMD_TCP_DATA, ssnet.CMD_TCP_EOF, ssnet.CMD_PING, ssnet.CMD_HOST_LIST]),
                           bytes(rng.randrange(256) for _ in range(rng.choice([0, 1, 7, 8, 9, 300, rng.randint(0, 3000)])))))
        e = len(noise) + sync_len
        total = e + sum(8 + len(d) for _, _, d in frames)
        cuts = [("one-delivery", []), ("cut-after-the-string", [e]), ("cut-in-first-header", [e + rng.randint(1, 7)]),
                ("cut-in-the-string", [e - rng.randint(1, 11)]), ("cut-after-first-frame", [e + 8 + len(frames[0][2])]),
                ("random", [rng.randint(1, total - 1) for _ in range(rng.randint(1, 6))])]
        if total <= 400 or not quick:
            cuts.append(("byte-by-byte", list(range(1, total))))
        for k, (name, cut) in enumerate(cuts):
            verb = (None, 0, 1, 2, 3)[(n + k) % 5]
            bad, st = client_tunnel_run(noise, frames, cut, verb)
            ctx.case(("client-tunnel", noise, tuple(frames), tuple(cut), verb), nontrivial=True)
            ctx.count("client_tunnel_runs")
            ctx.count("client_tunnel_%s" % name)
            ctx.count("client_tunnel_messages_decoded", len(st["decoded"]))
            if st["read_waits"]:
                ctx.count("client_start_reads_that_waited_for_bytes_not_yet_sent", st["read_waits"])
            if bad:
                ctx.violation(bad[0], {"client_tunnel": {"noise_hex": noise.hex(), "frames": [[c, k, d.hex()] for c, k, d in frames],
                                                         "cut_at": cut, "cutting": name, "verbosity": verb},
                                       "detail": bad[1]})


def hs_noise_streams(rng, quick):
    """Streams for the start-up handshake whose leading noise ranges over everything a remote login shell can print
    before the server's two NUL bytes: every byte value 0x01..0xff before the first NUL and between the two NULs,
    8-bit text in several encodings, byte sequences that are not valid UTF-8, control and escape sequences, text that
    looks like a format string, pieces of the synchronisation string itself, single NULs, very long noise, random
    noise; with intact, damaged and missing synchronisation strings, so accepted and rejected outcomes both occur.
    Returns [(kind, stream)]."""
    sync = b"\0\0SSHUTTLE0001"
    tail = b"SS\0\0\x42\x07\0\0"       # what the server sends next: the header of its first message
    allb = bytes(range(1, 256))
    out = []

    def both(kind, noise, also_both=False):
        out.append((kind + "/before-first-NUL", noise + sync + tail))
        out.append((kind + "/between-the-NULs", b"\0" + noise + b"\0SSHUTTLE0001" + tail))
        if also_both:
            out.append((kind + "/before-and-between", noise + b"\0" + noise[::-1] + b"\0SSHUTTLE0001" + tail))

    both("all-byte-values", allb, True)
    both("all-byte-values-descending", allb[::-1])
    both("high-half", bytes(range(0x80, 0x100)), True)
    for bad in (b"\xff\xfe", b"\xc3", b"\xe2\x82", b"\xed\xa0\x80", b"\xc0\x80", b"\xf5\x90\x80\x80", b"\x80", b"\xfe",
                b"ok \xe2\x82 cut\n", b"\xef\xbb\xbf"):
        both("not-utf8", bad)
    both("latin1-text", "bash: avertissement : param\xe8tre r\xe9gional non d\xe9fini\n".encode("latin-1"), True)
    both("utf8-text", "Willkommen auf gr\u00f6\u00dfe.example \u2013 viel Spa\u00df \u2713 \u65e5\u672c\u8a9e \U0001f600\n".encode("utf-8"), True)
    both("utf16-text", "motd\n".encode("utf-16-le").replace(b"\0", b"\x01"))
    for t in (b"Python 3.11.2\n", b"Welcome to host.example\r\nLast login: today\r\n\r\n", b"\r", b"\n", b"\n\n\n", b"\r\n",
              b"no newline at the end", b" ", b"\t\x0b\x0c\x1c\x1d\x1e\x85"):
        both("ascii-lines", t)
    for t in (b"\x1b[31mred\x1b[0m\x1b]0;title\x07\r\n", b"\x9b31m\x9c\x90", b"\x7f\x08\x08\x07", b"\x1b", b"\x01\x02\x03\x04"):
        both("escape-sequences", t)
    for t in (b"%s %d %(x)s %% %\n", b"{0} {x} {}\n", b"\\x00 \\n \\", b"'\"`$(x)"):
        both("format-like", t)
    for t in (b"SSHUTTLE000", b"SSHUTTLE0001", b"SSHUTTLE", b"S", b"SSHUTTLE0001SSHUTTLE0001", b"SS", b"SSHUTTLE0002"):
        both("piece-of-the-string", t)
    for kind, s in (("single-NUL-then-string", b"\0SSHUTTLE0001" + tail),
                    ("string-without-NULs", b"SSHUTTLE0001" + tail),
                    ("single-NUL-string-then-whole", b"\0SSHUTTLE0001" + sync + tail),
                    ("three-NULs", b"\0\0\0SSHUTTLE0001" + tail),
                    ("NUL-in-the-noise-after-the-first", b"a\0b\0c\0SSHUTTLE0001" + tail),
                    ("only-NUL", b"\0"), ("only-two-NULs", b"\0\0"), ("noise-NUL", b"x\0"), ("NUL-noise-NUL", b"\0x\0"),
                    ("high-noise-ends-after-NULs", b"\xff\0\xfe\0"), ("high-noise-no-NUL", b"\xff\xfe"),
                    ("all-byte-values-no-NUL", allb), ("all-byte-values-one-NUL", allb + b"\0" + allb),
                    ("high-noise-wrong-version", b"\xe9\0\xe9\0SSHUTTLE0002" + tail),
                    ("high-byte-in-the-string", b"\0\0SSHUTTLE000\xb1" + tail),
                    ("high-byte-in-the-string", b"\0\0\xd3SHUTTLE0001" + tail),
                    ("high-noise-short-string", b"\xe9\xe8\0\xe7\0SSHUTTLE000"),
                    ("high-noise-two-NULs", b"\xe9" + sync + tail),
                    ("high-bytes-after-the-string", sync + b"\xff\xfe\x80\0\0"),
                    ("string-twice", sync + sync + tail)):
        out.append((kind, s))
    # the server's output ENDS inside the announcement (every length 0..11), ssh still alive: a proper prefix of the string,
    # or nothing at all after the two NULs, is not the string -- behind no noise, 8-bit noise, and noise holding a piece of it
    for k in range(12):
        pre = b"SSHUTTLE0001"[:k]
        out.append(("ends-inside-the-string", b"\0\0" + pre))
        out.append(("ends-inside-the-string", b"motd \xe9\r\n\0\xff\0" + pre))
        if k % 3 == 0:
            out.append(("ends-inside-the-string", b"SSHUTTLE0001\0SSHUTTLE0001\0" + pre))
    # each byte value on its own (all of them in the thorough tier)
    special = [0x01, 0x09, 0x0a, 0x0d, 0x1b, 0x25, 0x5c, 0x7f, 0x80, 0x9b, 0xa0, 0xc0, 0xc3, 0xe9, 0xf4, 0xff]
    vals = sorted(set(special + rng.sample(range(1, 256), 24))) if quick else list(range(1, 256))
    for n, b in enumerate(vals):
        one = bytes([b])
        out.append(("single-byte-noise", (one + sync + tail) if n % 2 == 0 else (b"\0" + one + b"\0SSHUTTLE0001" + tail)))
    # very long noise
    def long_noise(n, kind):
        if kind == "ascii":
            line = b"Welcome to host.example, all activity is logged. \r\n"
            return (line * (n // len(line) + 1))[:n]
        return (allb * (n // 255 + 1))[:n]
    for n, kind, where in ([(5000, "ascii", 0), (5000, "8bit", 0), (5000, "8bit", 1), (70000, "8bit", 0), (70000, "ascii", 1)] if quick else
                           [(n, k, w) for n in (5000, 32768, 70000, 140000) for k in ("ascii", "8bit") for w in (0, 1)]):
        noise = long_noise(n, kind)
        out.append(("long-noise-%d-%s" % (n, kind), (noise + sync + tail) if where == 0 else (b"\0" + noise + b"\0SSHUTTLE0001" + tail)))
    # random noise
    def rnd(n):
        mode = rng.randrange(3)
        lo, hi = ((1, 255), (0x80, 0xff), (1, 0x7f))[mode]
        return bytes(rng.randint(lo, hi) for _ in range(n))
    for _ in range(30 if quick else 300):
        n1 = rng.choice([0, 0, 1, 2, 3, 13, 64, 200])
        n2 = rng.choice([0, 0, 0, 1, 2, 13, 64])
        tl = rng.choice([tail, b"", rnd(5), b"\0"])
        how = rng.randrange(8)
        if how == 0:          # one byte of the string damaged
            st = bytearray(b"SSHUTTLE0001")
            st[rng.randrange(12)] = rng.randrange(256)
            s = rnd(n1) + b"\0" + rnd(n2) + b"\0" + bytes(st) + tl
        elif how == 1:        # the stream ends early
            s = rnd(n1) + b"\0" + rnd(n2) + b"\0SSHUTTLE0001" + tl
            s = s[:rng.randint(0, len(s))]
        elif how == 2:        # a NUL somewhere in the noise
            a = bytearray(rnd(max(n1, 1)) + b"\0" + rnd(n2) + b"\0SSHUTTLE0001" + tl)
            a[rng.randrange(max(n1, 1))] = 0
            s = bytes(a)
        else:
            s = rnd(n1) + b"\0" + rnd(n2) + b"\0SSHUTTLE0001" + tl
        out.append(("random-noise", s))
    return out


def hs_cuts(rng, s, quick):
    """deliveries for one handshake stream as lists of (start, end): whole, byte by byte, one cut at every position
    (short streams) or at the positions that matter plus random ones (longer streams), a few cuts for very long ones"""
    n = len(s)
    if n == 0:
        return [[]]
    if n <= 6:
        return list(cuttings(n))
    whole, single = [(0, n)], [(i, i + 1) for i in range(n)]
    if n <= 64:
        pos = set(range(1, n))
    else:
        nul = [i for i in range(n) if s[i] == 0][:4]
        at = s.find(b"SSHUTTLE0001")
        pos = set()
        for i in nul:
            pos.update((i - 1, i, i + 1, i + 2))
        if at >= 0:
            pos.update(range(at - 2, at + 15))
        pos.update((1, 2, n - 1))
        pos.update(rng.randint(1, n - 1) for _ in range(4 if n > 400 else 16))
        pos = set(i for i in pos if 0 < i < n)
    cuts = [whole, single] + [[(0, i), (i, n)] for i in sorted(pos)]
    for _ in range(2 if quick else 8):
        pts = sorted(set(rng.randint(1, n - 1) for _ in range(rng.randint(2, 6))))
        pts = [0] + pts + [n]
        cuts.append([(pts[i], pts[i + 1]) for i in range(len(pts) - 1)])
    if n > 400:
        # what a pipe does with a long banner: pieces of a few hundred bytes
        k = rng.choice([255, 256, 509])
        cuts.append([(i, min(i + k, n)) for i in range(0, n, k)])
    return cuts


def encode_py(ch, cmd, data):
    import struct
    return struct.pack("!ccHHH", b"S", b"S", ch, cmd, len(data)) + data


def cuttings(n):
    """all 2^(n-1) cuttings of range(n) as lists of (start, end)"""
    for mask in range(1 << (n - 1)) if n > 0 else [0]:
        cuts = [0] + [i + 1 for i in range(n - 1) if mask >> i & 1] + [n]
        yield [(cuts[i], cuts[i + 1]) for i in range(len(cuts) - 1)]


def random_cut(rng, s, maxpieces=12):
    if not s:
        return []
    k = rng.randint(1, maxpieces)
    pts = sorted(set(rng.randint(1, len(s) - 1) for _ in range(k - 1))) if len(s) > 1 else []
    pts = [0] + pts + [len(s)]
    out = [s[pts[i]:pts[i + 1]] for i in range(len(pts) - 1)]
    # the real Mux reads at most LATENCY_BUFFER_SIZE bytes per fill()
    res = []
    for c in out:
        while len(c) > 32768:
            res.append(c[:32768])
            c = c[32768:]
        res.append(c)
    return [c for c in res if c]


def shim_relay(ctx, rng, quick):
    """helpers.SocketRWShim (the relay between the ssh child's pipes and the socket the Mux uses where the platform
    has no socketpair-backed stdio): every byte goes through, in order, whatever the pipe accepts per write and
    whatever the reads return.  Real class, real threads and socketpair; scripted pipe ends.  Implementation only."""
    import threading
    import time
    import sshuttle.helpers as helpers
    if not hasattr(helpers, "SocketRWShim"):
        return

    class R(object):
        def __init__(self, chunks):
            self.chunks = list(chunks)
            self.release = threading.Event()

        def read(self, n):
            if not self.chunks:
                self.release.wait(10)        # the pipe stays open until the test is over
                return b""
            c = self.chunks[0]
            if len(c) <= n:
                return self.chunks.pop(0)
            self.chunks[0] = c[n:]
            return c[:n]

    class W(object):
        def __init__(self, mode):
            self.mode, self.got, self.calls = mode, b"", 0

        def write(self, data):
            self.calls += 1
            n = len(data)
            if self.mode == "one" and n > 1:
                n = 1
            elif self.mode == "short" and n > 1:
                n = rng.randint(1, n - 1)
            elif self.mode == "once" and self.calls == 2 and n > 1:
                n = n - 1
            self.got += bytes(data[:n])
            return n

        def flush(self):
            pass

    old_err = sys.stderr
    for mode in ("full", "short", "once"):
        for size in ((1, 5000, 40000) if quick else (0, 1, 5, 4096, 40000, 70000)):
            down = (bytes(rng.randrange(256) for _ in range(min(size, 3000))) * (size // 3000 + 1))[:size]
            up = down[::-1]
            r, w = R([up[i:i + 7000] for i in range(0, len(up), 7000)]), W(mode)
            sys.stderr = open(os.devnull, "w")
            try:
                shim = helpers.SocketRWShim(r, w)
                rf, wf = shim.makefiles()
                pos = 0
                while pos < len(down):
                    pos += wf.write(down[pos:pos + 16000]) or 0
                got_up = b""
                while len(got_up) < len(up):
                    c = rf.read(65536)
                    if not c:
                        break
                    got_up += c
                # the relay thread needs no more than a moment per write; stop waiting when nothing moves any more
                last, idle = -1, 0
                while len(w.got) < len(down) and idle < 600:
                    time.sleep(0.005)
                    idle = idle + 1 if len(w.got) == last else 0
                    last = len(w.got)
                r.release.set()
                for f_ in (rf, wf, shim._s2):
                    try:
                        f_.close()
                    except Exception:
                        pass
            finally:
                sys.stderr.close()
                sys.stderr = old_err
            ctx.case(("shim", mode, size), nontrivial=size > 0)
            ctx.count("shim_relay_%s" % mode)
            if w.got != down:
                ctx.violation("the pipe relay lost or reordered bytes of the tunnel stream under partial writes",
                              {"shim": {"write_pattern": mode, "bytes_sent": len(down), "bytes_that_reached_the_pipe": len(w.got),
                                        "first_difference": next((i for i in range(min(len(w.got), len(down))) if w.got[i] != down[i]), min(len(w.got), len(down)))}})
            if got_up != up:
                ctx.violation("the pipe relay lost or reordered bytes read from the pipe",
                              {"shim": {"bytes_in_pipe": len(up), "bytes_delivered": len(got_up)}})


SYNC = b"\0\0SSHUTTLE0001"


class StopStart(BaseException):
    pass


def server_start_run(ssnet, sce):
    """The real server.main from its first line until it has nothing left to write, with descriptor 1 a raw file that
    takes only part of what it is offered (scripted), and descriptor 0 delivering `pings` (round-trip requests) in the
    given pieces.  sys.stdout is the real layering over descriptor 1 (TextIOWrapper over BufferedWriter over the raw file);
    io.FileIO(1) / io.open(1, ...) give the same raw file (through the real buffered layers where the code asks for
    them).  The real ssnet.runonce runs the loop; select() is answered by the harness: descriptor 1 is always writable,
    descriptor 0 readable while pieces are left.  Returns (bytes on descriptor 1, messages the server queued, how it ended)."""
    import io
    import random
    import socket
    import sshuttle.server as server
    import sshuttle.helpers as helpers
    import stream_common as sc
    rng = random.Random(sce.get("seed", 0))
    script = list(sce["script"])

    class RawW(io.RawIOBase):
        def __init__(self):
            io.RawIOBase.__init__(self)
            self.wire, self.nonblocking, self.calls = b"", False, []

        def writable(self):
            return True

        def fileno(self):
            return 1

        def write(self, data):
            data = bytes(data)
            k = script.pop(0) if script else None
            while k == "a" and not self.nonblocking:
                k = script.pop(0) if script else None        # a blocking descriptor never answers "try again"
            if k == "a":
                self.calls.append((len(data), None))
                return None
            n = len(data) if k is None else min(int(k), len(data))
            self.wire += data[:n]
            self.calls.append((len(data), n))
            return n

    class RawR(io.RawIOBase):
        def __init__(self, chunks):
            io.RawIOBase.__init__(self)
            self.chunks, self.nonblocking = [bytes(c) for c in chunks if c], False

        def readable(self):
            return True

        def fileno(self):
            return 0

        def readinto(self, b):
            if not self.chunks:
                return None                                   # (only ever asked after select said readable)
            c = self.chunks[0]
            n = min(len(b), len(c))
            b[:n] = c[:n]
            if n == len(c):
                self.chunks.pop(0)
            else:
                self.chunks[0] = c[n:]
            return n

    start = {"wire": None, "writes": 0}
    raww, rawr = RawW(), RawR(sce.get("in_chunks_hex") and [bytes.fromhex(h) for h in sce["in_chunks_hex"]] or [])
    sent = []

    class SysShim(object):
        platform = "linux"
        stderr = sys.stderr
        exc_info = staticmethod(sys.exc_info)
        exit = staticmethod(sys.exit)
        stdout = io.TextIOWrapper(io.BufferedWriter(raww), encoding="latin-1", newline="")

    class SelShim(object):
        error = OSError

        @staticmethod
        def select(r, w, x, timeout=None):
            rr = [f for f in r if rawr.chunks]
            ww = list(w)
            if timeout is None:
                if not rr and not ww:
                    raise StopStart()
                if rr and ww and rng.random() < 0.5:          # either order of "input arrives" and "room on the pipe"
                    if rng.random() < 0.5:
                        rr = []
                    else:
                        ww = []
            return rr, ww, []

    def nb(fd):
        if fd == 1:
            raww.nonblocking = True
        elif fd == 0:
            rawr.nonblocking = True

    o_send = ssnet.Mux.send

    def rec_send(self_, channel, cmd, data):
        if not sent:
            # the multiplexer is being created: everything on descriptor 1 so far is the start-of-stream string
            start["wire"], start["writes"] = raww.wire, len(raww.calls)
        sent.append((channel, cmd, bytes(data)))
        return o_send(self_, channel, cmd, data)
    routes = [(int(socket.AF_INET), "10.%d.%d.0" % (i // 250, i % 250), 24) for i in range(sce.get("routes", 0))]
    saved = (server.io, server.sys, server.list_routes, ssnet.select, ssnet.set_non_blocking_io, ssnet.Mux.send,
             helpers.log, server.log, helpers.logprefix, ssnet.LATENCY_BUFFER_SIZE)
    how = "returned"
    try:
        server.io = sc.io_shim(lambda fd: rawr if fd == 0 else raww)
        server.sys = SysShim
        server.list_routes = lambda: iter(routes)
        ssnet.select = SelShim
        ssnet.set_non_blocking_io = nb
        ssnet.Mux.send = rec_send
        helpers.log = server.log = lambda s: None
        try:
            server.main(sce.get("latency", True), sce.get("lbs", 32768), False, None, bool(routes))
        except StopStart:
            how = "nothing left to do"
        except SystemExit as e:
            how = "exit %s" % (e.code,)
        except Exception as e:        # noqa
            how = "raised %s: %s" % (type(e).__name__, str(e)[:200])
    finally:
        (server.io, server.sys, server.list_routes, ssnet.select, ssnet.set_non_blocking_io, ssnet.Mux.send,
         helpers.log, server.log, helpers.logprefix, ssnet.LATENCY_BUFFER_SIZE) = saved
    return raww.wire, sent, how, raww.calls, start


def server_start_scenarios(rng, quick):
    out = []

    def ping_input(n):
        pay = [bytes(rng.randrange(256) for _ in range(rng.choice([0, 6, 7, 40]))) for _ in range(n)]
        stream = b"".join(encode_py(0, 0x4201, d) for d in pay)
        return pay, [c.hex() for c in random_cut(rng, stream, 4)]
    for nroutes, npings in ((0, 0), (3, 2)):
        base = [[]] + [[k] * 400 for k in range(1, 14)] + [[k] for k in range(1, 14)]
        for sc_ in base:
            pay, chunks = ping_input(npings)
            out.append({"script": sc_, "routes": nroutes, "pings_hex": [d.hex() for d in pay], "in_chunks_hex": chunks,
                        "seed": rng.randrange(1 << 30)})
    for _ in range(40 if quick else 1500):
        sc_ = [rng.choice([1, 2, 3, 5, 7, 8, 9, 13, 14, 15, 21, 100, 5000, "a", None]) for _ in range(rng.randint(1, 40))]
        if rng.random() < 0.3:
            sc_ += [rng.choice([1, 7, 8, 9])] * 600
        pay, chunks = ping_input(rng.choice([0, 1, 3, 8]))
        out.append({"script": sc_, "routes": rng.choice([0, 0, 1, 3, 120]), "pings_hex": [d.hex() for d in pay],
                    "in_chunks_hex": chunks, "seed": rng.randrange(1 << 30), "lbs": rng.choice([32768, 32768, 1, 100, 5000])})
    return out


def server_start_expected(sce):
    import socket
    routes = "".join("%d,%s,%d\n" % (int(socket.AF_INET), "10.%d.%d.0" % (i // 250, i % 250), 24) for i in range(sce.get("routes", 0)))
    return ([(0, 0x4201, b"chicken"), (0, 0x4207, routes.encode())]
            + [(0, 0x4202, bytes.fromhex(h)) for h in sce.get("pings_hex", [])])


def server_start_judge(sce, wire, sent, how):
    """None if the bytes on descriptor 1 are the complete synchronisation string followed by exactly the messages the
    server had to send, whole and in order; otherwise (what, detail)"""
    want = server_start_expected(sce)
    det = {"write_script": [("again" if k == "a" else k) for k in sce["script"][:60]], "script_length": len(sce["script"]),
           "routes": sce.get("routes", 0), "requests_delivered": len(sce.get("pings_hex", [])), "server": how,
           "first_bytes_on_descriptor_1": wire[:48].hex(), "bytes_on_descriptor_1": len(wire)}
    if how != "nothing left to do":
        return ("server.main did not carry on until it had nothing left to write (start of the tunnel, short writes on "
                "descriptor 1)", det)
    if wire[:len(SYNC)] != SYNC:
        return ("what the server put on descriptor 1 does not start with the complete synchronisation string: it depends on "
                "how the descriptor split the writes", det)
    # (with a small --latency-buffer-size the server asks for a round trip of its own, PING 'rttest', in between)
    asked = [f for f in sent if f != (0, 0x4201, b"rttest")]
    if asked != want:
        det["messages_queued_by_the_server"] = ["%d,%04x,%d bytes" % (a, b, len(d)) for a, b, d in sent][:20]
        return ("the server did not queue exactly its first messages (PING, ROUTES, one PONG per request delivered, in order)", det)
    full = SYNC + b"".join(encode_py(*f) for f in sent)
    if wire != full:
        i = next((i for i in range(min(len(wire), len(full))) if wire[i] != full[i]), min(len(wire), len(full)))
        det["first_difference_at"] = i
        det["messages_queued_by_the_server"] = len(sent)
        return ("the bytes after the synchronisation string on descriptor 1 are not the server's first messages, whole and in "
                "order (start of the tunnel, short writes on descriptor 1)", det)
    return None


def server_start_check(ctx, ssnet, rng, quick):
    """C07 on the sending side of the start-up: "the recognition of the server's start-of-stream synchronisation string
    depend[s] only on the bytes sent and never on how they are split across reads and writes" — the server "writes it
    before anything else".  For every short-write script the byte stream on descriptor 1 must be the synchronisation
    string followed by well-formed messages.  Model: coq/Model/WireStart.v (flush_all = BufferedWriter.flush under a
    raw-write script; server_start = the string, then the multiplexer's wire); theorems c07_server_start (hs_spec accepts
    server_start ... and hands on exactly the multiplexer's bytes, for EVERY script), c07_server_start_end_to_end (composed
    with every sequence of sends / partial flushes and every cutting into reads on the client) and
    c07_sync_single_write_refuted (one raw write with the result ignored loses the tail).  The run compares the bytes on
    descriptor 1 at the moment the multiplexer is created with the model's flush_all (SSTART), and judges the whole
    stream by byte comparison and by the model's hs_spec + decode."""
    scen = server_start_scenarios(rng, quick)
    results = []
    for sce in scen:
        wire, sent, how, calls, start = server_start_run(ssnet, sce)
        bad = server_start_judge(sce, wire, sent, how)
        results.append((sce, wire, bad, sent, start))
        short = sum(1 for a, b in calls if b is not None and b < a)
        ctx.case(("server-start", tuple(str(k) for k in sce["script"][:40]), sce["routes"], len(sce["pings_hex"]), sce["seed"]),
                 nontrivial=True, sample={"kind": "server start", "script": [str(k) for k in sce["script"][:12]],
                                          "short_writes": short, "bytes": len(wire)} if short and len(sce["script"]) < 30 else None)
        ctx.count("server_start_runs")
        ctx.count("server_start_short_writes", short)
        if bad:
            ctx.violation(bad[0], {"server_start": sce, "detail": bad[1]})
    # the same verdict from the extracted model: hs_spec accepts the stream and leaves the messages; decode gives them
    if ctx.driver:
        lines = []
        for sce, wire, bad, sent, start in results:
            lines.append("HSSPEC %s" % hx(wire))
            lines.append("DEC %s" % hx(wire[len(SYNC):]))
            # WireStart.flush_all: the string through BufferedWriter.flush under the same raw-write script (the
            # descriptor is still blocking: no "try again"; after the script every write takes all it is offered)
            ks = [10 ** 6 if k is None else int(k) for k in sce["script"] if k != "a"][:64]
            lines.append("SSTART " + " ".join(str(k) for k in ks + [10 ** 6] * 16))
        out = ctx.run_driver(lines)
        for i, (sce, wire, bad, sent, start) in enumerate(results):
            m_start = out[3 * i + 2].split(" ")[0]
            i_start = hx(start["wire"]) if start["wire"] is not None else "(no multiplexer was created)"
            if m_start != i_start:
                ctx.disagree("server start: bytes on descriptor 1 when the multiplexer is created (model: flush_all script server_sync)",
                             {"server_start": sce}, i_start[:80], m_start[:80], holds=(bad is None))
            m_ok = (out[3 * i] == "1 %s" % hx(wire[len(SYNC):])
                    and out[3 * i + 1] == "OK %s | -" % ";".join("%d,%d,%s" % (a, b, hx(d)) for a, b, d in sent))
            if m_ok != (bad is None or bad[0].startswith("the server did not queue")):
                ctx.disagree("server start: the model's recogniser/decoder and the harness's byte comparison judge the stream "
                             "on descriptor 1 differently", {"server_start": sce}, "ok" if bad is None else bad[0],
                             (out[3 * i][:80], out[3 * i + 1][:200]))


def correspondence(ctx):
    ssnet = load()
    rng = ctx.rng
    quick = ctx.quick()
    shim_relay(ctx, rng, quick)
    import time
    t0 = time.time()
    server_start_check(ctx, ssnet, rng, quick)
    ctx.extra["server_start_check_wall_s"] = round(time.time() - t0, 2)
    CMDS = [0x4200 + i for i in range(15)] + [0, 65535]

    def rand_payload(n):
        if n < 64:
            return bytes(rng.randrange(256) for _ in range(n))
        blk = bytes(rng.randrange(256) for _ in range(61))
        return (blk * (n // 61 + 1))[:n]

    # ---- A: encode, all boundary lengths / channels incl. rejected ones
    lines, impl, descr = [], [], []
    for ln in LENS + [65536]:
        for ch in (0, 1, 65535, 65536):
            for cmd in (0x4206, 65535, 65536):
                if ln >= 65534 and not (ch in (1, 65536) and cmd == 0x4206):
                    continue
                data = rand_payload(ln)
                lines.append("ENC %d %d %s" % (ch, cmd, hx(data)))
                impl.append(impl_enc(ssnet, ch, cmd, data))
                descr.append(("enc", ch, cmd, ln))
                ctx.count("enc_len_%d" % ln)
    out = ctx.run_driver(lines)
    for ln, i, o, d in zip(lines, impl, out, descr):
        ctx.case(d, nontrivial=True, sample={"kind": "encode", "ch": d[1], "cmd": d[2], "payload_len": d[3], "result": o[:40]})
        if i != o:
            ctx.disagree("encode", ln[:200], i[:200], o[:200])
    # property oracle on the implementation alone: decode(encode f) = [f]
    for ln in LENS:
        for ch in (0, 7, 65535):
            data = rand_payload(ln)
            enc = impl_enc(ssnet, ch, 0x4206, data)
            if not enc.startswith("OK "):
                ctx.violation("encode rejected a valid frame", {"ch": ch, "len": ln, "got": enc})
                continue
            wire = bytes.fromhex(enc[3:])
            got = impl_rx(ssnet, [wire[:32768], wire[32768:65536], wire[65536:]] if len(wire) > 32768 else [wire])
            want = "OK %d,%d,%s | - 0" % (ch, 0x4206, hx(data))
            ctx.case(("rt", ch, ln))
            if got != want:
                ctx.violation("decode(encode f) != [f] on the real Mux", {"ch": ch, "cmd": 0x4206, "payload_hex": hx(data)[:200], "payload_len": ln, "got": got[:300]})

    # ---- B: receiver under cuttings
    def stream_of(frames, tail=b""):
        return b"".join(encode_py(*f) for f in frames) + tail

    streams = []
    # exhaustive: all cuttings of short streams (<= 14 bytes)
    short = [
        stream_of([(1, 0x4206, b"abc")]),                       # 11 bytes
        stream_of([(0, 0x4201, b"")]) + b"SS\x00\x02B",         # frame + partial header
        stream_of([(65535, 0x420e, b"\x00\xff\x53\x53\x00\x00")]),   # 14 bytes, payload looks like a header
        b"SS\x00\x01\x42\x06\x00\x05ab",                        # incomplete body
        b"SX\x00\x01\x42\x06\x00\x00zz",                        # bad magic
        stream_of([(2, 0x4205, b"")]) + b"XS\x00\x00\x00\x00",  # good frame then bad magic (short)
    ]
    lines, impl, descr = [], [], []
    nshort = len(short) if not quick else 4
    for s in short[:nshort]:
        for cut in cuttings(len(s)):
            chunks = [s[a:b] for a, b in cut]
            lines.append("RX " + " ".join(hx(c) for c in chunks))
            impl.append(impl_rx(ssnet, chunks))
            descr.append(("rxs", s, tuple(cut)))
        ctx.count("rx_exhaustive_streams")
    # sampled: long multi-frame streams
    nlong = 40 if quick else 600
    expect = []
    for li in range(nlong):
        nfr = rng.randint(1, 6)
        many = (li % 5 == 4)
        if many:
            # a burst of many tiny messages that the peer reads in one go (every one must be dispatched)
            nfr = rng.choice([31, 32, 33, 34, 64, 65, 100, 257])
            ctx.count("rx_many_small_frames")
        frames = []
        for _ in range(nfr):
            ln = rng.choice(LENS if rng.random() < 0.25 else [0, 1, 7, 8, 9, rng.randint(0, 300), 2047, 2048, 2049])
            if many:
                ln = rng.choice([0, 0, 1, 2, 5])
            frames.append((rng.choice([0, 1, 2, 65535, rng.randint(0, 65535)]), rng.choice(CMDS), rand_payload(ln)))
        kind = rng.random()
        if many:
            kind = 0.9
        tail = b""
        if kind < 0.15:
            tail = encode_py(3, 0x4206, b"x" * 50)[:rng.randint(1, 57)]      # truncated frame
            ctx.count("rx_truncated_tail")
        elif kind < 0.3:
            bad = bytearray(encode_py(4, 0x4206, b"yy"))
            bad[rng.randint(0, 1)] = rng.choice([0, 0x73, 0x54])
            tail = bytes(bad) + encode_py(5, 0x4206, b"after")              # bad magic then a good frame
            ctx.count("rx_bad_magic")
        else:
            ctx.count("rx_wellformed")
        s = stream_of(frames, tail)
        for _ in range(2 if quick else 4):
            chunks = random_cut(rng, s)
            # cut exactly at frame boundaries sometimes
            if rng.random() < 0.2:
                chunks, pos = [], 0
                for f in frames:
                    e = encode_py(*f)
                    chunks += random_cut(rng, e, 2)
                chunks += [tail] if tail else []
            if many and rng.random() < 0.7:
                chunks = [s] if rng.random() < 0.5 else random_cut(rng, s, 2)
            lines.append("RX " + " ".join(hx(c) for c in chunks))
            impl.append(impl_rx(ssnet, chunks))
            descr.append(("rxl", hash(s), tuple(len(c) for c in chunks)))
            # ... and then the stream ends (the peer closes the tunnel, or reading it fails): the read that reports
            # the end is one more read boundary — what has been decoded from the bytes must not depend on it
            err = rng.choice([None, None, 5, 104, 9])
            res_end, how = impl_rx_end(ssnet, chunks, err)
            ctx.count("rx_stream_end_" + ("eof" if err is None else "read_error"))
            if not impl[-1].startswith("ASSERT") and (res_end != impl[-1] or how != ("returned" if err is None else "Fatal")):
                ctx.violation("the messages decoded from a byte stream change when the stream ends (end-of-stream read or "
                              "read error after the last byte), or the end is not reported the way the code provides for",
                              {"chunks_hex": lines[-1][3:][:3000], "stream_end": "eof" if err is None else "errno %d" % err,
                               "decoded_without_end": impl[-1][:600], "decoded_with_end": res_end[:600],
                               "last_wakeup": how, "expected_last_wakeup": "returned" if err is None else "Fatal"})
            expect.append((len(lines) - 1, "OK %s | - 0" % ";".join("%d,%d,%s" % (a, b, hx(d)) for a, b, d in frames))
                          if not tail else None)
    # oracle on the implementation alone: once a well-formed stream has been handed over completely,
    # exactly the messages sent have been dispatched, in order, whatever the read boundaries were
    for e in expect:
        if e is not None and impl[e[0]] != e[1]:
            ctx.violation("a well-formed stream was read completely but not every message was dispatched (or not in order)",
                          {"chunks_hex": lines[e[0]][3:][:4000], "dispatched": impl[e[0]][:1500], "sent": e[1][:1500]})
    out = ctx.run_driver(lines)
    by_stream = {}
    for ln, i, o, d in zip(lines, impl, out, descr):
        ctx.case(d, nontrivial=(";" in i or "," in i or d[0] == "rxs"),
                 sample={"kind": "rx", "chunks": ln[:120], "result": i[:120]} if d[0] == "rxl" else None)
        if i != o:
            ctx.disagree("rx_feed_all", ln[:400], i[:400], o[:400])
        if d[0] == "rxs":
            # oracle on the implementation alone: result independent of the cutting
            key = d[1]
            # after a failed magic check the loop stops reading: the undecoded remainder it
            # holds at that moment is not an observable result, only what was decoded is
            obs = (lambda r: r.split("|")[0] if r.startswith("ASSERT") else r)
            if key in by_stream and obs(by_stream[key][0]) != obs(i):
                ctx.violation("decoded messages depend on the read boundaries",
                              {"stream_hex": hx(key), "cut_a": by_stream[key][1], "result_a": by_stream[key][0],
                               "cut_b": list(d[2]), "result_b": i})
            by_stream.setdefault(key, (i, list(d[2])))
    ctx.extra["exhaustive_short_streams"] = nshort

    # ---- C: sender scripts
    # Two families.  "small": many short messages, flushes that take a few bytes.  "big": messages of 32768..65535
    # bytes (the ROUTES advertisement of a large routing table, a HOST_LIST, a 64K datagram — the only messages longer
    # than one latency buffer) among short ones, on a pipe that takes from one byte to more than a pipe buffer per
    # wake-up.  Every script runs under one of the values ssnet.LATENCY_BUFFER_SIZE can have (--latency-buffer-size;
    # the write path must not depend on it: Wire.v's mux_flush has no such parameter, theorems c07_tx_*), the
    # extracted model is run on the same script, and — implementation alone — what reached the pipe is decoded.
    LBS = [None, None, 1, 7, 1024, 2048, 4096, 32768, 65536, 1048576, 2 ** 31]
    lines, impl, tx_descr = [], [], []
    nsmall, nbig = (60, 10) if quick else (1500, 150)
    for si in range(nsmall + nbig):
        big = si >= nsmall
        lb = LBS[si % len(LBS)] if si < 2 * len(LBS) or big else rng.choice(LBS + [rng.randint(1, 70000)])
        ops, txt = [], []
        for oi in range(rng.randint(1, 14) if not big else rng.randint(2, 9)):
            if rng.random() < 0.12:
                d = rand_payload(rng.choice([0, 6, 7]))
                ops.append(("G", d))
                txt.append("S:0:%d:%s" % (0x4202, hx(d)))       # model: the PONG is one more message sent
                ctx.count("tx_ping_handled")
            elif rng.random() < 0.45 or (big and oi == 0):
                ln = rng.choice([0, 1, 8, 9, rng.randint(0, 80), 2048])
                if rng.random() < 0.05:
                    ln = 65536
                if big and (oi == 0 or rng.random() < 0.3):
                    # header + payload just below / at / above one latency buffer, two of them, and the format's limit
                    ln = rng.choice([32759, 32760, 32761, 32768, 32769, 65527, 65528, 65529, 65534, 65535,
                                     rng.randint(32761, 65535), rng.randint(2049, 32759)])
                    if si - nsmall < 4:
                        ln = [32761, 65535, 40000, 32760][si - nsmall]
                    ctx.count("tx_send_longer_than_a_latency_buffer" if ln + 8 > 32768 else "tx_send_long")
                ch = rng.choice([0, 1, 65535, 65536]) if rng.random() < 0.2 and not (big and oi == 0) else rng.randint(0, 65535)
                d = rand_payload(ln)
                ops.append(("S", ch, 0x4206, d))
                txt.append("S:%d:%d:%s" % (ch, 0x4206, hx(d)))
                ctx.count("tx_send")
            else:
                k = rng.choice([None, 0, 1, 7, 8, 9, rng.randint(0, 120), 100000])
                if big:
                    k = rng.choice([None, 0, 1, 8, 4096, 32767, 32768, 32769, 65536, rng.randint(1, 70000), 100000])
                ops.append(("F", k))
                txt.append("F:%s" % ("-" if k is None else k))
                ctx.count("tx_flush_" + ("eagain" if k is None else "zero" if k == 0 else "partial"))
        ctx.count("tx_scripts_%s" % ("big" if big else "small"))
        ctx.count("tx_latency_buffer_%s" % ("default" if lb is None else lb if lb in LBS else "other"))
        lines.append("TX " + " ".join(txt))
        tx_descr.append((ops, lb))
        impl.append(impl_tx(ssnet, ops, lb=lb))
        probe = []
        impl_tx(ssnet, ops, probe, lb=lb)
        ctx.count("tx_scripts_with_writable_pipe_while_queueing")
        if probe:
            ctx.violation("queueing a message wrote to the tunnel (Mux.send / the constructor's PING put bytes on a writable pipe "
                          "themselves; only Mux.flush, called from the main loop, may write): a message queued before the "
                          "start-up handshake is over then reaches the server's start-up reader behind the uploads",
                          {"tx_probe": "" if probe[0][0] < 0 else ops_str(ops[:probe[0][0] + 1]),
                           "detail": {"operation_index": probe[0][0], "bytes_written_hex": probe[0][1].hex()[:200],
                                      "operation": "the constructor" if probe[0][0] < 0 else ops_str([ops[probe[0][0]]])[:200]}})
        # oracle on the implementation alone: the main loop drains the queue (pipe takes everything / a pipe buffer /
        # a few bytes per wake-up); the bytes on the pipe decode to exactly the messages sent, in order
        for per in ([None] if not big else [None, rng.choice([65536, 4096, 32768, rng.randint(1000, 70000)])]):
            got, want, left = tx_drain_decode(ssnet, ops, lb, per)
            if got != want or left:
                ctx.violation(WHAT_TX,
                              {"tx_ops": ops_str(ops), "latency_buffer_size": lb, "pipe_takes_per_wakeup": per,
                               "messages_sent": [[c, k, len(d)] for c, k, d in tx_sent_ok(ops)],
                               "decoded": short_result(got), "expected": short_result(want),
                               "bytes_never_written": left})
    out = ctx.run_driver(lines)
    for ln, i, o, (ops, lb) in zip(lines, impl, out, tx_descr):
        ctx.case(("tx", ln, lb), sample={"kind": "tx", "ops": ops_str(ops)[:150], "latency_buffer_size": lb,
                                         "result": i[:100]} if len(ln) < 4000 or lb else None)
        if i != o:
            ctx.disagree("tx_run", "latency buffer %s: %s" % (lb, ops_str(ops)[:400]), short_result(i), short_result(o))

    # ---- D: handshake under every delivery boundary
    import sshuttle.server  # noqa: F401  (import check only)
    sync = b"\0\0SSHUTTLE0001"
    streams = [sync + b"\x53\x53rest", b"noise\0more\0SSHUTTLE0001", sync, b"\0\0SSHUTTLE0002" + b"zz",
               b"\0\0SSHUTTLE000", b"\0SSHUTTLE0001\0", b"", b"abc"]
    t0 = time.time()
    client_start_check(ctx, streams)
    ctx.extra["client_start_check_wall_s"] = round(time.time() - t0, 2)
    t0 = time.time()
    client_tunnel_check(ctx, ssnet)
    ctx.extra["client_tunnel_check_wall_s"] = round(time.time() - t0, 2)
    # (stream, cut, verbosity, model line, implementation outcome, detail of an unexpected exception)
    recs = []

    def deliver(s, cut, verb, kind=None):
        chunks = [s[a:b] for a, b in cut if b > a]
        # the extracted raw_read measures the pending delivery on every read: quadratic in the size of a delivery —
        # deliveries too large for that are judged by the stream-level specification alone (hs_run = hs_spec for
        # every cutting is theorem c07_handshake; the implementation is run on them all the same)
        line = "HS " + " ".join(hx(c) for c in chunks) if chunks else "HS"
        if sum(len(c) * len(c) for c in chunks) > 4000000:
            line = "HSSPEC %s" % hx(s)
            ctx.count("hs_deliveries_too_large_for_hs_run_judged_by_hs_spec")
        det = {}
        recs.append((s, cut, verb, line, impl_hs(chunks, verb, det), det, kind))
        ctx.count("hs_deliveries")
        if verb is not None:
            ctx.count("hs_verbosity_%d" % verb)

    for s in streams:
        cuts = list(cuttings(len(s))) if len(s) <= 11 else None
        if cuts is None:
            # one cut at every position, plus all 2-cut combinations inside the sync string
            cuts = [[(0, len(s))]] + [[(0, i), (i, len(s))] for i in range(1, len(s))]
            lim = 40 if quick else 400
            for a, b in itertools.combinations(range(1, len(s)), 2):
                if len(cuts) > lim + len(s):
                    break
                cuts.append([(0, a), (a, b), (b, len(s))])
            cuts.append([(i, i + 1) for i in range(len(s))])
        for cut in cuts:
            deliver(s, cut, None)
    # arbitrary leading noise (content, encoding, length) x deliveries x verbosity
    t0 = time.time()
    noise = hs_noise_streams(rng, quick)
    seen_vals = [set(), set()]
    for n, (kind, s) in enumerate(noise):
        ctx.count("hs_noise_streams")
        ctx.count("hs_noise_kind_%s" % kind.split("/")[0])
        i0 = s.find(b"\0")
        i1 = s.find(b"\0", i0 + 1) if i0 >= 0 else -1
        lead = s if i0 < 0 else s[:i0]
        mid = b"" if i0 < 0 else (s[i0 + 1:] if i1 < 0 else s[i0 + 1:i1])
        seen_vals[0].update(lead)
        seen_vals[1].update(mid)
        if any(c >= 0x80 for c in lead + mid):
            ctx.count("hs_noise_highbyte_streams")
            try:
                (lead + mid).decode("utf-8")
            except UnicodeDecodeError:
                ctx.count("hs_noise_not_utf8_streams")
        if len(s) > 400:
            ctx.count("hs_noise_long_streams")
        for k, cut in enumerate(hs_cuts(rng, s, quick)):
            if k < 2 and (k == 0 or len(s) <= 20000):
                for verb in (0, 1, 2, 3):          # whole and byte by byte: at every verbosity
                    deliver(s, cut, verb, kind)
            else:
                deliver(s, cut, (n + k) % 4, kind)
    ctx.extra["hs_noise_byte_values_before_first_nul"] = len(seen_vals[0] - {0})
    ctx.extra["hs_noise_byte_values_between_the_nuls"] = len(seen_vals[1] - {0})
    # the same on the real ssh.connect, where affordable
    short = [s for _, s in noise if len(s) <= 300]
    pick = short if not quick else [short[i] for i in sorted(rng.sample(range(len(short)), min(40, len(short))))]
    keep = [s for k, s in noise if k.startswith(("all-byte-values/", "not-utf8/before", "latin1-text/before", "utf8-text/before"))]
    client_start_check(ctx, [s for s in keep if s not in pick] + pick, verbosities=(0, 1, 2, 3))
    out = ctx.run_driver([r[3] for r in recs])
    spec = ctx.run_driver(["HSSPEC %s" % hx(r[0]) for r in recs])
    ctx.extra["hs_noise_wall_s"] = round(time.time() - t0, 2)
    tokens = {}
    for r, sp in zip(recs, spec):
        tokens.setdefault(r[0], []).append((r[2], r[4].split(" ")[0] == sp.split(" ")[0]))
    nsample, last_sampled = 0, None
    for (s, cut, verb, ln, i, det, kind), o, sp in zip(recs, out, spec):
        sample = None
        if kind is None and len(cut) == 3:
            sample = {"kind": "handshake", "deliveries": ln[:100], "result": i}
        elif kind is not None and len(cut) == 2 and nsample < 60 and last_sampled != s and len(s) < 400:
            nsample, last_sampled = nsample + 1, s
            sample = {"kind": "handshake-noise", "noise": kind, "verbosity": verb, "deliveries": ln[:100], "result": i[:40], "spec": sp[:40]}
        ctx.case(("hs", s, tuple(cut), verb), sample=sample)
        ctx.count("hs_outcome_%s" % i.split(" ")[0])
        if i != o:
            # does the property fail on the implementation?  oracle = stream-level spec
            holds = (i.split(" ")[0] == sp.split(" ")[0])
            ctx.disagree("handshake", ln[:600], i[:300], o[:300], holds)
        if i.split(" ")[0] != sp.split(" ")[0]:
            if i.split(" ")[0] not in ("0", "1", "FATAL"):
                what = WHAT_HS_DIED[sp[:1]]
            elif any(ok for v, ok in tokens[s] if v == verb):
                what = WHAT_HS_CUTS
            elif any(ok for v, ok in tokens[s]):
                what = WHAT_HS_VERB
            else:
                what = WHAT_HS_SPEC
            ctx.violation(what, {"stream_hex": hx(s), "deliveries": [hx(s[a:b]) for a, b in cut], "verbosity": verb,
                                 "noise_kind": kind, "client_outcome": dict(det, outcome=i[:300]), "stream_level_spec": sp[:300]})
    ctx.programs = ctx.evaluations


def replay(ctx, rp):
    """re-run a stored failing input against the real code; returns True if it still fails"""
    ssnet = load()
    r = rp.get("replay", {})
    if "server_start" in r:
        sce = r["server_start"]
        wire, sent, how, calls, start = server_start_run(ssnet, sce)
        bad = server_start_judge(sce, wire, sent, how)
        print("server start:", bad and bad[0], "| first bytes on descriptor 1:", wire[:40])
        return bad is not None
    if "client_tunnel" in r:
        t = r["client_tunnel"]
        bad, st = client_tunnel_run(bytes.fromhex(t["noise_hex"]), [(c, k, bytes.fromhex(d)) for c, k, d in t["frames"]],
                                    t["cut_at"], t.get("verbosity"))
        print("client tunnel:", bad and bad[0][:160], bad and bad[1])
        return bad is not None
    if "client_start" in r:
        chunks = [bytes.fromhex(c) for c in r["client_start"]["deliveries"]]
        det = {}
        outcome, ev, st = client_start_run(chunks, r["client_start"].get("verbosity"), det)
        bad = client_start_judge(outcome, ev)
        print("client start:", outcome, det, "|", bad and bad[0][:120], bad and bad[1])
        if r["client_start"].get("expect") == "accepted-or-rejected":
            return outcome.split(" ")[0] not in ("0", "1")
        return bad is not None
    if "tx_ops" in r:
        ops = ops_parse(r["tx_ops"])
        got, want, left = tx_drain_decode(ssnet, ops, r.get("latency_buffer_size"), r.get("pipe_takes_per_wakeup"))
        print("messages sent (channel, command, payload bytes):", [[c, k, len(d)] for c, k, d in tx_sent_ok(ops)][:12])
        print("decoded from the pipe:", short_result(got)[:300], "| bytes never written:", left)
        return got != want or bool(left)
    if "tx_probe" in r:
        probe = []
        impl_tx(ssnet, ops_parse(r["tx_probe"]), probe)
        print("bytes written while queueing:", [(n, d.hex()[:60]) for n, d in probe][:5])
        return bool(probe)
    if "deliveries" in r:
        chunks = [bytes.fromhex(c) for c in r["deliveries"] if c != "-"]
        det = {}
        got = impl_hs(chunks, r.get("verbosity"), det)
        print("client outcome:", got[:200], det, " verbosity:", r.get("verbosity"), " stream-level spec:", (r.get("stream_level_spec") or "")[:200])
        return got.split(" ")[0] != r.get("stream_level_spec", "").split(" ")[0]
    print("nothing replayable in", rp.get("kind"))
    return False


if __name__ == "__main__":
    sys.path.insert(0, os.path.join(os.path.dirname(os.path.abspath(__file__)), ".."))
    import framework
    sys.exit(framework.main(sys.modules[__name__]))
