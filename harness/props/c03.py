"""C03 — traffic is intercepted exactly when its most specific subnet entry is an include.

Correspondence: the real sshuttle.firewall.main (dialogue -> per-family split ->
Method.setup_firewall of nat / nft / tproxy / pf[FreeBsd, Darwin, OpenBsd]) runs with
the subprocess boundary replaced by recorders; the recorded argv lists / pf rule
text are compared TOKEN FOR TOKEN with the printer of the extracted Coq model
(coq/Model/FwRules.v).  Then the extracted packet walk (coq/Model/FwWalk.v) is
evaluated on the rules THE REAL CODE EMITTED (argv parsed back into the model's
AST; the parser itself is checked by printing its result with the model's
printer) for packets sampled per cell of the address x port arrangement induced by
the entries, and compared with the extracted specification (spec_intercept, name
servers, owner) — the property oracle on the implementation.

Stale-objects dimension (stale_dimension): the same oracle on the state that the
real set-up of plan B leaves when the packet filter already holds the objects of
an earlier session A on the same ports that was killed after k commands of its
set-up; both sessions' commands are executed by the kernel model of C04
(coq/Model/FwLife.v behind bin/c04_driver as a co-process).

pf main-ruleset dimension (pf_main_dimension): the rules in sshuttle's anchor decide
only where the MAIN ruleset calls the anchor.  The real set-up runs on main rulesets
that already hold the rdr-anchor call only / the anchor call only / both / neither /
calls for other ports (incl. names that contain this port's name or are contained in
it), and the verdict oracle is judged on the COMPLETE state at STARTED — the main
ruleset's anchor calls + the enable state + the anchors (coq/Model/FwPfHook.v
pf_state_verdict_of).  The stale-objects dimension judges pf on the same complete
state (a session killed between the two add_anchors ioctls leaves one call)."""
import io
import ipaddress
import json
import os
import re
import socket
import subprocess
import sys
import types

PROP = "C03"
RULE = ("plans x packets: 0-12 entries per family (widths concentrated at 0,8,24,31,32 / 0,64,127,128, shared anchors so "
        "prefixes overlap, host bits set, equal keys, single ports, ranges, nested ranges, duplicates, include+exclude of the "
        "same net), 0-3 name servers per family (inside/outside entries, IPv6 servers sharing their first 32 bits), user/group "
        "(nat), udp on/off (tproxy); packets per cell: subnet first/last/just-outside/inside addresses, range first/last/"
        "just-outside ports, name-server addresses and neighbours, tcp/udp, local/non-local, generated/forwarded, owner "
        "matching or not; a case is non-trivial when at least one entry or name server matches a sampled packet; distinct by plan hash. "
        "Stale-objects dimension: pairs (A, B) of plans on the same ports (B = fresh plan around A's addresses + A's entries kept / "
        "flipped include<->exclude / widened / narrowed, name servers kept / dropped / new, DNS port same or other, nat owner same "
        "or other, tproxy udp/mark independent); A's real set-up from an empty packet filter, cut after k external commands (the "
        "complete set-up and 2 (quick) / 5 (thorough) other k; every k for the fixed pairs), then B's real set-up on that state; "
        "packets from both plans' cells; distinct by (method, A, k, B). "
        "pf main-ruleset dimension (FreeBSD, Darwin, OpenBSD): 3 fixed plans (both families on one port; port 1230 next to "
        "12300) + 4 (quick) / 150 (thorough) generated plans x starting main rulesets {neither, rdr-anchor only, anchor only, "
        "both, both in the other order, calls for other ports only (port/10, port*10, '1'+port, port without its first digit, "
        "port+1, the other family's name form), each single call + those, rdr-anchor of this port with anchor of the others "
        "and vice versa, per-family mixes, random subsets}; OpenBSD: anchor calls only; verdicts judged on main ruleset + "
        "enable state + anchors after the real set-up; distinct by (method, plan, starting calls)")
TRUSTED_BASE = [
    "MODELLED, not verified: the kernel packet filter (coq/Model/FwWalk.v): iptables/ip6tables/nft first-match chain walk with jumps, RETURN, non-terminating MARK; mangle OUTPUT before nat OUTPUT; policy re-routing of packets carrying the tproxy mark to lo and hence PREROUTING; `inet` nft tables see both families; pf last-match filter rules, first-match rdr, route-to lo0; address text is parsed by the tools to the number the harness computes with Python's ipaddress module",
    "thorough tier validates the Linux part of that model against the real kernel in fresh network namespaces: (a) the recorded iptables/ip6tables command lists are executed by the real tools and iptables-save is compared (count, per-chain order, target, destination); (b) real verdicts: the emitted nat / nft / tproxy rules are loaded, listeners sit on the redirect and DNS ports, ~2000 TCP connects / UDP datagrams per run go to sampled cell representatives (both families, routed via lo, tproxy with the documented fwmark policy routing and IP_TRANSPARENT listeners) and who receives each probe is compared with the modelled walk; pf cannot be validated on this image (no BSD) and rests on pf.conf(5)",
    "CPython sorted() is stable and reverse=True keeps equal keys in original order (checked on every run by the token-for-token comparison, which contains equal-key entries)",
    "stale-objects dimension: the kernel that executes the commands of both sessions is the MODELLED kernel of C04 (coq/Model/FwLife.v `exec` behind drivers/c04_driver.ml as a co-process: iptables -N/-F/-X/-I 1/-A/-D/-nL per family and table with `-X` refused for a non-empty or referenced chain, nft add table/add chain idempotent, flush chain, add rule, delete table, pfctl anchor load = replacement, enable/-E tokens, anchor calls; rules are opaque argv there); the state it holds at STARTED is parsed by this harness into the rule AST of Model/FwRules.v (same parser as for the recorded argv) and walked by Model/FwWalk.v; the thorough tier replays such two-session command sequences (incl. the failing -D / -X / -N of restore_firewall and of refused starts) with the real iptables / ip6tables / nft in fresh network namespaces and compares every exit status and the number of rules per chain at the end with that kernel model (pf: not validatable here)",
    "pf complete state (coq/Model/FwPfHook.v, MODELLED from pf.conf(5) ANCHORS, not validatable on this image): an anchor's rdr rules are evaluated only through `rdr-anchor \"<name>\"` in the main ruleset, its pass rules only through `anchor \"<name>\"`, nothing while pf is disabled; OpenBSD has filter rules only; the main ruleset's calls are read from the C04 kernel model's state (pf_calls, appended by the DIOCCHANGERULE ioctl whose pfioc_rule buffer the harness decodes: action, rule kind, anchor name), its `pfctl -s all` answer prints them as FwLife.v pf_status_lines does (TRANSLATION RULES / FILTER RULES sections, one `rdr-anchor \"n\" all` / `anchor \"n\" all` line each); foreign rules of the main ruleset other than anchor calls (a `block` or `pass quick` ahead of the anchor call) are not modelled",
    "harness/props/c03.py: generators, recorders replacing linux.ssubprocess / pf.pfctl / pf.ioctl / pf.pf_get_dev / pf.ssubprocess, argv parser (round-trip checked through the model's printer)",
]
ASSUMPTIONS = [
    "plans are well-formed as the client produces them (C15/C16): width <= 32/128, fport <= lport < 65536, fport = 0 -> lport = 0, redirect port of an active family != 0, tproxy mark != 0",
    "packets start with mark 0; tproxy: the user installed the documented `ip rule fwmark <tmark>` / `ip route local default dev lo` policy routing",
    "pf theorems: every family that is set up has at least one subnet entry (otherwise pf.Method.setup_firewall dies with UnboundLocalError: includes — recorded observation) and the packet's source is not the loopback address (FreeBSD rdr rule has `from ! lo`)",
    "stale-objects dimension: ONE earlier session, same method, same redirect ports (the object names contain the port), killed between two external commands (a command is atomic); only packets of a family the running session sets up are judged (for a family it does not set up firewall.main never calls the method, so that family's old objects stay as any foreign rule would; counted, not judged); a second session that refuses to start installs nothing and is outside C03 (counted: nat with an owner match on one side only cannot delete the other kind of hook, `-X` fails)",
    "owner restriction is stated per method as implemented: nat marks by uid/gid; nft/tproxy/pf ignore user and group (F15, --group is not rejected by assert_features; repaired under C15)",
]

AF = {4: socket.AF_INET, 6: socket.AF_INET6}
BITS = {4: 32, 6: 128}
W = {4: [0, 8, 24, 31, 32], 6: [0, 64, 127, 128]}
METHODS = ["nat", "nft", "tproxy", "pff", "pfd", "pfo"]   # pfd = Darwin (FreeBsd.add_rules), checked against the pff model


def hx(b):
    if isinstance(b, str):
        b = b.encode()
    return b.hex() if b else "-"


def nh(n):
    return format(n, "x")


def addr_txt(fam, n):
    return str(ipaddress.IPv4Address(n) if fam == 4 else ipaddress.IPv6Address(n))


def addr_num(txt):
    return int(ipaddress.ip_address(txt))


def fam_of_txt(txt):
    return 6 if ":" in txt else 4


# ----------------------------------------------------------------- plan / packet encodings
def plan_tokens(pl):
    t = ["P:%d:%d:%d:%d:%d:%s:%s:%s:%s" % (pl["port6"], pl["port4"], pl["dns6"], pl["dns4"], int(pl["udp"]),
                                        "-" if pl["user"] is None else pl["user"],
                                        "-" if pl["group"] is None else pl["group"],
                                        hx(pl["tmark"]), nh(int(pl["tmark"], 0)))]
    for e in pl["entries"]:
        t.append("E:%d:%d:%d:%s:%s:%d:%d" % (e["fam"], e["width"], int(e["excl"]), hx(e["txt"]), nh(e["net"]),
                                             e["fport"], e["lport"]))
    for n in pl["ns"]:
        t.append("S:%d:%s:%s" % (n["fam"], hx(n["txt"]), nh(n["addr"])))
    return " ".join(t)


def pkt_token(p):
    return "K:%d:%s:%s:%d:%d:%s:%d:%d:%d:%d" % (p["fam"], nh(p["dst"]), p["proto"], p["dport"], int(p["local"]),
                                                p["origin"], p["uid"], p["gid"], int(p["sock"]), int(p["srclo"]))


# ----------------------------------------------------------------- running the real helper
class Recorder:
    def __init__(self):
        self.calls = []          # ("argv", [...]) | ("pfctl", args, stdin)
        self.started_at = None


class FakeOut:
    def __init__(self, rec):
        self.rec = rec
        self.data = b""

    def write(self, b):
        self.data += b
        if b == b"STARTED\n":
            self.rec.started_at = len(self.rec.calls)

    def flush(self):
        pass


_loaded = {}


def load():
    if _loaded:
        return _loaded
    import sshuttle.helpers as helpers
    import sshuttle.firewall as firewall
    import sshuttle.linux as linux
    import sshuttle.methods.nat as nat
    import sshuttle.methods.nft as nft
    import sshuttle.methods.tproxy as tproxy
    import sshuttle.methods.pf as pf
    helpers.log = lambda s: None
    for m in (firewall, linux, pf):
        if hasattr(m, "log"):
            m.log = lambda s: None
    for m in (nat, nft, tproxy, pf):
        m.which = lambda name: True
    firewall.flush_systemd_dns_cache = lambda: None
    firewall.restore_etc_hosts = lambda hostmap, port: None
    firewall.rewrite_etc_hosts = lambda hostmap, port: None
    firewall.HOSTSFILE = "/nonexistent/verif-c03-hosts"
    _loaded.update(helpers=helpers, firewall=firewall, linux=linux, pf=pf)
    return _loaded


LISTING = (b"Chain PREROUTING (policy ACCEPT)\ntarget     prot opt source               destination\n\n"
           b"Chain OUTPUT (policy ACCEPT)\ntarget     prot opt source               destination\n")


def run_real(method, pl):
    """drive the real firewall.main with the dialogue of `pl`; returns (status, {fam: [cmds]})
    where cmds are the recorded argv lists (iptables/nft) or the pf rule text loaded into the anchor,
    restricted to the set-up phase (before STARTED)."""
    m = load()
    firewall, linux, pf = m["firewall"], m["linux"], m["pf"]
    rec = Recorder()

    class CalledProcessError(Exception):
        pass

    def call(argv, **kw):
        rec.calls.append(("argv", list(argv)))
        return 0

    def check_output(argv, **kw):
        return LISTING

    fake_sp = types.SimpleNamespace(call=call, check_output=check_output, CalledProcessError=CalledProcessError,
                                    PIPE=subprocess.PIPE)
    saved = (linux.ssubprocess, pf.ssubprocess, pf.pfctl, pf.ioctl, pf.pf_get_dev, pf.pf, firewall.setup_daemon)
    linux.ssubprocess = fake_sp
    pf.ssubprocess = fake_sp

    def pfctl(args, stdin=None):
        rec.calls.append(("pfctl", args, stdin))
        if args == "-s all":
            return (b"INFO:\nStatus: Disabled for 0 days\n", b"")
        if args == "-E":
            return (b"", b"pf enabled\nToken : 4242\n")
        return (b"", b"")
    pf.pfctl = pfctl
    pf.ioctl = lambda *a, **k: 0
    pf.pf_get_dev = lambda: 99
    pf._pf_context.update(started_by_sshuttle=0, loaded_by_sshuttle=True, Xtoken=[])
    name = method
    if method in ("pff", "pfd", "pfo"):
        name = "pf"
        pf.pf = {"pff": pf.FreeBsd, "pfd": pf.Darwin, "pfo": pf.OpenBsd}[method]()
    lines = ["ROUTES"]
    for e in pl["entries"]:
        lines.append("%d,%d,%d,%s,%d,%d" % (AF[e["fam"]], e["width"], int(e["excl"]), e["txt"], e["fport"], e["lport"]))
    lines.append("NSLIST")
    for n in pl["ns"]:
        lines.append("%d,%s" % (AF[n["fam"]], n["txt"]))
    lines.append("PORTS %d,%d,%d,%d" % (pl["port6"], pl["port4"], pl["dns6"], pl["dns4"]))
    lines.append("GO %d %s %s %s %d" % (int(pl["udp"]), "-" if pl["user"] is None else pl["user"],
                                        "-" if pl["group"] is None else pl["group"], pl["tmark"], 4242))
    stdin = io.BytesIO(("\n".join(lines) + "\n").encode())
    out = FakeOut(rec)
    firewall.setup_daemon = lambda: (stdin, out)
    status = "OK"
    try:
        try:
            firewall.main(name, False)
        except UnboundLocalError:
            status = "CRASH"
        except Exception as e:                      # noqa: BLE001
            status = "EXC %s: %s" % (type(e).__name__, e)
    finally:
        (linux.ssubprocess, pf.ssubprocess, pf.pfctl, pf.ioctl, pf.pf_get_dev, pf.pf, firewall.setup_daemon) = saved
    upto = rec.started_at if rec.started_at is not None else len(rec.calls)
    if status == "OK" and rec.started_at is None:
        status = "NOT-STARTED"
    per = {4: [], 6: []}
    for c in rec.calls[:upto]:
        if c[0] == "argv":
            a = c[1]
            if a[0] == "iptables":
                per[4].append(a)
            elif a[0] == "ip6tables":
                per[6].append(a)
            elif a[0] == "nft":
                per[6 if "ipv6" in a[3] else 4].append(a)
            # kldload etc. belong to C04
        else:
            mm = re.match(r"-a (sshuttle6?)-(\d+) -f /dev/stdin$", c[1])
            if mm:
                per[6 if mm.group(1) == "sshuttle6" else 4].append(c[2])
    return status, per


# ----------------------------------------------------------------- argv -> model AST encoding
class ParseError(Exception):
    pass


def chain_abs(name, port):
    for pre, ab in (("sshuttle-m-%d" % port, "MARK"), ("sshuttle-t-%d" % port, "TPROXY"),
                    ("sshuttle-d-%d" % port, "DIVERT"), ("sshuttle-%d" % port, "MAIN")):
        if name == pre:
            return ab
    if name in ("OUTPUT", "PREROUTING"):
        return name
    raise ParseError("chain %r" % name)


def parse_ipt(argv, port):
    if argv[1:3] != ["-w", "-t"] or argv[3] not in ("nat", "mangle"):
        raise ParseError("prefix %r" % argv[:5])
    tb, op = argv[3], argv[4]
    if op in ("-N", "-F"):
        if len(argv) != 6:
            raise ParseError("arity")
        return "C:%s:%s:%s" % (tb, op[1], chain_abs(argv[5], port))
    if op == "-I":
        if argv[6] != "1":
            raise ParseError("-I position")
        ch, rest = argv[5], argv[7:]
    elif op == "-A":
        ch, rest = argv[5], argv[6:]
    else:
        raise ParseError("op %s" % op)
    items = []
    i = 0
    while i < len(rest):
        k, v = rest[i], rest[i + 1] if i + 1 < len(rest) else None
        i += 2
        if k == "-j":
            if v in ("RETURN", "REDIRECT", "MARK", "TPROXY", "ACCEPT"):
                items.append("J.%s" % v)
            else:
                items.append("J.CHAIN.%s" % chain_abs(v, port))
        elif k == "--dest":
            if "/" in v:
                a, w = v.split("/")
                items.append("DEST.%s.%s.%d" % (hx(a), nh(addr_num(a)), int(w)))
            else:
                items.append("DESTH.%s.%s" % (hx(v), nh(addr_num(v))))
        elif k == "-p":
            items.append("P.%s" % v)
        elif k == "-m":
            items.append({"tcp": "MP.tcp", "udp": "MP.udp", "addrtype": "MADDRTYPE", "socket": "MSOCKET",
                          "mark": "MMARK", "owner": "MOWNER"}[v])
        elif k == "--dport":
            if ":" in v:
                f, l = v.split(":")
                items.append("DPORT.%d.%d" % (int(f), int(l)))
            else:
                items.append("DPORT1.%d" % int(v))
        elif k == "--to-ports":
            items.append("TOPORTS.%d" % int(v))
        elif k == "--on-port":
            items.append("ONPORT.%d" % int(v))
        elif k in ("--set-mark", "--tproxy-mark", "--mark"):
            items.append("%s.%s.%s" % ({"--set-mark": "SETMARK", "--tproxy-mark": "TPMARK", "--mark": "MARK"}[k],
                                       hx(v), nh(int(v, 0))))
        elif k == "--dst-type" and v == "LOCAL":
            items.append("DSTLOCAL")
        elif k == "--uid-owner":
            items.append("UID.%d" % int(v))
        elif k == "--gid-owner":
            items.append("GID.%d" % int(v))
        else:
            raise ParseError("option %r %r" % (k, v))
    return "C:%s:%s:%s:%s" % (tb, op[1], chain_abs(ch, port), ",".join(items))


FAMNAME = {"ipv4": 4, "ipv6": 6, "ip": 4, "ip6": 6}


def parse_nft(argv, fam, port):
    table = "sshuttle-ipv%d-%d" % (fam, port)
    if argv[2] != "inet" or argv[3] != table:
        raise ParseError("nft prefix %r" % argv[:4])
    act, args = argv[1], argv[4:]
    if act == "add table" and args == [""]:
        return "NT"
    if act == "add chain" and len(args) == 2 and args[0] in ("prerouting", "output"):
        return "NH:%s" % args[0][:3]
    if act == "add chain" and args == [table]:
        return "NC"
    if act == "flush chain" and args == [table]:
        return "NF"
    if act == "add rule" and args in (["output jump %s" % table], ["prerouting jump %s" % table]):
        return "NJ:%s" % args[0][:3]
    if act != "add rule" or args[0] != table:
        raise ParseError("nft %r" % argv)
    r, items = args[1:], []
    i = 0
    while i < len(r):
        if r[i:i + 3] == ["meta", "nfproto", "!="]:
            items.append("FAMNE.%d" % FAMNAME[r[i + 3]])
            i += 4
        elif r[i:i + 2] == ["meta", "nfproto"] and r[i + 3:i + 5] == ["tcp", "dport"]:
            f, v = FAMNAME[r[i + 2]], r[i + 5]
            mm = re.match(r"\{ (\d+)-(\d+) \}$", v)
            items.append("TCPR.%d.%s.%s" % (f, mm.group(1), mm.group(2)) if mm else "TCPP.%d.%d" % (f, int(v)))
            i += 6
        elif r[i:i + 2] == ["meta", "nfproto"] and r[i + 3:i + 6] == ["meta", "l4proto", "tcp"]:
            items.append("TCPA.%d" % FAMNAME[r[i + 2]])
            i += 6
        elif r[i] in ("ip", "ip6") and r[i + 1].startswith("daddr "):
            f, v = FAMNAME[r[i]], r[i + 1][6:]
            if "/" in v:
                a, w = v.split("/")
                items.append("DADDR.%d.%s.%s.%d" % (f, hx(a), nh(addr_num(a)), int(w)))
            else:
                items.append("DNSD.%d.%s.%s" % (f, hx(v), nh(addr_num(v))))
            i += 2
        elif r[i] == "return":
            items.append("RET")
            i += 1
        elif r[i] == "udp dport 53":
            items.append("UDP53")
            i += 1
        elif r[i] == "fib daddr type local return":
            items.append("FIBLOCAL")
            i += 1
        elif r[i].startswith("redirect to :"):
            items.append("REDIR.%d" % int(r[i][13:]))
            i += 1
        else:
            raise ParseError("nft token %r" % r[i])
    return "NR:%s" % ",".join(items)


def sub_enc(fam, sub, excl):
    mm = re.match(r"(\S+)/(\d+)(?: port (\d+):(\d+))?$", sub)
    if not mm:
        raise ParseError("pf subnet %r" % sub)
    a, w, f, l = mm.group(1), int(mm.group(2)), int(mm.group(3) or 0), int(mm.group(4) or 0)
    return "%d.%d.%d.%s.%s.%d.%d" % (fam, w, excl, hx(a), nh(addr_num(a)), f, l)


def parse_pf(text):
    out = []
    F = {"inet": 4, "inet6": 6}
    SUB = r"(\S+/\d+(?: port \d+:\d+)?)"
    for ln in text.decode("ascii").split("\n")[:-1]:
        mm = re.match(r"table <dns_servers> \{(.*)\}$", ln)
        if mm:
            out.append("TBL:" + ",".join("%d.%s.%s" % (fam_of_txt(a), hx(a), nh(addr_num(a))) for a in mm.group(1).split(",")))
            continue
        mm = re.match(r"rdr pass on lo0 (inet6?) proto tcp from ! (\S+) to %s -> (\S+) port (\d+)$" % SUB, ln)
        if mm:
            out.append("RDRTCP:%d:%s:%s" % (F[mm.group(1)], sub_enc(F[mm.group(1)], mm.group(3), 0), mm.group(5)))
            continue
        mm = re.match(r"rdr pass on lo0 (inet6?) proto udp to <dns_servers> port 53 -> (\S+) port (\d+)$", ln)
        if mm:
            out.append("RDRDNS:%d:%s" % (F[mm.group(1)], mm.group(3)))
            continue
        mm = re.match(r"pass out route-to lo0 (inet6?) proto tcp to %s keep state$" % SUB, ln)
        if mm:
            out.append("ROUTETCP:%d:%s" % (F[mm.group(1)], sub_enc(F[mm.group(1)], mm.group(2), 0)))
            continue
        mm = re.match(r"pass out (inet6?) proto tcp to %s$" % SUB, ln)
        if mm:
            out.append("PASSTCP:%d:%s" % (F[mm.group(1)], sub_enc(F[mm.group(1)], mm.group(2), 1)))
            continue
        mm = re.match(r"pass out route-to lo0 (inet6?) proto udp to <dns_servers> port 53 keep state$", ln)
        if mm:
            out.append("ROUTEDNS:%d" % F[mm.group(1)])
            continue
        mm = re.match(r"pass in on lo0 (inet6?) proto tcp to %s divert-to (\S+) port (\d+)$" % SUB, ln)
        if mm:
            out.append("ODIVTCP:%d:%s:%s" % (F[mm.group(1)], sub_enc(F[mm.group(1)], mm.group(2), 0), mm.group(4)))
            continue
        mm = re.match(r"pass in on lo0 (inet6?) proto udp to <dns_servers> port 53 rdr-to (\S+) port (\d+)$", ln)
        if mm:
            out.append("ORDRDNS:%d:%s" % (F[mm.group(1)], mm.group(3)))
            continue
        mm = re.match(r"pass out (inet6?) proto tcp to %s route-to lo0 keep state$" % SUB, ln)
        if mm:
            out.append("OROUTETCP:%d:%s" % (F[mm.group(1)], sub_enc(F[mm.group(1)], mm.group(2), 0)))
            continue
        mm = re.match(r"pass out (inet6?) proto udp to <dns_servers> port 53 route-to lo0 keep state$", ln)
        if mm:
            out.append("OROUTEDNS:%d" % F[mm.group(1)])
            continue
        raise ParseError("pf line %r" % ln)
    return out


def canon_cmds(cmds):
    """recorded argv lists -> the driver's GEN format"""
    if not cmds:
        return "EMPTY"
    return ";".join(",".join(hx(t) for t in a) for a in cmds)


def unhex_cmds(s):
    if s in ("EMPTY", "CRASH") or s.startswith("ERROR"):
        return s
    return [[bytes.fromhex(t).decode("latin1") if t != "-" else "" for t in c.split(",")] for c in s.split(";")]


# ----------------------------------------------------------------- generators
def mask(fam, n, w):
    b = BITS[fam]
    return (n >> (b - w)) << (b - w) if w < b else n


def gen_plan(rng, small=False, given_anchors=None):
    pl = {"entries": [], "ns": [], "udp": False, "user": None, "group": None,
          "tmark": rng.choice(["0x01", "0x01", "1", "0x10", "255"])}
    used = set()

    def fresh_port():
        while True:
            p = rng.choice([rng.randint(1, 65535), rng.randint(1024, 13000), 12300])
            if p not in used:
                used.add(p)
                return p
    anchors = {}
    for fam in (4, 6):
        b = BITS[fam]
        if given_anchors is None:
            an = [rng.getrandbits(b) for _ in range(3)]
            an.append(an[0] ^ (1 << rng.randint(0, b - 1)))
        else:
            an = list(given_anchors[fam])        # the stale-objects dimension: a second plan around the same addresses
        anchors[fam] = an
        kind = rng.random()
        n = 0 if kind < 0.15 else rng.randint(1, 3) if (kind < 0.5 or small) else rng.randint(1, 12)
        es = []
        for _ in range(n):
            r = rng.random()
            if es and r < 0.08:                      # exact duplicate
                e = dict(rng.choice(es))
            elif es and r < 0.18:                    # include + exclude of the same net / ports
                e = dict(rng.choice(es))
                e["excl"] = not e["excl"]
            elif es and r < 0.28:                    # equal key, different net
                o = rng.choice(es)
                a = rng.choice(an) ^ (rng.getrandbits(b) if rng.random() < 0.3 else 0)
                net = mask(fam, a, o["width"])
                e = dict(o, net=net, txt=addr_txt(fam, net))
            elif es and r < 0.42:                    # neighbouring key: width +-1 (or port range +-1), opposite kind, same prefix
                o = rng.choice(es)
                e = dict(o)
                if o["fport"] and rng.random() < 0.3:
                    e["lport"] = min(65535, o["lport"] + 1) if rng.random() < 0.5 or o["lport"] == o["fport"] else o["lport"] - 1
                else:
                    w2 = o["width"] + rng.choice([-1, 1])
                    w2 = min(b, max(0, w2))
                    net = mask(fam, o["net"], w2)
                    e.update(width=w2, net=net, txt=addr_txt(fam, net))
                e["excl"] = (not o["excl"]) if rng.random() < 0.8 else o["excl"]
            else:
                w = rng.choice(W[fam]) if rng.random() < 0.7 else rng.randint(0, b)
                a = rng.choice(an) if rng.random() < 0.8 else rng.getrandbits(b)
                net = mask(fam, a, w) if rng.random() < 0.85 else a
                pk = rng.random()
                if pk < 0.45:
                    fp = lp = 0
                elif pk < 0.65:
                    fp = lp = rng.choice([53, 80, 443, 1, 65535, rng.randint(1, 65535)])
                elif pk < 0.9 or not [x for x in es if x["fport"] and x["lport"] > x["fport"]]:
                    fp = rng.choice([1, 80, 8000, rng.randint(1, 65535)])
                    lp = rng.choice([65535, min(65535, fp + rng.choice([1, 10, 1000])), rng.randint(fp, 65535)])
                else:                                # nested in an earlier range
                    o = rng.choice([x for x in es if x["fport"] and x["lport"] > x["fport"]])
                    fp = rng.randint(o["fport"], o["lport"])
                    lp = rng.randint(fp, o["lport"])
                e = {"fam": fam, "width": w, "excl": rng.random() < 0.4, "txt": addr_txt(fam, net), "net": net,
                     "fport": fp, "lport": lp}
            es.append(e)
        nn = rng.choice([0, 0, 1, 1, 2, 3])
        nss = []
        for _ in range(nn):
            r = rng.random()
            if es and r < 0.4:
                o = rng.choice(es)
                a = mask(fam, o["net"], o["width"]) | (rng.getrandbits(b) >> o["width"] if o["width"] < b else 0)
            elif nss and r < 0.6 and fam == 6:       # shares the first 32 bits with another server
                a = mask(6, nss[0]["addr"], 32) | rng.getrandbits(96)
            else:
                a = rng.choice(an) ^ rng.getrandbits(8)
            nss.append({"fam": fam, "txt": addr_txt(fam, a), "addr": a})
        active = bool(es or nss)
        pl["port%d" % fam] = fresh_port() if active or rng.random() < 0.5 else 0
        pl["dns%d" % fam] = fresh_port() if (nss or rng.random() < 0.3) else 0
        pl["entries"] += es
        pl["ns"] += nss
    rng.shuffle(pl["entries"])                       # families interleaved, as the client may send them
    rng.shuffle(pl["ns"])
    pl["anchors"] = anchors
    return pl


def variant(rng, pl, method):
    v = dict(pl)
    if method == "nat":
        r = rng.random()
        if r < 0.25:
            v["user"] = rng.choice([0, 1000, 65534])
        elif r < 0.4:
            v["group"] = rng.choice([0, 100, 1000])
        elif r < 0.5:
            v["user"], v["group"] = 1000, 100
    elif method == "tproxy":
        v["udp"] = rng.random() < 0.5
    return v


def gen_packets(rng, pl, k):
    pts = []
    for fam in (4, 6):
        b = BITS[fam]
        top = (1 << b) - 1
        addrs = [0, top, rng.getrandbits(b)] + list(pl["anchors"][fam])
        ports = [53, 53, 80, 1, 65535, rng.randint(1, 65535)]
        for e in pl["entries"]:
            if e["fam"] != fam:
                continue
            lo = mask(fam, e["net"], e["width"])
            hi = lo | ((1 << (b - e["width"])) - 1)
            addrs += [lo, hi, max(0, lo - 1), min(top, hi + 1), rng.randint(lo, hi), e["net"]]
            if e["fport"]:
                ports += [e["fport"], e["lport"], max(1, e["fport"] - 1), min(65535, e["lport"] + 1),
                          rng.randint(e["fport"], e["lport"])]
        nsa = []
        for n in pl["ns"]:
            if n["fam"] != fam:
                continue
            nsa += [n["addr"], n["addr"] ^ 1]
            if fam == 6:
                nsa.append(mask(6, n["addr"], 32) | rng.getrandbits(96))
            else:
                nsa.append(mask(4, n["addr"], 24) | rng.getrandbits(8))
        pts.append((fam, addrs, ports, nsa))
    out = []
    uids = [0, 1000, 1001, 65534] + ([pl["user"]] * 3 if pl["user"] is not None else [])
    gids = [0, 100, 101, 1000] + ([pl["group"]] * 3 if pl["group"] is not None else [])
    for _ in range(k):
        fam, addrs, ports, nsa = rng.choice(pts)
        proto = "tcp" if rng.random() < 0.6 else "udp"
        if proto == "udp" and nsa and rng.random() < 0.6:
            dst = rng.choice(nsa)
            dport = 53 if rng.random() < 0.8 else rng.choice(ports)
        else:
            dst = rng.choice(addrs + nsa)
            dport = rng.choice(ports)
        out.append({"fam": fam, "dst": dst, "proto": proto, "dport": dport, "local": rng.random() < 0.12,
                    "origin": "L" if rng.random() < 0.6 else "F", "uid": rng.choice(uids), "gid": rng.choice(gids),
                    "sock": rng.random() < 0.08, "srclo": rng.random() < 0.08})
    return out


# ----------------------------------------------------------------- oracle
def expected(method, pl, p, ev):
    """what the property demands, from the extracted SPEC side only (ev = EVAL fields).  None = out of the
    property's scope for this packet."""
    fam = p["fam"]
    port, dns = pl["port%d" % fam], pl["dns%d" % fam]
    own = ev["own"] == "1" if method == "nat" else True
    if p["sock"] and method == "tproxy":
        return None                                   # later packet of an existing flow
    if p["srclo"] and method in ("pff", "pfd"):
        return None
    if p["proto"] == "tcp":
        if p["local"]:
            return None                               # the property speaks about non-local destinations
        return "divert:%d" % port if ev["spec"] == "1" and own else "untouched"
    if p["dport"] == 53 and ev["ns"] == "1":
        return "divert:%d" % dns if own else "untouched"
    if method == "tproxy" and pl["udp"]:
        if p["local"]:
            return None
        return "divert:%d" % port if ev["spec"] == "1" else "untouched"
    return "untouched"


F18_WITNESS_PLAN = {"entries": [{"fam": 6, "width": 64, "excl": False, "txt": "2404:6800:4004:80c::",
                                 "net": addr_num("2404:6800:4004:80c::"), "fport": 0, "lport": 0}],
                    "ns": [{"fam": 6, "txt": "2404:6800:4004:80c::33", "addr": addr_num("2404:6800:4004:80c::33")}],
                    "port6": 1024, "port4": 0, "dns6": 1026, "dns4": 0, "udp": False, "user": None, "group": None,
                    "tmark": "0x01"}
F18_WITNESS_PKT = {"fam": 6, "dst": addr_num("2404:6800:ffff::1"), "proto": "udp", "dport": 53, "local": False,
                   "origin": "L", "uid": 1000, "gid": 1000, "sock": False, "srclo": False}


def model_name(method):
    return "pff" if method == "pfd" else method


def real_rules_encoding(method, pl, per, status):
    """(encodings per family, crashed?) of what the real code emitted, for WALKR/PRINTR"""
    enc = {}
    for fam in (6, 4):
        port = pl["port%d" % fam]
        if method in ("nat", "tproxy"):
            enc[fam] = [parse_ipt(a, port) for a in per[fam]]
        elif method == "nft":
            enc[fam] = [parse_nft(a, fam, port) for a in per[fam]]
        else:
            enc[fam] = parse_pf(per[fam][0]) if per[fam] else []
    return enc


def check_case(ctx, method, pl, pkts, tag=None):
    """one (method, plan) case: token-for-token rules, parser round trip, walk on the real rules vs spec.
    Returns list of failing (packet, got, want)."""
    mm = model_name(method)
    ptoks = plan_tokens(pl)
    status, per = run_real(method, pl)
    lines = ["GEN %s 6 %s" % (mm, ptoks), "GEN %s 4 %s" % (mm, ptoks)]
    gen6, gen4 = ctx.run_driver(lines)
    gen = {6: gen6, 4: gen4}
    desc = {"method": method, "plan": {k: v for k, v in pl.items() if k != "anchors"}}
    crashed = False
    ok_rules = True
    for fam in (6, 4):                 # firewall.main sets up v6 first
        if crashed:
            break                      # the helper died: nothing more is emitted
        if method in ("pff", "pfd", "pfo"):
            impl = "CRASH" if (status == "CRASH" and not per[fam] and gen[fam] == "CRASH") else \
                   (hx(per[fam][0]) if per[fam] else "EMPTY")
            if impl == "CRASH":
                crashed = True
                ctx.count("pf_empty_subnets_crash")
        else:
            impl = canon_cmds(per[fam])
        if impl != gen[fam]:
            ok_rules = False
            ctx.disagree("rules of %s (IPv%d) differ token for token" % (method, fam), desc,
                         unhex_cmds(impl) if mm not in ("pff", "pfo") else impl,
                         unhex_cmds(gen[fam]) if mm not in ("pff", "pfo") else gen[fam])
    if status not in ("OK", "CRASH") or (status == "CRASH" and not crashed):
        ctx.disagree("real helper did not reach STARTED", desc, status, "OK")
        return []
    # parser round trip + walk on the real rules
    try:
        enc = real_rules_encoding(method, pl, per, status)
    except ParseError as e:
        ctx.disagree("cannot parse the emitted rules back into the model's AST", desc, str(e), "")
        return []
    lines = []
    if mm in ("pff", "pfo"):
        for fam in (6, 4):
            lines.append("PRINTR %s %s" % (mm, " ".join(enc[fam])))
    else:
        for fam in (6, 4):
            lines.append("PRINTR %s %d %d %s" % (mm, fam, pl["port%d" % fam], " ".join(enc[fam])))
    if crashed:
        pkts = []
    pk = ",".join(pkt_token(p) for p in pkts)
    if pkts:
        lines.append("EVAL %s %s" % (pk, ptoks))
        tm = nh(int(pl["tmark"], 0))
        if mm == "nft":
            lines.append("WALKR nft %s - %s / %s" % (pk, " ".join(enc[6]), " ".join(enc[4])))
        out = ctx.run_driver(lines)
        ev = [dict(kv.split("=") for kv in s.split(" ")) for s in out[2].split(" | ")]
        if mm == "nft":
            real = out[3].split(" ")
        else:
            # iptables / pf rule sets are per family: walk each packet in its own family's rules
            real = [None] * len(pkts)
            for fam in (6, 4):
                idx = [i for i, p in enumerate(pkts) if p["fam"] == fam]
                if not idx:
                    continue
                r = ctx.run_driver(["WALKR %s %s %s %s" % (mm, ",".join(pkt_token(pkts[i]) for i in idx), tm,
                                                          " ".join(enc[fam]))])[0].split(" ")
                for i, v in zip(idx, r):
                    real[i] = v
    else:
        out = ctx.run_driver(lines)
        ev, real = [], []
    for fam, o in zip((6, 4), out[:2]):
        want = canon_cmds(per[fam]) if mm not in ("pff", "pfo") else (hx(per[fam][0]) if per[fam] else "EMPTY")
        if o != want:
            ctx.disagree("argv parser round trip (print(parse(argv)) != argv) for %s IPv%d" % (method, fam), desc,
                         want[:600], o[:600])
    fails = []
    hit = False
    for p, e, r in zip(pkts, ev, real):
        if e["wf"] != "1":
            ctx.disagree("generated plan is not well-formed", desc, e, "")
            break
        if e["spec"] == "1" or e["ns"] == "1":
            hit = True
        mv = e[mm]
        if r != mv and ok_rules:
            ctx.disagree("walk on the real rules differs from the model's verdict (%s)" % method,
                         dict(desc, packet=p), r, mv)
        if method == "tproxy" and not p["sock"]:
            # chains-agree, on the model's own rules
            if (e["marked"] == "1") != (e["tdiv"] == "1"):
                ctx.violation("tproxy mark chain and tproxy chain disagree", dict(desc, packet=p))
        want = expected(method, pl, p, e)
        ctx.count("%s_%s_%s" % (method, p["proto"], "oos" if want is None else want.split(":")[0]))
        if want is not None and r != want:
            rep = dict(desc, packet=p, got=r, want=want)
            if method == "tproxy" and e["f18"] == "1":
                rep["finding_id"] = "F18"
                ctx.count("f18_hits")
                ctx.violation("tproxy diverts UDP/53 to an address that merely shares 32 bits with an IPv6 name server",
                              rep)
            else:
                ctx.violation("%s: verdict of the emitted rules differs from the specification" % method, rep)
            fails.append((p, r, want))
    ctx.case((method, ptoks), nontrivial=hit or bool(pl["entries"]),
             sample={"method": method, "entries": len(pl["entries"]), "ns": len(pl["ns"]), "packets": len(pkts),
                     "first_cmds": [" ".join(a) if isinstance(a, list) else a.decode()[:200]
                                    for a in (per[4] or per[6])[-3:]],
                     "verdicts": real[:8]} if pl["entries"] else None)
    ctx.count("cases_%s" % method)
    ctx.count("entries_total", len(pl["entries"]))
    ctx.count("packets_total", len(pkts))
    return fails


def correspondence(ctx):
    rng = ctx.rng
    quick = ctx.quick()
    load()
    # ---- fixed cases: the two rule sets of the existing test-suite, the F18 witness
    t1 = dict(F18_WITNESS_PLAN)
    t1["entries"] = t1["entries"] + [{"fam": 6, "width": 128, "excl": True, "txt": "2404:6800:4004:80c::101f",
                                      "net": addr_num("2404:6800:4004:80c::101f"), "fport": 80, "lport": 80}]
    t2 = {"entries": [{"fam": 4, "width": 24, "excl": False, "txt": "1.2.3.0", "net": addr_num("1.2.3.0"),
                       "fport": 8000, "lport": 9000},
                      {"fam": 4, "width": 32, "excl": True, "txt": "1.2.3.66", "net": addr_num("1.2.3.66"),
                       "fport": 8080, "lport": 8080}],
          "ns": [{"fam": 4, "txt": "1.2.3.33", "addr": addr_num("1.2.3.33")}],
          "port6": 0, "port4": 1025, "dns6": 0, "dns4": 1027, "udp": False, "user": None, "group": None, "tmark": "0x01"}
    for base in (t1, t2):
        base["anchors"] = {4: [addr_num("1.2.3.66")], 6: [addr_num("2404:6800:4004:80c::101f")]}
        for m in METHODS:
            v = variant(rng, base, m)
            check_case(ctx, m, v, gen_packets(rng, v, 40))
    # F18 witness (replayed on every run)
    w = dict(F18_WITNESS_PLAN, anchors={4: [0], 6: [0]})
    fails = check_case(ctx, "tproxy", w, [F18_WITNESS_PKT])
    if fails:
        ctx.known("F18", "tproxy emits --dest <ns>/32 for IPv6 name servers: UDP/53 to 2404:6800:ffff::1 is diverted to the "
                         "DNS listener although only 2404:6800:4004:80c::33 is configured")
    else:
        ctx.notes.append("F18 witness no longer fails on this tree")
    # name servers only (no subnet of that family): pf dies with UnboundLocalError (observation, unreachable from the client)
    nso = dict(t2, entries=[], anchors={4: [0], 6: [0]})
    for m in METHODS:
        check_case(ctx, m, nso, gen_packets(rng, nso, 12))
    # ---- generated plans
    nplans = 60 if quick else 2500
    npk = 36 if quick else 60
    for i in range(nplans):
        pl = gen_plan(rng, small=(i % 3 == 0))
        for m in METHODS:
            if m == "pfd" and i % 4:
                continue                       # Darwin shares FreeBsd.add_rules; sampled less often
            v = variant(rng, pl, m)
            if m in ("pff", "pfd", "pfo") and rng.random() < 0.9:
                # keep pf plans inside the reachable space (every active family has an entry) most of the time
                for fam in (4, 6):
                    if not [e for e in v["entries"] if e["fam"] == fam]:
                        v = dict(v, ns=[n for n in v["ns"] if n["fam"] != fam])
            check_case(ctx, m, v, gen_packets(rng, v, npk))
    # F15 observation: --group with a method that ignores it produces exactly the same rules
    pl = gen_plan(rng, small=True)
    for m in ("nft", "tproxy", "pff", "pfo"):
        v = dict(pl, group=100)
        if m.startswith("pf"):
            for fam in (4, 6):
                if not [e for e in v["entries"] if e["fam"] == fam]:
                    v = dict(v, ns=[n for n in v["ns"] if n["fam"] != fam])
        check_case(ctx, m, v, [])
        ctx.count("f15_group_ignored_cases")
    # ---- the packet filter already holds the session's own objects (left by a killed session with another plan)
    stale_dimension(ctx)
    if not quick:
        netns_validate(ctx)
        kernel_verdicts(ctx)
    ctx.programs = ctx.evaluations


# ----------------------------------------------------------------- own objects left by a killed session
# A session that is killed (SIGKILL / OOM) never runs its tear-down: its table / chains / anchor, named for the port,
# stay in the packet filter.  The next session on the same port must install rules that decide by ITS entries alone.
# Here the REAL set-up of plan A runs against a kernel model that executes every command (coq/Model/FwLife.v, the
# kernel of C04, as a co-process: iptables -N/-F/-X/-I/-A/-D/-nL, nft add/flush/delete, pfctl anchor loads ...), the
# state after k commands (or after all of them) is what the killed session left, then the REAL set-up of plan B runs on
# that state, and the state at B's STARTED is parsed back into the model's rule AST and walked (coq/Model/FwWalk.v) for
# packets drawn from both plans' entries — compared with the specification of plan B.
class Kernel:
    """coq/Model/FwLife.v `exec` behind drivers/c04_driver.ml (KSET / KCMD / KGET)"""

    def __init__(self, driver):
        self.p = subprocess.Popen(["bash", "-c", "ulimit -s unlimited 2>/dev/null; exec %s" % driver],
                                  stdin=subprocess.PIPE, stdout=subprocess.PIPE)
        self.empty = self.ask("KGET")            # the co-process starts from k_empty (built-in chains only, pf loaded, off)

    def ask(self, line):
        self.p.stdin.write(line.encode() + b"\n")
        self.p.stdin.flush()
        r = self.p.stdout.readline().decode().rstrip("\n")
        if r.startswith("ERROR") or r == "":
            raise KernelError("kernel co-process: %r on %s" % (r, line[:300]))
        return r

    def set(self, enc):
        assert self.ask("KSET " + enc) == "OK"

    def get(self):
        return self.ask("KGET")

    def cmd(self, argv, stdin=b""):
        r = self.ask("KCMD 0 %s %s" % (hx(stdin), " ".join(hx(a) for a in argv)))
        rc, out, err = r.split(" ")
        return int(rc), (b"" if out == "-" else bytes.fromhex(out)), (b"" if err == "-" else bytes.fromhex(err))

    def close(self):
        try:
            self.p.stdin.close()
            self.p.wait(timeout=5)
        except Exception:                            # noqa: BLE001
            self.p.kill()


class KernelError(Exception):
    pass


def _unhx(x):
    return b"" if x == "-" else bytes.fromhex(x)


def dec_ktable(s):
    """drivers/c04_driver.ml str_of_table: name:rule,rule;name:...  (rule = tok.tok...)"""
    if s == "-":
        return []
    out = []
    for c in s.split(";"):
        n, _, rest = c.partition(":")
        out.append((_unhx(n), [[_unhx(t) for t in r.split(".")] if r else [] for r in rest.split(",")] if rest else []))
    return out


def dec_kstate(s):
    f = s.split(" ")
    if len(f) != 6:
        raise KernelError("state %r" % s[:200])
    nft = []
    if f[4] != "-":
        for x in f[4].split("|"):
            n, _, t = x.partition("=")
            nft.append((_unhx(n), dec_ktable(t)))
    q = f[5].split(",")
    anchors = [tuple(_unhx(y) for y in c.split(".")) for c in q[7].split("+")] if q[7] else []
    # pf MAIN ruleset (drivers/c04_driver.ml str_of_pf: ld,on,refs,next,skip,main,calls,anchors): the anchor calls
    # ("r" = rdr-anchor, "p" = anchor) and whether pf is enabled (FwLife.v pf_enabled: -e or an outstanding -E token)
    calls = [(c[0], _unhx(c[2:])) for c in q[6].split("+")] if q[6] else []
    return {"v6nat": dec_ktable(f[0]), "v6mangle": dec_ktable(f[1]), "v4nat": dec_ktable(f[2]),
            "v4mangle": dec_ktable(f[3]), "nft": nft, "anchors": anchors, "pf_calls": calls,
            "pf_enabled": q[0] == "1" and (q[1] == "1" or q[2] != "")}


def kernel_for(ctx):
    """the C04 driver (extraction of Model/FwLife.v); built from the current tree like the C03 driver"""
    import build
    try:
        with build.Lock():
            build.coq_make(["Extract/C04_extract.vo"])
            drv = build.build_driver("C04")
    except build.BuildError as e:
        drv = os.path.join(build.BIN, "c04_driver")
        if not os.path.exists(drv):
            raise
        ctx.notes.append("kernel co-process: %s failed, the existing bin/c04_driver is used" % e.stage)
    return Kernel(drv)


def run_real_k(method, pl, kern, snaps=None, trace=None):
    """the real firewall.main with the dialogue of `pl`; every external command (iptables / ip6tables / nft / pfctl /
    kldload, the pf ioctl that adds an anchor call) is executed by the kernel co-process on its held state.  When the
    helper writes STARTED the boundary freezes (later commands — the tear-down after EOF — do nothing), so that the
    state held afterwards is the one of the running session.  snaps: list receiving the state after each command;
    trace: list receiving (argv, exit status the kernel model answered) of each command."""
    import struct
    m = load()
    firewall, linux, pf, helpers = m["firewall"], m["linux"], m["pf"], m["helpers"]
    w = types.SimpleNamespace(frozen=False, n=0, started=False)

    def external(argv, stdin=b""):
        if w.frozen:
            return 0, b"", b""
        rc, out, err = kern.cmd([a.encode("latin1") if isinstance(a, str) else a for a in argv], stdin)
        w.n += 1
        if snaps is not None:
            snaps.append(kern.get())
        if trace is not None:
            trace.append(([a if isinstance(a, str) else a.decode("latin1") for a in argv], rc))
        return rc, out, err

    def call(argv, **kw):
        return external(argv)[0]

    def check_output(argv, **kw):
        rc, out, _ = external(argv)
        if rc:
            raise subprocess.CalledProcessError(rc, argv)
        return out

    fake_sp = types.SimpleNamespace(call=call, check_output=check_output,
                                    CalledProcessError=subprocess.CalledProcessError, PIPE=subprocess.PIPE)

    def pfctl(args, stdin=None):
        argv = ["pfctl"] + args.split()
        rc, out, err = external(argv, stdin or b"")
        if rc:
            raise helpers.Fatal("%r returned %d" % (argv, rc))        # pf.py:395-400
        return (out, err)

    def ioctl(dev, req, buf):
        pfo = pf.pf
        if req == pfo.DIOCCHANGERULE:
            raw = bytes(buf)
            action = struct.unpack("I", raw[pfo.ACTION_OFFSET:pfo.ACTION_OFFSET + 4])[0]
            if action == pfo.PF_CHANGE_ADD_TAIL:
                name = raw[pfo.ANCHOR_CALL_OFFSET:pfo.ANCHOR_CALL_OFFSET + pfo.MAXPATHLEN].split(b"\0")[0]
                kind = struct.unpack("I", raw[pfo.RULE_ACTION_OFFSET:pfo.RULE_ACTION_OFFSET + 4])[0]
                external(["ioctl-add-anchor", "rdr" if kind == pfo.PF_RDR else "pass", name])
        return 0

    class Out:
        def write(self, b):
            if b == b"STARTED\n":
                w.started = True
                w.frozen = True

        def flush(self):
            pass

    saved = (linux.ssubprocess, pf.ssubprocess, pf.pfctl, pf.ioctl, pf.pf_get_dev, pf.pf, firewall.setup_daemon)
    linux.ssubprocess = fake_sp
    pf.ssubprocess = fake_sp
    pf.pfctl = pfctl
    pf.ioctl = ioctl
    pf.pf_get_dev = lambda: 99
    pf._pf_context.update(started_by_sshuttle=0, loaded_by_sshuttle=True, Xtoken=[])     # a new helper process
    name = method
    if method in ("pff", "pfd", "pfo"):
        name = "pf"
        pf.pf = {"pff": pf.FreeBsd, "pfd": pf.Darwin, "pfo": pf.OpenBsd}[method]()
    lines = ["ROUTES"]
    for e in pl["entries"]:
        lines.append("%d,%d,%d,%s,%d,%d" % (AF[e["fam"]], e["width"], int(e["excl"]), e["txt"], e["fport"], e["lport"]))
    lines.append("NSLIST")
    for n in pl["ns"]:
        lines.append("%d,%s" % (AF[n["fam"]], n["txt"]))
    lines.append("PORTS %d,%d,%d,%d" % (pl["port6"], pl["port4"], pl["dns6"], pl["dns4"]))
    lines.append("GO %d %s %s %s %d" % (int(pl["udp"]), "-" if pl["user"] is None else pl["user"],
                                        "-" if pl["group"] is None else pl["group"], pl["tmark"], 4242))
    stdin = io.BytesIO(("\n".join(lines) + "\n").encode())
    firewall.setup_daemon = lambda: (stdin, Out())
    status = "STARTED"
    try:
        try:
            firewall.main(name, False)
        except KernelError:
            raise
        except Exception as e:                      # noqa: BLE001
            status = "%s: %s" % (type(e).__name__, str(e)[:200])
    finally:
        (linux.ssubprocess, pf.ssubprocess, pf.pfctl, pf.ioctl, pf.pf_get_dev, pf.pf, firewall.setup_daemon) = saved
    if status == "STARTED" and not w.started:
        status = "NOT-STARTED"
    return status


def fam_active(pl, fam):
    return any(e["fam"] == fam for e in pl["entries"]) or any(n["fam"] == fam for n in pl["ns"])


def state_rules(method, pl, st):
    """the objects the kernel state holds under the names of plan pl's ports, as WALKR encodings per family.
    Families plan pl does not set up are left out for iptables / pf (their rule sets are per family)."""
    enc = {4: [], 6: []}
    lat = lambda r: [t.decode("latin1") for t in r]                   # noqa: E731
    if method in ("nat", "tproxy"):
        for fam in (4, 6):
            if not fam_active(pl, fam):
                continue
            prog = "iptables" if fam == 4 else "ip6tables"
            for tb in ("nat", "mangle"):
                for name, rules in st["v%d%s" % (fam, tb)]:
                    for r in rules:
                        enc[fam].append(parse_ipt([prog, "-w", "-t", tb, "-A", name.decode("latin1")] + lat(r),
                                                  pl["port%d" % fam]))
    elif method == "nft":
        for name, chains in st["nft"]:
            mm = re.match(rb"sshuttle-ipv([46])-(\d+)$", name)
            if not mm:
                raise ParseError("nft table %r" % name)
            fam, port = int(mm.group(1)), int(mm.group(2))
            for cname, rules in chains:
                for r in rules:
                    enc[fam].append(parse_nft(["nft", "add rule", "inet", name.decode("latin1")] + lat(r), fam, port))
    else:
        anchors = dict(st["anchors"])
        for fam in (4, 6):
            if not fam_active(pl, fam):
                continue
            name = pf_anchor_name(pl, fam)
            text = anchors.get(name)
            enc[fam] = parse_pf(text) if text else []
            # the complete state: the anchor's rules + whether the main ruleset calls it + the enable state
            # (coq/Model/FwPfHook.v pf_hook; walked by pf_state_verdict_of)
            enc.setdefault("hook", {})[fam] = "H%d%d%d" % (st["pf_enabled"], ("r", name) in st["pf_calls"],
                                                           ("p", name) in st["pf_calls"])
    return enc


def pf_anchor_name(pl, fam):
    return ("sshuttle%s-%d" % ("6" if fam == 6 else "", pl["port%d" % fam])).encode()      # pf.py:449-451


def pf_hook_report(method, pl, st):
    """what of the complete pf state keeps the rules in the session's anchors from being evaluated:
    (generic text for the violation's `what`, details for the replay file); ('', None) = nothing"""
    if not method.startswith("pf"):
        return "", None
    gen = []
    if not st["pf_enabled"]:
        gen.append("pf is not enabled")
    no_r = no_p = False
    for fam in (4, 6):
        if not fam_active(pl, fam):
            continue
        name = pf_anchor_name(pl, fam)
        no_r = no_r or (method != "pfo" and ("r", name) not in st["pf_calls"])
        no_p = no_p or ("p", name) not in st["pf_calls"]
    if no_r:
        gen.append('the main ruleset has no `rdr-anchor "sshuttle[6]-<port>"` call for the session\'s anchor (its rdr rules '
                   'are never evaluated)')
    if no_p:
        gen.append('the main ruleset has no filter `anchor "sshuttle[6]-<port>"` call for the session\'s anchor (its '
                   'pass out / route-to lo0 rules are never evaluated: nothing is diverted)')
    if not gen:
        return "", None
    detail = {"pf_enabled": st["pf_enabled"],
              "main_ruleset_anchor_calls_after_setup": ['%s "%s"' % ("rdr-anchor" if k == "r" else "anchor", n.decode("latin1"))
                                                        for k, n in st["pf_calls"]],
              "session_anchors": [pf_anchor_name(pl, fam).decode() for fam in (4, 6) if fam_active(pl, fam)]}
    return "; ".join(gen), detail


def walk_state(ctx, method, pl, enc, pkts):
    mm = model_name(method)
    if not pkts:
        return []
    if mm == "nft":
        return ctx.run_driver(["WALKR nft %s - %s / %s" % (",".join(pkt_token(p) for p in pkts),
                                                          " ".join(enc[6]), " ".join(enc[4]))])[0].split(" ")
    tm = nh(int(pl["tmark"], 0))
    real = [None] * len(pkts)
    for fam in (6, 4):
        idx = [i for i, p in enumerate(pkts) if p["fam"] == fam]
        if not idx:
            continue
        r = ctx.run_driver(["WALKR %s %s %s %s" % (mm, ",".join(pkt_token(pkts[i]) for i in idx),
                                                  enc.get("hook", {}).get(fam, tm), " ".join(enc[fam]))])[0].split(" ")
        for i, v in zip(idx, r):
            real[i] = v
    return real


def owner_of(pl):
    return (pl["user"], pl["group"])


def mark_rule_enc(pl, fam):
    """the items of nat.py:38-44 `-m owner [--uid-owner U] [--gid-owner G] -j MARK --set-mark <port>` in the parser's encoding"""
    port = pl["port%d" % fam]
    return ",".join(["MOWNER"] + (["UID.%d" % pl["user"]] if pl["user"] is not None else [])
                    + (["GID.%d" % pl["group"]] if pl["group"] is not None else [])
                    + ["J.MARK", "SETMARK.%s.%s" % (hx(str(port)), nh(port))])


def f140_identity(plA, plB, p):
    has = lambda pl: pl["user"] is not None or pl["group"] is not None        # noqa: E731
    return (has(plA) and has(plB) and owner_of(plA) != owner_of(plB) and p["origin"] == "L"
            and (plA["user"] is None or p["uid"] == plA["user"]) and (plA["group"] is None or p["gid"] == plA["group"]))


F140_TEXT = ("nat with --user/--group: the owner MARK rule sits in the built-in mangle OUTPUT chain and restore_firewall only "
             "deletes the rule of the CURRENT user/group; after a session that died without tear-down (kill -9) a later "
             "session on the same port with another --user/--group leaves that MARK rule in place (same residue as F41), "
             "and the earlier owner's traffic to the new session's included subnets is diverted although the property "
             "says traffic of another owner is left alone")


def stale_eval(ctx, method, plA, kdesc, plB, st, pkts, main=None):
    """oracle of plan B on the COMPLETE kernel state `st` (pf: main ruleset's anchor calls + enable state + anchors)
    reached by the real set-up of B over what A left / (main is not None) on a main ruleset that held the anchor calls
    `main` before.  Returns list of failing (packet, got, want, finding)."""
    mm = model_name(method)
    desc = {"method": method, "plan": {k: v for k, v in plB.items() if k != "anchors"}}
    if main is None:
        desc["stale"] = {"plan": {k: v for k, v in plA.items() if k != "anchors"}, "after_commands": kdesc}
    else:
        desc["main_ruleset"] = main
    try:
        enc = state_rules(method, plB, st)
    except ParseError as e:
        ctx.disagree("stale objects: the packet-filter state after set-up B over the leftovers of A cannot be parsed "
                     "into the model's rule AST", desc, str(e), "")
        return []
    n_all = len(pkts)
    pkts = [p for p in pkts if fam_active(plB, p["fam"])]
    ctx.count("stale_packets_of_a_family_not_set_up_not_judged", n_all - len(pkts))
    if not pkts:
        return []
    ev = [dict(kv.split("=") for kv in s.split(" "))
          for s in ctx.run_driver(["EVAL %s %s" % (",".join(pkt_token(p) for p in pkts), plan_tokens(plB))])[0].split(" | ")]
    real = walk_state(ctx, method, plB, enc, pkts)
    owner_differs = method == "nat" and owner_of(plA) != owner_of(plB)
    fails = []
    for p, e, r in zip(pkts, ev, real):
        if e["wf"] != "1":
            ctx.disagree("generated plan is not well-formed", desc, e, "")
            break
        want = expected(method, plB, p, e)
        ctx.count("stale_%s_%s" % (method, "oos" if want is None else want.split(":")[0]))
        if want is not None and r != want:
            rep = dict(desc, packet=p, got=r, want=want)
            finding = None
            if method == "tproxy" and e["f18"] == "1":
                finding = "F18"
                rep["finding_id"] = "F18"
                ctx.violation("tproxy diverts UDP/53 to an address that merely shares 32 bits with an IPv6 name server", rep)
            else:
                if owner_differs and f140_identity(plA, plB, p):
                    # exact identity of F140: nat, both sessions with an owner match, the packet comes from the EARLIER
                    # session's uid/gid, mangle OUTPUT holds the running session's MARK rule (inserted at position 1)
                    # followed by exactly the earlier session's MARK rule, and without that one rule the verdict is right
                    fam = p["fam"]
                    mo = [c for c in enc[fam] if c.startswith("C:mangle:A:OUTPUT:")]
                    if len(mo) == 2 and mo[1] == "C:mangle:A:OUTPUT:" + mark_rule_enc(plA, fam):
                        drop = [i for i, c in enumerate(enc[fam]) if c.startswith("C:mangle:A:OUTPUT:")][1]
                        rest = enc[fam][:drop] + enc[fam][drop + 1:]
                        alt = walk_state(ctx, method, plB, {fam: rest, 10 - fam: []}, [p])[0]
                        if alt == want:
                            finding = "F140"
                if finding == "F140":
                    rep["finding_id"] = "F140"
                    ctx.count("f140_hits")
                    ctx.violation("nat: the owner MARK rule of a killed session with another --user/--group stays in "
                                  "mangle OUTPUT: that owner's traffic is diverted", rep)
                else:
                    hook, detail = pf_hook_report(method, plB, st)
                    if detail:
                        rep["pf_state"] = detail
                    if main is None:
                        what = ("%s: set-up over the objects a killed session left on the same port: verdict differs "
                                "from the specification of the running session's entries" % method)
                    else:
                        what = ("%s: set-up on a main ruleset that already held anchor calls (rdr-anchor only / anchor only "
                                "/ both / other ports): verdict on the complete state (main ruleset + anchors) differs from "
                                "the specification of the session's entries" % method)
                    ctx.violation(what + (" — " + hook if hook else ""), rep)
            fails.append((p, r, want, finding))
        elif r != e[mm] and not owner_differs:
            # outside the property's scope (or agreeing with it by accident): the state must still decide as the model's
            # clean-state rules do (c03_nft_stale_own_objects; restore_firewall / anchor reload for the others)
            ctx.disagree("stale objects: walk on the state after set-up B over the leftovers of A differs from the model's "
                         "verdict for plan B on a clean packet filter (%s)" % method, dict(desc, packet=p), r, e[mm])
    return fails


def stale_case(ctx, kern, method, plA, plB, pkts, rng=None, nprefix=0, only_k=None):
    """A set up for real from an empty packet filter, killed after k commands (every k in only_k / the complete set-up and
    nprefix prefixes chosen by rng / all prefixes when nprefix is None); then B for real on that state; oracle of B."""
    kern.set(kern.empty)
    snaps = []
    stA = run_real_k(method, plA, kern, snaps)
    desc = {"method": method, "plan_A": {k: v for k, v in plA.items() if k != "anchors"}}
    if stA != "STARTED":
        ctx.disagree("stale objects: the first session did not reach STARTED on an empty packet filter", desc, stA, "STARTED")
        return []
    states = []                      # (commands issued, state) where the state changed
    prev = kern.empty
    for i, s in enumerate(snaps):
        if s != prev:
            states.append((i + 1, s))
            prev = s
    if not states:
        return []
    if only_k is not None:
        chosen = [(k, snaps[k - 1]) for k in only_k if 1 <= k <= len(snaps)]
    elif nprefix is None:
        chosen = states
    else:
        chosen = [states[-1]] + (rng.sample(states[:-1], min(nprefix, len(states) - 1)) if nprefix and len(states) > 1 else [])
    allfails = []
    for k, s in chosen:
        kdesc = k
        complete = (k, s) == states[-1]
        kern.set(s)
        stB = run_real_k(method, plB, kern)
        ctx.count("stale_runs_%s" % method)
        ctx.count("stale_after_%s" % ("complete_setup" if complete else "prefix"))
        if stB != "STARTED":
            # the second session refuses to start: nothing is installed for it; outside C03 (recorded)
            expected_refusal = method == "nat" and (owner_of(plA) == (None, None)) != (owner_of(plB) == (None, None))
            ctx.count("stale_%s_second_session_refused%s" % (method, "_owner_hook_differs" if expected_refusal else ""))
            if not expected_refusal:
                # the code as found always starts here (restore_firewall / idempotent nft commands / anchor reload)
                ctx.disagree("stale objects: the second session does not reach STARTED on the objects a killed session left",
                             dict(desc, plan_B={x: y for x, y in plB.items() if x != "anchors"}, after_commands=k),
                             stB, "STARTED")
            continue
        st = dec_kstate(kern.get())
        fails = stale_eval(ctx, method, plA, kdesc, plB, st, pkts)
        allfails += fails
        ctx.case(("stale", method, plan_tokens(plA), k, plan_tokens(plB)), nontrivial=bool(plA["entries"] or plA["ns"]),
                 sample=None)
    return allfails


def real_state_counts(text):
    """{(kind, table, chain): number of rules} from `iptables-save` / `ip6tables-save` / `nft list ruleset` output sections"""
    v4, v6, nft = text.split("=====\n")
    out = {}
    for fam, save in ((4, v4), (6, v6)):
        tb = None
        for ln in save.split("\n"):
            if ln.startswith("*"):
                tb = ln[1:]
            elif ln.startswith(":"):
                out.setdefault((fam, tb, ln[1:].split(" ")[0]), 0)
            elif ln.startswith("-A "):
                k = (fam, tb, ln.split(" ")[1])
                out[k] = out.get(k, 0) + 1
    table = chain = None
    for ln in nft.split("\n"):
        t = ln.strip()
        mm = re.match(r"table (\S+) (\S+) \{$", t)
        if mm:
            # iptables-nft keeps its own tables (`table ip nat` ...) in the same rule set: counted through iptables-save
            table = mm.group(2) if mm.group(1) == "inet" else False
        elif re.match(r"chain (\S+) \{$", t):
            chain = t.split(" ")[1]
            if table:
                out[("nft", table, chain)] = 0
        elif t == "}":
            if chain is not None:
                chain = None
            else:
                table = None
        elif chain is not None and table and t and not t.startswith("type "):
            out[("nft", table, chain)] += 1
    return out


def model_state_counts(st):
    out = {}
    for fam in (4, 6):
        for tb in ("nat", "mangle"):
            for name, rules in st["v%d%s" % (fam, tb)]:
                out[(fam, tb, name.decode("latin1"))] = len(rules)
    for name, chains in st["nft"]:
        for cname, rules in chains:
            out[("nft", name.decode("latin1"), cname.decode("latin1"))] = len(rules)
    return out


def stale_netns_validate(ctx, kern, rng):
    """thorough: the command sequences of the stale-objects dimension (A's set-up cut after k commands, then B's set-up
    with its restore_firewall / idempotent nft commands) executed by the REAL iptables / ip6tables / nft in a fresh
    network namespace: the exit status of every command and the number of rules per chain at the end must be what the
    kernel model (coq/Model/FwLife.v) answered."""
    import shlex
    ok = subprocess.run(["timeout", "20", "unshare", "-n", "bash", "-c", "iptables -w -t nat -nL >/dev/null && nft list ruleset"],
                        stdout=subprocess.PIPE, stderr=subprocess.PIPE)
    if ok.returncode != 0:
        ctx.notes.append("stale-objects netns validation skipped: unshare/iptables/nft unusable (%s)" % ok.stderr.decode()[-200:])
        return
    n_ok = n_cmds = 0
    for i in range(16):
        plA = gen_plan(rng, small=True)
        plB = related_plan(rng, plA)
        for m in ("nat", "nft", "tproxy"):
            va, vb = variant(rng, plA, m), variant(rng, plB, m)
            if m == "nat" and rng.random() < 0.5:
                vb = dict(vb, user=va["user"], group=va["group"])
            kern.set(kern.empty)
            tA = []
            if run_real_k(m, va, kern, trace=tA) != "STARTED" or not tA:
                continue
            for k in sorted({len(tA), rng.randint(1, len(tA)), rng.randint(1, len(tA))}):
                kern.set(kern.empty)
                for argv, _ in tA[:k]:
                    kern.cmd([a.encode("latin1") for a in argv])
                tB = []
                stB = run_real_k(m, vb, kern, trace=tB)
                # the helper's tear-down after a refused start is frozen out only after STARTED: it is part of the trace
                st = dec_kstate(kern.get())
                seq = tA[:k] + tB
                script = ["ip link set lo up"]
                for argv, _ in seq:
                    script.append("%s >/dev/null 2>&1; echo RC $?" % " ".join(shlex.quote(a) for a in argv))
                script.append("echo =====; iptables-save; echo =====; ip6tables-save; echo =====; nft list ruleset")
                r = subprocess.run(["timeout", "180", "unshare", "-n", "bash", "-c", "\n".join(script)],
                                   stdout=subprocess.PIPE, stderr=subprocess.PIPE)
                desc = {"method": m, "plan_A": {x: y for x, y in va.items() if x != "anchors"}, "after_commands": k,
                        "plan_B": {x: y for x, y in vb.items() if x != "anchors"}, "second_session": stB}
                head, _, rest = r.stdout.decode().partition("=====\n")
                rcs = [int(x[3:]) for x in head.split("\n") if x.startswith("RC ")]
                if len(rcs) != len(seq):
                    ctx.notes.append("stale-objects netns validation: no result for %s (%s)" % (m, r.stderr.decode()[-200:]))
                    continue
                bad = [(j, seq[j][0], rcs[j], seq[j][1]) for j in range(len(seq)) if (rcs[j] != 0) != (seq[j][1] != 0)]
                if bad:
                    ctx.disagree("stale objects: the real tool's exit status differs from the kernel model's (command index, argv, "
                                 "real, model)", desc, bad[:3], "equal")
                    continue
                real, model = real_state_counts(rest), model_state_counts(st)
                diff = {str(x): (real.get(x, 0), model.get(x, 0)) for x in set(real) | set(model)
                        if real.get(x, 0) != model.get(x, 0)}
                if diff or {x for x in real if x not in model and x[0] == "nft"} or {x for x in model if x not in real and x[0] == "nft"}:
                    ctx.disagree("stale objects: rules per chain after both sessions, real tools vs kernel model (real, model)",
                                 desc, diff, "equal")
                    continue
                n_ok += 1
                n_cmds += len(seq)
                ctx.count("stale_netns_sequences_%s" % m)
    ctx.extra["stale_netns_sequences_validated"] = n_ok
    ctx.extra["stale_netns_commands_validated"] = n_cmds


def related_plan(rng, plA):
    """a second plan for the same ports around the same addresses: some entries of A kept, some turned from include to
    exclude or back, some widened / narrowed, new ones; name servers kept / dropped / new"""
    for _ in range(20):
        plB = gen_plan(rng, small=rng.random() < 0.5, given_anchors=plA["anchors"])
        extra = []
        for e in plA["entries"]:
            r = rng.random()
            if r < 0.2:
                extra.append(dict(e))
            elif r < 0.45:
                extra.append(dict(e, excl=not e["excl"]))
            elif r < 0.55:
                w2 = min(BITS[e["fam"]], max(0, e["width"] + rng.choice([-1, 1, -8, 8])))
                net = mask(e["fam"], e["net"], w2)
                extra.append(dict(e, width=w2, net=net, txt=addr_txt(e["fam"], net), excl=rng.random() < 0.5))
        plB["entries"] = plB["entries"] + extra
        rng.shuffle(plB["entries"])
        for n in plA["ns"]:
            if rng.random() < 0.3:
                plB["ns"].append(dict(n))
        for fam in (4, 6):
            if plA["port%d" % fam]:
                plB["port%d" % fam] = plA["port%d" % fam]
            elif fam_active(plB, fam) and not plB["port%d" % fam]:
                plB["port%d" % fam] = rng.randint(20000, 30000)
            if plA["dns%d" % fam] and rng.random() < 0.5:
                plB["dns%d" % fam] = plA["dns%d" % fam]
            if any(n["fam"] == fam for n in plB["ns"]) and not plB["dns%d" % fam]:
                plB["dns%d" % fam] = rng.randint(30001, 40000)
        ports = [plB[k] for k in ("port4", "port6", "dns4", "dns6") if plB[k]]
        if len(set(ports)) == len(ports):
            return plB
    return plB


def pf_reachable(pl):
    """pf plans inside the reachable space: every family that is set up has an entry (pf.py:458-470 otherwise)"""
    for fam in (4, 6):
        if not [e for e in pl["entries"] if e["fam"] == fam]:
            pl = dict(pl, ns=[n for n in pl["ns"] if n["fam"] != fam])
    return pl


def E4(txt, w, excl=False, fp=0, lp=0):
    return {"fam": 4, "width": w, "excl": excl, "txt": txt, "net": addr_num(txt), "fport": fp, "lport": lp}


def E6(txt, w, excl=False, fp=0, lp=0):
    return {"fam": 6, "width": w, "excl": excl, "txt": txt, "net": addr_num(txt), "fport": fp, "lport": lp}


STALE_A = {"entries": [E4("10.0.0.0", 8), E4("10.9.0.0", 16, True), E6("fd00:a::", 32)],
           "ns": [{"fam": 4, "txt": "10.0.0.53", "addr": addr_num("10.0.0.53")},
                  {"fam": 6, "txt": "fd00:a::53", "addr": addr_num("fd00:a::53")}],
           "port6": 12300, "port4": 12300, "dns6": 12299, "dns4": 12299, "udp": False, "user": None, "group": None,
           "tmark": "0x01", "anchors": {4: [addr_num("10.2.3.4"), addr_num("10.9.1.1")], 6: [addr_num("fd00:a::1")]}}
STALE_B = {"entries": [E4("192.168.0.0", 16), E4("192.168.5.0", 24, True), E4("10.9.0.0", 16), E6("fd00:b::", 32)],
           "ns": [{"fam": 4, "txt": "192.168.0.53", "addr": addr_num("192.168.0.53")}],
           "port6": 12300, "port4": 12300, "dns6": 0, "dns4": 12298, "udp": False, "user": None, "group": None,
           "tmark": "0x01", "anchors": {4: [addr_num("192.168.1.1"), addr_num("192.168.5.5"), addr_num("10.9.1.1")],
                                        6: [addr_num("fd00:b::1")]}}
F140_PKT = {"fam": 4, "dst": addr_num("192.168.1.1"), "proto": "tcp", "dport": 80, "local": False, "origin": "L",
            "uid": 1000, "gid": 100, "sock": False, "srclo": False}


# ----------------------------------------------------------------- pf: the main ruleset the set-up finds
# The rules sshuttle loads into the anchors `sshuttle-<port>` / `sshuttle6-<port>` decide nothing by themselves: pf
# evaluates them only where the MAIN ruleset calls the anchor (`rdr-anchor "<name>"` for its translation rules,
# `anchor "<name>"` for its filter rules; pf.conf(5) ANCHORS).  pf.py adds the missing calls (add_anchors, two separate
# ioctls, never removed at exit), so what the set-up finds there varies: nothing (first run), both calls (later runs),
# only one of them (an earlier run died between the two ioctls / pf.conf names only one / the filter rules were
# reloaded), and calls for OTHER ports whose names contain this port's name or are contained in it.  The property's
# "the rules installed ... divert ..." is judged on the complete state after the real set-up: main ruleset's calls +
# enable state + anchor content (state_rules), walked by the extracted pf_state_verdict_of (coq/Model/FwPfHook.v;
# theorems c03_pf_state_tcp / c03_pf_state_no_filter_call / c03_pf_state_disabled).
def pf_main_variants(rng, method, pl, nrandom):
    """[(label, [(kind, name bytes)...])]: anchor calls put into the main ruleset before the real set-up runs"""
    fams = [fam for fam in (4, 6) if fam_active(pl, fam)]
    own = {fam: pf_anchor_name(pl, fam) for fam in fams}
    R = lambda n: ("r", n)                                         # noqa: E731
    P = lambda n: ("p", n)                                         # noqa: E731
    others = []
    for fam in fams:
        port, pre = pl["port%d" % fam], ("sshuttle6-" if fam == 6 else "sshuttle-")
        for q in {port // 10, port * 10, int("1%d" % port), int(str(port)[1:] or "0"), port + 1}:
            if q and q != port:
                others.append((pre + str(q)).encode())            # 1230 / 123000 / 112300 / 2300 vs 12300
        others.append((("sshuttle-" if fam == 6 else "sshuttle6-") + str(port)).encode())   # the other family's name form
    others = [n for n in dict.fromkeys(others) if n not in own.values()]
    both_others = [c for n in others for c in (R(n), P(n))]
    v = [("neither", []),
         ("rdr-anchor only", [R(own[f]) for f in fams]),
         ("anchor only", [P(own[f]) for f in fams]),
         ("both", [c for f in fams for c in (R(own[f]), P(own[f]))]),
         ("both, filter call first", [c for f in fams for c in (P(own[f]), R(own[f]))]),
         ("calls for other ports only", both_others),
         ("rdr-anchor only + calls for other ports", both_others[:len(both_others) // 2] + [R(own[f]) for f in fams]
          + both_others[len(both_others) // 2:]),
         ("anchor only + calls for other ports", [P(own[f]) for f in fams] + both_others),
         ("rdr-anchor of this port, anchor of other ports", [R(own[f]) for f in fams] + [P(n) for n in others]),
         ("anchor of this port, rdr-anchor of other ports", [R(n) for n in others] + [P(own[f]) for f in fams])]
    if len(fams) == 2:
        v.append(("IPv4: rdr-anchor only, IPv6: both", [R(own[4]), R(own[6]), P(own[6])]))
        v.append(("IPv6: anchor only, IPv4: neither", [P(own[6])]))
    for _ in range(nrandom):
        cs = [c for f in fams for c in (R(own[f]), P(own[f])) if rng.random() < 0.5]
        cs += [c for c in both_others if rng.random() < 0.3]
        rng.shuffle(cs)
        v.append(("random subset", cs))
    if method == "pfo":
        # OpenBSD has no rdr-anchor statement (filter rules only; pf.py:275-281): such a line cannot be in its main ruleset
        seen, w = set(), []
        for label, cs in v:
            cs = [c for c in cs if c[0] == "p"]
            if tuple(cs) not in seen:
                seen.add(tuple(cs))
                w.append((label, cs))
        v = w
    return v


def pf_main_case(ctx, kern, method, pl, label, calls, pkts):
    """the real set-up of pl on a packet filter whose main ruleset already holds `calls`; oracle on the complete state"""
    kern.set(kern.empty)
    for kind, name in calls:
        rc, _, _ = kern.cmd([b"ioctl-add-anchor", b"rdr" if kind == "r" else b"pass", name])
        if rc:
            raise KernelError("ioctl-add-anchor refused")
    main = {"label": label, "calls": [[kind, name.decode("latin1")] for kind, name in calls]}
    desc = {"method": method, "plan": {k: v for k, v in pl.items() if k != "anchors"}, "main_ruleset": main}
    st0 = kern.get()
    status = run_real_k(method, pl, kern)
    ctx.count("pf_main_runs_%s" % method)
    ctx.count("pf_main_start_%s" % label.replace(" ", "_").replace(",", "").replace(":", ""))
    if status != "STARTED":
        ctx.disagree("pf main-ruleset dimension: the session does not reach STARTED", desc, status, "STARTED")
        return []
    st = dec_kstate(kern.get())
    # calls that were there before stay, in order (foreign / earlier calls are never removed or duplicated by add_anchors)
    before = dec_kstate(st0)["pf_calls"]
    if st["pf_calls"][:len(before)] != before:
        ctx.disagree("pf main-ruleset dimension: anchor calls present before the set-up were changed", desc,
                     st["pf_calls"], before)
    fails = stale_eval(ctx, method, None, None, pl, st, pkts, main=main)
    ctx.case(("pfmain", method, plan_tokens(pl), label, tuple(calls)), nontrivial=bool(pl["entries"]), sample=None)
    return fails


def pf_main_dimension(ctx, kern, rng):
    quick = ctx.quick()
    fixed = [pf_reachable(STALE_A), pf_reachable(STALE_B),
             pf_reachable(dict(STALE_A, port4=1230, port6=12300, dns4=1229, dns6=12299))]
    for m in ("pff", "pfd", "pfo"):
        for pl in fixed:
            for label, calls in pf_main_variants(rng, m, pl, 2 if quick else 12):
                pf_main_case(ctx, kern, m, pl, label, calls, gen_packets(rng, pl, 12 if quick else 30))
    for i in range(4 if quick else 150):
        pl = gen_plan(rng, small=(i % 2 == 0))
        for m in ("pff", "pfd", "pfo"):
            v = pf_reachable(variant(rng, pl, m))
            if not (fam_active(v, 4) or fam_active(v, 6)):
                continue
            vs = pf_main_variants(rng, m, v, 2 if quick else 6)
            for label, calls in (rng.sample(vs, min(4, len(vs))) if quick else vs):
                pf_main_case(ctx, kern, m, v, label, calls, gen_packets(rng, v, 12 if quick else 30))


def stale_packets(rng, plA, plB, n):
    return gen_packets(rng, plB, n) + gen_packets(rng, plA, n)


def stale_dimension(ctx):
    import random
    rng = random.Random(ctx.seed * 7919 + 303)       # own stream: the plans of the other sections stay what they were
    quick = ctx.quick()
    kern = kernel_for(ctx)
    try:
        # ---- fixed: 10/8 (-x 10.9/16, ns 10.0.0.53) killed after every k, then 192.168/16 -x 192.168.5/24 + 10.9/16 on the same port
        for m in METHODS:
            a, b = (pf_reachable(STALE_A), pf_reachable(STALE_B)) if m.startswith("pf") else (STALE_A, STALE_B)
            stale_case(ctx, kern, m, a, b, stale_packets(rng, a, b, 30), nprefix=None)
            stale_case(ctx, kern, m, b, a, stale_packets(rng, b, a, 30), nprefix=None)
        # ---- F140 witness (nat, the earlier session ran for uid 1000, the running one for uid 1001)
        fails = stale_case(ctx, kern, "nat", dict(STALE_B, user=1000), dict(STALE_B, user=1001), [F140_PKT], nprefix=0)
        if any(f[3] == "F140" for f in fails):
            ctx.known("F140", F140_TEXT)
        else:
            ctx.notes.append("F140 witness no longer fails on this tree")
        # same owner: the MARK rule of the earlier session is the one restore_firewall deletes
        stale_case(ctx, kern, "nat", dict(STALE_A, user=1000, group=100), dict(STALE_B, user=1000, group=100),
                   stale_packets(rng, STALE_A, STALE_B, 30), nprefix=None)
        # ---- generated pairs
        npairs = 30 if quick else 600
        npk = 24 if quick else 40
        for i in range(npairs):
            plA = gen_plan(rng, small=(i % 2 == 0))
            plB = related_plan(rng, plA)
            for m in METHODS:
                if m == "pfd" and i % 3:
                    continue
                va, vb = variant(rng, plA, m), variant(rng, plB, m)
                if m == "nat" and rng.random() < 0.6:
                    vb = dict(vb, user=va["user"], group=va["group"])
                if m.startswith("pf"):
                    va, vb = pf_reachable(va), pf_reachable(vb)
                stale_case(ctx, kern, m, va, vb, stale_packets(rng, va, vb, npk), rng=rng,
                           nprefix=(2 if quick else 5))
        # ---- pf: the main ruleset the set-up finds (anchor calls of this / other ports already there)
        import random as _random
        pf_main_dimension(ctx, kern, _random.Random(ctx.seed * 104729 + 77))      # own stream
        if not quick:
            stale_netns_validate(ctx, kern, rng)
    finally:
        kern.close()


# ----------------------------------------------------------------- thorough: real iptables in a namespace
def netns_validate(ctx):
    """execute the recorded iptables/ip6tables command lists with the real tools in a fresh network namespace and
    compare `iptables-save` with the model's chains (order and content of the rules)."""
    rng = ctx.rng
    ok = subprocess.run(["timeout", "20", "unshare", "-n", "iptables", "-w", "-t", "nat", "-nL"],
                        stdout=subprocess.PIPE, stderr=subprocess.PIPE)
    if ok.returncode != 0:
        ctx.notes.append("netns validation skipped: unshare/iptables unusable (%s)" % ok.stderr.decode()[-200:])
        return
    n_ok = 0
    for i in range(30):
        pl = gen_plan(rng, small=True)
        for m in ("nat", "tproxy"):
            v = variant(rng, pl, m)
            if m == "nat":
                v["user"], v["group"] = (rng.choice([None, 0]), rng.choice([None, 0]))
            status, per = run_real(m, v)
            if status != "OK":
                continue
            script = ["set -e", "ip link set lo up"]
            for fam in (6, 4):
                for a in per[fam]:
                    script.append(" ".join("'%s'" % t for t in a))
            script.append("iptables-save; echo ======; ip6tables-save")
            r = subprocess.run(["timeout", "120", "unshare", "-n", "bash", "-c", "\n".join(script)],
                               stdout=subprocess.PIPE, stderr=subprocess.PIPE)
            desc = {"method": m, "plan": {k: x for k, x in v.items() if k != "anchors"}}
            if r.returncode != 0:
                ctx.disagree("real iptables rejected a command list the helper emits", desc,
                             r.stderr.decode()[-400:], "accepted")
                continue
            saves = r.stdout.decode().split("======")
            for fam, save in zip((4, 6), saves):
                got = [ln for ln in save.split("\n") if ln.startswith("-A ")]
                want = count_appends(per[fam])
                if len(got) != want:
                    ctx.disagree("iptables-save shows %d rules, the helper issued %d -A/-I commands" % (len(got), want),
                                 desc, got[:40], want)
                    continue
                # order inside the per-port chains as saved == order of the -A commands
                order_ok = saved_order_matches(got, per[fam])
                if not order_ok:
                    ctx.disagree("iptables-save rule order differs from command order", desc, got[:40], per[fam][:40])
            n_ok += 1
            ctx.count("netns_rule_sets")
    ctx.extra["netns_rule_sets_validated"] = n_ok


# ----------------------------------------------------------------- thorough: real kernel verdicts
PROBE_SCRIPT = r'''
import json, os, select, socket, subprocess, sys, time
job = json.load(sys.stdin)
def sh(c):
    return subprocess.call(c, shell=True, stdout=subprocess.DEVNULL, stderr=subprocess.DEVNULL)
sh("ip link set lo up"); sh("ip addr add 192.168.77.1/32 dev lo"); sh("ip -6 addr add fd77::1/128 dev lo")
if job["mode"] == "anyip":
    sh("ip route add local default dev lo"); sh("ip -6 route add local default dev lo")
else:
    sh("ip route add default dev lo"); sh("ip -6 route add default dev lo")
    if job["mode"] == "tproxy":
        sh("ip rule add fwmark %d lookup 100" % job["tmark"]); sh("ip route add local default dev lo table 100")
        sh("ip -6 rule add fwmark %d lookup 100" % job["tmark"]); sh("ip -6 route add local default dev lo table 100")
for a in job["cmds"]:
    rc = subprocess.call(a, stdout=subprocess.DEVNULL, stderr=subprocess.PIPE)
    if rc != 0:
        print(json.dumps({"error": "command failed: %r" % a})); sys.exit(0)
lst = {}
def listener(fam, typ, port):
    s = socket.socket(fam, typ)
    s.setsockopt(socket.SOL_SOCKET, socket.SO_REUSEADDR, 1)
    if fam == socket.AF_INET6:
        s.setsockopt(socket.IPPROTO_IPV6, socket.IPV6_V6ONLY, 1)
    if job["mode"] == "tproxy":
        s.setsockopt(socket.SOL_IP, 19, 1)
        if fam == socket.AF_INET6:
            s.setsockopt(41, 75, 1)
    s.bind(("::" if fam == socket.AF_INET6 else "0.0.0.0", port))
    if typ == socket.SOCK_STREAM:
        s.listen(256)
    s.setblocking(False)
    return s
ports = {}
for fam, key in ((socket.AF_INET, "4"), (socket.AF_INET6, "6")):
    for typ, pk, name in ((socket.SOCK_STREAM, "port", "tcp"), (socket.SOCK_DGRAM, "dns", "udp"), (socket.SOCK_DGRAM, "port", "udp")):
        port = job[pk + key]
        if port and (key, name, port) not in lst:
            try:
                lst[(key, name, port)] = listener(fam, typ, port)
                ports[lst[(key, name, port)]] = port
            except OSError as e:
                print(json.dumps({"error": "listener %s%s: %s" % (name, key, e)})); sys.exit(0)
res = [None] * len(job["probes"])
socks = {}
for i, pr in enumerate(job["probes"]):
    fam = socket.AF_INET if pr["fam"] == 4 else socket.AF_INET6
    if pr["proto"] == "tcp":
        s = socket.socket(fam, socket.SOCK_STREAM); s.setblocking(False)
        try:
            s.connect((pr["dst"], pr["dport"]))
        except BlockingIOError:
            pass
        except OSError as e:
            res[i] = "err:%s" % e.errno; s.close(); continue
        socks[s] = i
    else:
        s = socket.socket(fam, socket.SOCK_DGRAM)
        try:
            s.sendto(b"P%06d" % i, (pr["dst"], pr["dport"]))
        except OSError as e:
            res[i] = "err:%s" % e.errno
        s.close()
deadline = time.time() + job.get("wait", 0.6)
accepted = 0
udp_seen = {}
while time.time() < deadline:
    r, w, _ = select.select(list(lst.values()), list(socks), [], 0.05)
    for s in r:
        if s.type == socket.SOCK_STREAM:
            try:
                c, peer = s.accept(); c.send(b"S%05d" % ports[s]); c.close()
            except OSError:
                pass
        else:
            try:
                d, peer = s.recvfrom(100)
                if d[:1] == b"P":
                    udp_seen[int(d[1:7])] = ports[s]
            except OSError:
                pass
    for s in w:
        i = socks.pop(s)
        err = s.getsockopt(socket.SOL_SOCKET, socket.SO_ERROR)
        if err == 0:
            s.setblocking(True); s.settimeout(0.5)
            # give the listener loop a chance to accept
            for l in lst.values():
                if l.type == socket.SOCK_STREAM:
                    try:
                        c, peer = l.accept(); c.send(b"S%05d" % ports[l]); c.close()
                    except OSError:
                        pass
            try:
                d = s.recv(6)
            except OSError as e:
                d = b""
            res[i] = "divert:%d" % int(d[1:6]) if d[:1] == b"S" and len(d) == 6 else "connected-elsewhere"
        else:
            res[i] = "untouched" if err == 111 else "err:%d" % err
        s.close()
for s, i in socks.items():
    res[i] = "untouched"; s.close()
for i, pr in enumerate(job["probes"]):
    if pr["proto"] == "udp" and res[i] is None:
        res[i] = "divert:%d" % udp_seen[i] if i in udp_seen else "untouched"
print(json.dumps({"results": res}))
'''


def probe_ok(p, ports):
    """destinations a namespace with only `lo` can probe: unicast, non-local, not a listener port"""
    if p["dport"] in ports or p["dport"] == 0:
        return False
    if p["fam"] == 4:
        o = p["dst"] >> 24
        return 1 <= o <= 223 and o != 127 and p["dst"] != addr_num("192.168.77.1")
    o = p["dst"] >> 120
    return 0x20 <= o <= 0xfc and p["dst"] != addr_num("fd77::1")


def kernel_verdicts(ctx):
    """run the emitted rules in the real kernel (fresh network namespace, everything routed via lo, listeners on the
    redirect / DNS ports) and compare who receives each probe with the modelled walk"""
    rng = ctx.rng
    n_probe = n_incon = 0
    for i in range(24):
        pl = gen_plan(rng, small=(i % 2 == 0))
        for m in ("nat", "nft", "tproxy"):
            v = variant(rng, pl, m)
            if m == "nat" and v["user"] is not None:
                v["user"] = rng.choice([0, 1000])
            if m == "nat" and v["group"] is not None:
                v["group"] = rng.choice([0, 100])
            status, per = run_real(m, v)
            if status != "OK":
                continue
            ports = {v["port4"], v["port6"], v["dns4"], v["dns6"]}
            pk = []
            for p in gen_packets(rng, v, 60):
                p = dict(p, local=False, origin="L", uid=0, gid=0, sock=False, srclo=False)
                if probe_ok(p, ports):
                    pk.append(p)
            pk = pk[:28]
            if not pk:
                continue
            job = {"mode": "tproxy" if m == "tproxy" else "route", "tmark": int(v["tmark"], 0),
                   "cmds": per[6] + per[4], "port4": v["port4"], "port6": v["port6"], "dns4": v["dns4"], "dns6": v["dns6"],
                   "wait": 0.7,
                   "probes": [{"fam": p["fam"], "dst": addr_txt(p["fam"], p["dst"]), "dport": p["dport"], "proto": p["proto"]}
                              for p in pk]}
            r = subprocess.run(["timeout", "60", "unshare", "-n", sys.executable, "-c", PROBE_SCRIPT],
                               input=json.dumps(job).encode(), stdout=subprocess.PIPE, stderr=subprocess.PIPE)
            desc = {"method": m, "plan": {k: x for k, x in v.items() if k != "anchors"}}
            try:
                out = json.loads(r.stdout.decode())
            except ValueError:
                ctx.notes.append("kernel probe produced no result for %s: %s" % (m, r.stderr.decode()[-300:]))
                continue
            if "error" in out:
                ctx.disagree("the real tool rejected a command the helper emits", desc, out["error"], "accepted")
                continue
            ev = ctx.run_driver(["EVAL %s %s" % (",".join(pkt_token(p) for p in pk), plan_tokens(v))])[0].split(" | ")
            for p, e, real in zip(pk, ev, out["results"]):
                mv = dict(kv.split("=") for kv in e.split(" "))[m]
                if not (real.startswith("divert:") or real == "untouched"):
                    n_incon += 1
                    continue
                n_probe += 1
                ctx.count("kernel_%s_%s" % (m, real.split(":")[0]))
                if real != mv:
                    ctx.disagree("real kernel verdict differs from the modelled packet walk (%s)" % m,
                                 dict(desc, packet=p), real, mv)
    ctx.extra["kernel_probes_compared"] = n_probe
    ctx.extra["kernel_probes_inconclusive"] = n_incon


def count_appends(cmds):
    return sum(1 for a in cmds if a[4] in ("-A", "-I"))


def saved_order_matches(saved, cmds):
    """destinations (normalised) of the saved rules per chain, in order, equal those of the -A commands"""
    def norm_dest(v):
        if "/" in v:
            a, w = v.split("/")
        else:
            a, w = v, None
        ip = ipaddress.ip_address(a)
        w = ip.max_prefixlen if w is None else int(w)
        net = ipaddress.ip_network((int(ip) >> (ip.max_prefixlen - w) << (ip.max_prefixlen - w) if w < ip.max_prefixlen else int(ip), w))
        return str(net)
    per_chain_cmd, per_chain_saved = {}, {}
    for a in cmds:
        if a[4] != "-A":
            continue
        d = norm_dest(a[a.index("--dest") + 1]) if "--dest" in a else "any"
        j = a[a.index("-j") + 1]
        per_chain_cmd.setdefault(a[5], []).append((d, j))
    for ln in saved:
        t = ln.split()
        if t[1] in ("OUTPUT", "PREROUTING"):
            continue
        d = norm_dest(t[t.index("-d") + 1]) if "-d" in t else "any"
        j = t[t.index("-j") + 1]
        per_chain_saved.setdefault(t[1], []).append((d, j))
    for ch, l in per_chain_cmd.items():
        s = per_chain_saved.get(ch, [])
        # iptables prints a 0-width destination as absent
        l2 = [("any" if d.endswith("/0") else d, j) for d, j in l]
        s2 = [("any" if d.endswith("/0") else d, j) for d, j in s]
        if l2 != s2:
            return False
    return True


def replay(ctx, rp):
    """re-run a stored failing input against the real code; True if it still fails"""
    load()
    r = rp.get("replay", {})
    if "packet" not in r or "plan" not in r:
        print("nothing replayable in", rp.get("kind"))
        return False
    pl = dict(r["plan"], anchors={4: [0], 6: [0]})
    if "main_ruleset" in r:
        # set-up of r["plan"] on a pf main ruleset that already holds the anchor calls r["main_ruleset"]["calls"]
        kern = kernel_for(ctx)
        try:
            mf = pf_main_case(ctx, kern, r["method"], pl, r["main_ruleset"].get("label", "replay"),
                              [(k, n.encode("latin1")) for k, n in r["main_ruleset"]["calls"]], [r["packet"]])
        finally:
            kern.close()
        for p, got, want, finding in mf:
            print("method %s, main ruleset held %r before the set-up, packet %r: complete state (main ruleset + anchors) "
                  "gives %s, specification demands %s" % (r["method"], r["main_ruleset"]["calls"], p, got, want))
        return bool(mf) or bool(ctx.disagreements)
    if "stale" in r:
        # set-up of r["plan"] over what r["stale"]["plan"] left after that many commands of its own set-up
        kern = kernel_for(ctx)
        try:
            sf = stale_case(ctx, kern, r["method"], dict(r["stale"]["plan"], anchors={4: [0], 6: [0]}), pl, [r["packet"]],
                            only_k=[int(r["stale"]["after_commands"])])
        finally:
            kern.close()
        for p, got, want, finding in sf:
            print("method %s, after a killed session's leftovers, packet %r: rules give %s, specification of the running "
                  "session demands %s%s" % (r["method"], p, got, want, " (%s)" % finding if finding else ""))
        return bool(sf) or bool(ctx.disagreements)
    fails = check_case(ctx, r["method"], pl, [r["packet"]])
    for p, got, want in fails:
        print("method %s packet %r: emitted rules give %s, specification demands %s" % (r["method"], p, got, want))
    return bool(fails) or bool(ctx.disagreements)


if __name__ == "__main__":
    sys.path.insert(0, os.path.join(os.path.dirname(os.path.abspath(__file__)), ".."))
    import framework
    sys.exit(framework.main(sys.modules[__name__]))
