"""C03 — traffic is intercepted exactly when its most specific subnet entry is an include.

Correspondence: the real sshuttle.firewall.main (dialogue -> per-family split ->
Method.setup_firewall of nat / nft / tproxy / pf[FreeBsd, Darwin, OpenBsd]) runs with
the subprocess boundary replaced by recorders; the recorded argv lists / pf rule
text are compared TOKEN FOR TOKEN with the printer of the extracted Coq model
(coq/Model/FwRules.v).  Then the extracted packet walk (coq/Model/FwWalk.v) is
evaluated on the rules THE REAL CODE EMITTED (argv parsed back into the model's
AST; the parser itself is checked by printing its result with the model's
printer) for packets sampled per cell of the address x port arrangement induced by
the entries, and compared with the extracted specification (spec_intercept, name
servers, owner) — the property oracle on the implementation."""
import io
import ipaddress
import json
import os
import re
import socket
import subprocess
import sys
import types

PROP = "C03"
RULE = ("plans x packets: 0-12 entries per family (widths concentrated at 0,8,24,31,32 / 0,64,127,128, shared anchors so "
        "prefixes overlap, host bits set, equal keys, single ports, ranges, nested ranges, duplicates, include+exclude of the "
        "same net), 0-3 name servers per family (inside/outside entries, IPv6 servers sharing their first 32 bits), user/group "
        "(nat), udp on/off (tproxy); packets per cell: subnet first/last/just-outside/inside addresses, range first/last/"
        "just-outside ports, name-server addresses and neighbours, tcp/udp, local/non-local, generated/forwarded, owner "
        "matching or not; a case is non-trivial when at least one entry or name server matches a sampled packet; distinct by plan hash")
TRUSTED_BASE = [
    "MODELLED, not verified: the kernel packet filter (coq/Model/FwWalk.v): iptables/ip6tables/nft first-match chain walk with jumps, RETURN, non-terminating MARK; mangle OUTPUT before nat OUTPUT; policy re-routing of packets carrying the tproxy mark to lo and hence PREROUTING; `inet` nft tables see both families; pf last-match filter rules, first-match rdr, route-to lo0; address text is parsed by the tools to the number the harness computes with Python's ipaddress module",
    "thorough tier validates the Linux part of that model against the real kernel in fresh network namespaces: (a) the recorded iptables/ip6tables command lists are executed by the real tools and iptables-save is compared (count, per-chain order, target, destination); (b) real verdicts: the emitted nat / nft / tproxy rules are loaded, listeners sit on the redirect and DNS ports, ~2000 TCP connects / UDP datagrams per run go to sampled cell representatives (both families, routed via lo, tproxy with the documented fwmark policy routing and IP_TRANSPARENT listeners) and who receives each probe is compared with the modelled walk; pf cannot be validated on this image (no BSD) and rests on pf.conf(5)",
    "CPython sorted() is stable and reverse=True keeps equal keys in original order (checked on every run by the token-for-token comparison, which contains equal-key entries)",
    "harness/props/c03.py: generators, recorders replacing linux.ssubprocess / pf.pfctl / pf.ioctl / pf.pf_get_dev / pf.ssubprocess, argv parser (round-trip checked through the model's printer)",
]
ASSUMPTIONS = [
    "plans are well-formed as the client produces them (C15/C16): width <= 32/128, fport <= lport < 65536, fport = 0 -> lport = 0, redirect port of an active family != 0, tproxy mark != 0",
    "packets start with mark 0; tproxy: the user installed the documented `ip rule fwmark <tmark>` / `ip route local default dev lo` policy routing",
    "pf theorems: every family that is set up has at least one subnet entry (otherwise pf.Method.setup_firewall dies with UnboundLocalError: includes — recorded observation) and the packet's source is not the loopback address (FreeBSD rdr rule has `from ! lo`)",
    "owner restriction is stated per method as implemented: nat marks by uid/gid; nft/tproxy/pf ignore user and group (F15, --group is not rejected by assert_features; repaired under C15)",
]

AF = {4: socket.AF_INET, 6: socket.AF_INET6}
BITS = {4: 32, 6: 128}
W = {4: [0, 8, 24, 31, 32], 6: [0, 64, 127, 128]}
METHODS = ["nat", "nft", "tproxy", "pff", "pfd", "pfo"]   # pfd = Darwin (FreeBsd.add_rules), checked against the pff model


def hx(b):
    if isinstance(b, str):
        b = b.encode()
    return b.hex() if b else "-"


def nh(n):
    return format(n, "x")


def addr_txt(fam, n):
    return str(ipaddress.IPv4Address(n) if fam == 4 else ipaddress.IPv6Address(n))


def addr_num(txt):
    return int(ipaddress.ip_address(txt))


def fam_of_txt(txt):
    return 6 if ":" in txt else 4


# ----------------------------------------------------------------- plan / packet encodings
def plan_tokens(pl):
    t = ["P:%d:%d:%d:%d:%d:%s:%s:%s:%s" % (pl["port6"], pl["port4"], pl["dns6"], pl["dns4"], int(pl["udp"]),
                                        "-" if pl["user"] is None else pl["user"],
                                        "-" if pl["group"] is None else pl["group"],
                                        hx(pl["tmark"]), nh(int(pl["tmark"], 0)))]
    for e in pl["entries"]:
        t.append("E:%d:%d:%d:%s:%s:%d:%d" % (e["fam"], e["width"], int(e["excl"]), hx(e["txt"]), nh(e["net"]),
                                             e["fport"], e["lport"]))
    for n in pl["ns"]:
        t.append("S:%d:%s:%s" % (n["fam"], hx(n["txt"]), nh(n["addr"])))
    return " ".join(t)


def pkt_token(p):
    return "K:%d:%s:%s:%d:%d:%s:%d:%d:%d:%d" % (p["fam"], nh(p["dst"]), p["proto"], p["dport"], int(p["local"]),
                                                p["origin"], p["uid"], p["gid"], int(p["sock"]), int(p["srclo"]))


# ----------------------------------------------------------------- running the real helper
class Recorder:
    def __init__(self):
        self.calls = []          # ("argv", [...]) | ("pfctl", args, stdin)
        self.started_at = None


class FakeOut:
    def __init__(self, rec):
        self.rec = rec
        self.data = b""

    def write(self, b):
        self.data += b
        if b == b"STARTED\n":
            self.rec.started_at = len(self.rec.calls)

    def flush(self):
        pass


_loaded = {}


def load():
    if _loaded:
        return _loaded
    import sshuttle.helpers as helpers
    import sshuttle.firewall as firewall
    import sshuttle.linux as linux
    import sshuttle.methods.nat as nat
    import sshuttle.methods.nft as nft
    import sshuttle.methods.tproxy as tproxy
    import sshuttle.methods.pf as pf
    helpers.log = lambda s: None
    for m in (firewall, linux, pf):
        if hasattr(m, "log"):
            m.log = lambda s: None
    for m in (nat, nft, tproxy, pf):
        m.which = lambda name: True
    firewall.flush_systemd_dns_cache = lambda: None
    firewall.restore_etc_hosts = lambda hostmap, port: None
    firewall.rewrite_etc_hosts = lambda hostmap, port: None
    firewall.HOSTSFILE = "/nonexistent/verif-c03-hosts"
    _loaded.update(helpers=helpers, firewall=firewall, linux=linux, pf=pf)
    return _loaded


LISTING = (b"Chain PREROUTING (policy ACCEPT)\ntarget     prot opt source               destination\n\n"
           b"Chain OUTPUT (policy ACCEPT)\ntarget     prot opt source               destination\n")


def run_real(method, pl):
    """drive the real firewall.main with the dialogue of `pl`; returns (status, {fam: [cmds]})
    where cmds are the recorded argv lists (iptables/nft) or the pf rule text loaded into the anchor,
    restricted to the set-up phase (before STARTED)."""
    m = load()
    firewall, linux, pf = m["firewall"], m["linux"], m["pf"]
    rec = Recorder()

    class CalledProcessError(Exception):
        pass

    def call(argv, **kw):
        rec.calls.append(("argv", list(argv)))
        return 0

    def check_output(argv, **kw):
        return LISTING

    fake_sp = types.SimpleNamespace(call=call, check_output=check_output, CalledProcessError=CalledProcessError,
                                    PIPE=subprocess.PIPE)
    saved = (linux.ssubprocess, pf.ssubprocess, pf.pfctl, pf.ioctl, pf.pf_get_dev, pf.pf, firewall.setup_daemon)
    linux.ssubprocess = fake_sp
    pf.ssubprocess = fake_sp

    def pfctl(args, stdin=None):
        rec.calls.append(("pfctl", args, stdin))
        if args == "-s all":
            return (b"INFO:\nStatus: Disabled for 0 days\n", b"")
        if args == "-E":
            return (b"", b"pf enabled\nToken : 4242\n")
        return (b"", b"")
    pf.pfctl = pfctl
    pf.ioctl = lambda *a, **k: 0
    pf.pf_get_dev = lambda: 99
    pf._pf_context.update(started_by_sshuttle=0, loaded_by_sshuttle=True, Xtoken=[])
    name = method
    if method in ("pff", "pfd", "pfo"):
        name = "pf"
        pf.pf = {"pff": pf.FreeBsd, "pfd": pf.Darwin, "pfo": pf.OpenBsd}[method]()
    lines = ["ROUTES"]
    for e in pl["entries"]:
        lines.append("%d,%d,%d,%s,%d,%d" % (AF[e["fam"]], e["width"], int(e["excl"]), e["txt"], e["fport"], e["lport"]))
    lines.append("NSLIST")
    for n in pl["ns"]:
        lines.append("%d,%s" % (AF[n["fam"]], n["txt"]))
    lines.append("PORTS %d,%d,%d,%d" % (pl["port6"], pl["port4"], pl["dns6"], pl["dns4"]))
    lines.append("GO %d %s %s %s %d" % (int(pl["udp"]), "-" if pl["user"] is None else pl["user"],
                                        "-" if pl["group"] is None else pl["group"], pl["tmark"], 4242))
    stdin = io.BytesIO(("\n".join(lines) + "\n").encode())
    out = FakeOut(rec)
    firewall.setup_daemon = lambda: (stdin, out)
    status = "OK"
    try:
        try:
            firewall.main(name, False)
        except UnboundLocalError:
            status = "CRASH"
        except Exception as e:                      # noqa: BLE001
            status = "EXC %s: %s" % (type(e).__name__, e)
    finally:
        (linux.ssubprocess, pf.ssubprocess, pf.pfctl, pf.ioctl, pf.pf_get_dev, pf.pf, firewall.setup_daemon) = saved
    upto = rec.started_at if rec.started_at is not None else len(rec.calls)
    if status == "OK" and rec.started_at is None:
        status = "NOT-STARTED"
    per = {4: [], 6: []}
    for c in rec.calls[:upto]:
        if c[0] == "argv":
            a = c[1]
            if a[0] == "iptables":
                per[4].append(a)
            elif a[0] == "ip6tables":
                per[6].append(a)
            elif a[0] == "nft":
                per[6 if "ipv6" in a[3] else 4].append(a)
            # kldload etc. belong to C04
        else:
            mm = re.match(r"-a (sshuttle6?)-(\d+) -f /dev/stdin$", c[1])
            if mm:
                per[6 if mm.group(1) == "sshuttle6" else 4].append(c[2])
    return status, per


# ----------------------------------------------------------------- argv -> model AST encoding
class ParseError(Exception):
    pass


def chain_abs(name, port):
    for pre, ab in (("sshuttle-m-%d" % port, "MARK"), ("sshuttle-t-%d" % port, "TPROXY"),
                    ("sshuttle-d-%d" % port, "DIVERT"), ("sshuttle-%d" % port, "MAIN")):
        if name == pre:
            return ab
    if name in ("OUTPUT", "PREROUTING"):
        return name
    raise ParseError("chain %r" % name)


def parse_ipt(argv, port):
    if argv[1:3] != ["-w", "-t"] or argv[3] not in ("nat", "mangle"):
        raise ParseError("prefix %r" % argv[:5])
    tb, op = argv[3], argv[4]
    if op in ("-N", "-F"):
        if len(argv) != 6:
            raise ParseError("arity")
        return "C:%s:%s:%s" % (tb, op[1], chain_abs(argv[5], port))
    if op == "-I":
        if argv[6] != "1":
            raise ParseError("-I position")
        ch, rest = argv[5], argv[7:]
    elif op == "-A":
        ch, rest = argv[5], argv[6:]
    else:
        raise ParseError("op %s" % op)
    items = []
    i = 0
    while i < len(rest):
        k, v = rest[i], rest[i + 1] if i + 1 < len(rest) else None
        i += 2
        if k == "-j":
            if v in ("RETURN", "REDIRECT", "MARK", "TPROXY", "ACCEPT"):
                items.append("J.%s" % v)
            else:
                items.append("J.CHAIN.%s" % chain_abs(v, port))
        elif k == "--dest":
            if "/" in v:
                a, w = v.split("/")
                items.append("DEST.%s.%s.%d" % (hx(a), nh(addr_num(a)), int(w)))
            else:
                items.append("DESTH.%s.%s" % (hx(v), nh(addr_num(v))))
        elif k == "-p":
            items.append("P.%s" % v)
        elif k == "-m":
            items.append({"tcp": "MP.tcp", "udp": "MP.udp", "addrtype": "MADDRTYPE", "socket": "MSOCKET",
                          "mark": "MMARK", "owner": "MOWNER"}[v])
        elif k == "--dport":
            if ":" in v:
                f, l = v.split(":")
                items.append("DPORT.%d.%d" % (int(f), int(l)))
            else:
                items.append("DPORT1.%d" % int(v))
        elif k == "--to-ports":
            items.append("TOPORTS.%d" % int(v))
        elif k == "--on-port":
            items.append("ONPORT.%d" % int(v))
        elif k in ("--set-mark", "--tproxy-mark", "--mark"):
            items.append("%s.%s.%s" % ({"--set-mark": "SETMARK", "--tproxy-mark": "TPMARK", "--mark": "MARK"}[k],
                                       hx(v), nh(int(v, 0))))
        elif k == "--dst-type" and v == "LOCAL":
            items.append("DSTLOCAL")
        elif k == "--uid-owner":
            items.append("UID.%d" % int(v))
        elif k == "--gid-owner":
            items.append("GID.%d" % int(v))
        else:
            raise ParseError("option %r %r" % (k, v))
    return "C:%s:%s:%s:%s" % (tb, op[1], chain_abs(ch, port), ",".join(items))


FAMNAME = {"ipv4": 4, "ipv6": 6, "ip": 4, "ip6": 6}


def parse_nft(argv, fam, port):
    table = "sshuttle-ipv%d-%d" % (fam, port)
    if argv[2] != "inet" or argv[3] != table:
        raise ParseError("nft prefix %r" % argv[:4])
    act, args = argv[1], argv[4:]
    if act == "add table" and args == [""]:
        return "NT"
    if act == "add chain" and len(args) == 2 and args[0] in ("prerouting", "output"):
        return "NH:%s" % args[0][:3]
    if act == "add chain" and args == [table]:
        return "NC"
    if act == "flush chain" and args == [table]:
        return "NF"
    if act == "add rule" and args in (["output jump %s" % table], ["prerouting jump %s" % table]):
        return "NJ:%s" % args[0][:3]
    if act != "add rule" or args[0] != table:
        raise ParseError("nft %r" % argv)
    r, items = args[1:], []
    i = 0
    while i < len(r):
        if r[i:i + 3] == ["meta", "nfproto", "!="]:
            items.append("FAMNE.%d" % FAMNAME[r[i + 3]])
            i += 4
        elif r[i:i + 2] == ["meta", "nfproto"] and r[i + 3:i + 5] == ["tcp", "dport"]:
            f, v = FAMNAME[r[i + 2]], r[i + 5]
            mm = re.match(r"\{ (\d+)-(\d+) \}$", v)
            items.append("TCPR.%d.%s.%s" % (f, mm.group(1), mm.group(2)) if mm else "TCPP.%d.%d" % (f, int(v)))
            i += 6
        elif r[i:i + 2] == ["meta", "nfproto"] and r[i + 3:i + 6] == ["meta", "l4proto", "tcp"]:
            items.append("TCPA.%d" % FAMNAME[r[i + 2]])
            i += 6
        elif r[i] in ("ip", "ip6") and r[i + 1].startswith("daddr "):
            f, v = FAMNAME[r[i]], r[i + 1][6:]
            if "/" in v:
                a, w = v.split("/")
                items.append("DADDR.%d.%s.%s.%d" % (f, hx(a), nh(addr_num(a)), int(w)))
            else:
                items.append("DNSD.%d.%s.%s" % (f, hx(v), nh(addr_num(v))))
            i += 2
        elif r[i] == "return":
            items.append("RET")
            i += 1
        elif r[i] == "udp dport 53":
            items.append("UDP53")
            i += 1
        elif r[i] == "fib daddr type local return":
            items.append("FIBLOCAL")
            i += 1
        elif r[i].startswith("redirect to :"):
            items.append("REDIR.%d" % int(r[i][13:]))
            i += 1
        else:
            raise ParseError("nft token %r" % r[i])
    return "NR:%s" % ",".join(items)


def sub_enc(fam, sub, excl):
    mm = re.match(r"(\S+)/(\d+)(?: port (\d+):(\d+))?$", sub)
    if not mm:
        raise ParseError("pf subnet %r" % sub)
    a, w, f, l = mm.group(1), int(mm.group(2)), int(mm.group(3) or 0), int(mm.group(4) or 0)
    return "%d.%d.%d.%s.%s.%d.%d" % (fam, w, excl, hx(a), nh(addr_num(a)), f, l)


def parse_pf(text):
    out = []
    F = {"inet": 4, "inet6": 6}
    SUB = r"(\S+/\d+(?: port \d+:\d+)?)"
    for ln in text.decode("ascii").split("\n")[:-1]:
        mm = re.match(r"table <dns_servers> \{(.*)\}$", ln)
        if mm:
            out.append("TBL:" + ",".join("%d.%s.%s" % (fam_of_txt(a), hx(a), nh(addr_num(a))) for a in mm.group(1).split(",")))
            continue
        mm = re.match(r"rdr pass on lo0 (inet6?) proto tcp from ! (\S+) to %s -> (\S+) port (\d+)$" % SUB, ln)
        if mm:
            out.append("RDRTCP:%d:%s:%s" % (F[mm.group(1)], sub_enc(F[mm.group(1)], mm.group(3), 0), mm.group(5)))
            continue
        mm = re.match(r"rdr pass on lo0 (inet6?) proto udp to <dns_servers> port 53 -> (\S+) port (\d+)$", ln)
        if mm:
            out.append("RDRDNS:%d:%s" % (F[mm.group(1)], mm.group(3)))
            continue
        mm = re.match(r"pass out route-to lo0 (inet6?) proto tcp to %s keep state$" % SUB, ln)
        if mm:
            out.append("ROUTETCP:%d:%s" % (F[mm.group(1)], sub_enc(F[mm.group(1)], mm.group(2), 0)))
            continue
        mm = re.match(r"pass out (inet6?) proto tcp to %s$" % SUB, ln)
        if mm:
            out.append("PASSTCP:%d:%s" % (F[mm.group(1)], sub_enc(F[mm.group(1)], mm.group(2), 1)))
            continue
        mm = re.match(r"pass out route-to lo0 (inet6?) proto udp to <dns_servers> port 53 keep state$", ln)
        if mm:
            out.append("ROUTEDNS:%d" % F[mm.group(1)])
            continue
        mm = re.match(r"pass in on lo0 (inet6?) proto tcp to %s divert-to (\S+) port (\d+)$" % SUB, ln)
        if mm:
            out.append("ODIVTCP:%d:%s:%s" % (F[mm.group(1)], sub_enc(F[mm.group(1)], mm.group(2), 0), mm.group(4)))
            continue
        mm = re.match(r"pass in on lo0 (inet6?) proto udp to <dns_servers> port 53 rdr-to (\S+) port (\d+)$", ln)
        if mm:
            out.append("ORDRDNS:%d:%s" % (F[mm.group(1)], mm.group(3)))
            continue
        mm = re.match(r"pass out (inet6?) proto tcp to %s route-to lo0 keep state$" % SUB, ln)
        if mm:
            out.append("OROUTETCP:%d:%s" % (F[mm.group(1)], sub_enc(F[mm.group(1)], mm.group(2), 0)))
            continue
        mm = re.match(r"pass out (inet6?) proto udp to <dns_servers> port 53 route-to lo0 keep state$", ln)
        if mm:
            out.append("OROUTEDNS:%d" % F[mm.group(1)])
            continue
        raise ParseError("pf line %r" % ln)
    return out


def canon_cmds(cmds):
    """recorded argv lists -> the driver's GEN format"""
    if not cmds:
        return "EMPTY"
    return ";".join(",".join(hx(t) for t in a) for a in cmds)


def unhex_cmds(s):
    if s in ("EMPTY", "CRASH") or s.startswith("ERROR"):
        return s
    return [[bytes.fromhex(t).decode("latin1") if t != "-" else "" for t in c.split(",")] for c in s.split(";")]


# ----------------------------------------------------------------- generators
def mask(fam, n, w):
    b = BITS[fam]
    return (n >> (b - w)) << (b - w) if w < b else n


def gen_plan(rng, small=False):
    pl = {"entries": [], "ns": [], "udp": False, "user": None, "group": None,
          "tmark": rng.choice(["0x01", "0x01", "1", "0x10", "255"])}
    used = set()

    def fresh_port():
        while True:
            p = rng.choice([rng.randint(1, 65535), rng.randint(1024, 13000), 12300])
            if p not in used:
                used.add(p)
                return p
    anchors = {}
    for fam in (4, 6):
        b = BITS[fam]
        an = [rng.getrandbits(b) for _ in range(3)]
        an.append(an[0] ^ (1 << rng.randint(0, b - 1)))
        anchors[fam] = an
        kind = rng.random()
        n = 0 if kind < 0.15 else rng.randint(1, 3) if (kind < 0.5 or small) else rng.randint(1, 12)
        es = []
        for _ in range(n):
            r = rng.random()
            if es and r < 0.08:                      # exact duplicate
                e = dict(rng.choice(es))
            elif es and r < 0.18:                    # include + exclude of the same net / ports
                e = dict(rng.choice(es))
                e["excl"] = not e["excl"]
            elif es and r < 0.28:                    # equal key, different net
                o = rng.choice(es)
                a = rng.choice(an) ^ (rng.getrandbits(b) if rng.random() < 0.3 else 0)
                net = mask(fam, a, o["width"])
                e = dict(o, net=net, txt=addr_txt(fam, net))
            elif es and r < 0.42:                    # neighbouring key: width +-1 (or port range +-1), opposite kind, same prefix
                o = rng.choice(es)
                e = dict(o)
                if o["fport"] and rng.random() < 0.3:
                    e["lport"] = min(65535, o["lport"] + 1) if rng.random() < 0.5 or o["lport"] == o["fport"] else o["lport"] - 1
                else:
                    w2 = o["width"] + rng.choice([-1, 1])
                    w2 = min(b, max(0, w2))
                    net = mask(fam, o["net"], w2)
                    e.update(width=w2, net=net, txt=addr_txt(fam, net))
                e["excl"] = (not o["excl"]) if rng.random() < 0.8 else o["excl"]
            else:
                w = rng.choice(W[fam]) if rng.random() < 0.7 else rng.randint(0, b)
                a = rng.choice(an) if rng.random() < 0.8 else rng.getrandbits(b)
                net = mask(fam, a, w) if rng.random() < 0.85 else a
                pk = rng.random()
                if pk < 0.45:
                    fp = lp = 0
                elif pk < 0.65:
                    fp = lp = rng.choice([53, 80, 443, 1, 65535, rng.randint(1, 65535)])
                elif pk < 0.9 or not [x for x in es if x["fport"] and x["lport"] > x["fport"]]:
                    fp = rng.choice([1, 80, 8000, rng.randint(1, 65535)])
                    lp = rng.choice([65535, min(65535, fp + rng.choice([1, 10, 1000])), rng.randint(fp, 65535)])
                else:                                # nested in an earlier range
                    o = rng.choice([x for x in es if x["fport"] and x["lport"] > x["fport"]])
                    fp = rng.randint(o["fport"], o["lport"])
                    lp = rng.randint(fp, o["lport"])
                e = {"fam": fam, "width": w, "excl": rng.random() < 0.4, "txt": addr_txt(fam, net), "net": net,
                     "fport": fp, "lport": lp}
            es.append(e)
        nn = rng.choice([0, 0, 1, 1, 2, 3])
        nss = []
        for _ in range(nn):
            r = rng.random()
            if es and r < 0.4:
                o = rng.choice(es)
                a = mask(fam, o["net"], o["width"]) | (rng.getrandbits(b) >> o["width"] if o["width"] < b else 0)
            elif nss and r < 0.6 and fam == 6:       # shares the first 32 bits with another server
                a = mask(6, nss[0]["addr"], 32) | rng.getrandbits(96)
            else:
                a = rng.choice(an) ^ rng.getrandbits(8)
            nss.append({"fam": fam, "txt": addr_txt(fam, a), "addr": a})
        active = bool(es or nss)
        pl["port%d" % fam] = fresh_port() if active or rng.random() < 0.5 else 0
        pl["dns%d" % fam] = fresh_port() if (nss or rng.random() < 0.3) else 0
        pl["entries"] += es
        pl["ns"] += nss
    rng.shuffle(pl["entries"])                       # families interleaved, as the client may send them
    rng.shuffle(pl["ns"])
    pl["anchors"] = anchors
    return pl


def variant(rng, pl, method):
    v = dict(pl)
    if method == "nat":
        r = rng.random()
        if r < 0.25:
            v["user"] = rng.choice([0, 1000, 65534])
        elif r < 0.4:
            v["group"] = rng.choice([0, 100, 1000])
        elif r < 0.5:
            v["user"], v["group"] = 1000, 100
    elif method == "tproxy":
        v["udp"] = rng.random() < 0.5
    return v


def gen_packets(rng, pl, k):
    pts = []
    for fam in (4, 6):
        b = BITS[fam]
        top = (1 << b) - 1
        addrs = [0, top, rng.getrandbits(b)] + list(pl["anchors"][fam])
        ports = [53, 53, 80, 1, 65535, rng.randint(1, 65535)]
        for e in pl["entries"]:
            if e["fam"] != fam:
                continue
            lo = mask(fam, e["net"], e["width"])
            hi = lo | ((1 << (b - e["width"])) - 1)
            addrs += [lo, hi, max(0, lo - 1), min(top, hi + 1), rng.randint(lo, hi), e["net"]]
            if e["fport"]:
                ports += [e["fport"], e["lport"], max(1, e["fport"] - 1), min(65535, e["lport"] + 1),
                          rng.randint(e["fport"], e["lport"])]
        nsa = []
        for n in pl["ns"]:
            if n["fam"] != fam:
                continue
            nsa += [n["addr"], n["addr"] ^ 1]
            if fam == 6:
                nsa.append(mask(6, n["addr"], 32) | rng.getrandbits(96))
            else:
                nsa.append(mask(4, n["addr"], 24) | rng.getrandbits(8))
        pts.append((fam, addrs, ports, nsa))
    out = []
    uids = [0, 1000, 1001, 65534] + ([pl["user"]] * 3 if pl["user"] is not None else [])
    gids = [0, 100, 101, 1000] + ([pl["group"]] * 3 if pl["group"] is not None else [])
    for _ in range(k):
        fam, addrs, ports, nsa = rng.choice(pts)
        proto = "tcp" if rng.random() < 0.6 else "udp"
        if proto == "udp" and nsa and rng.random() < 0.6:
            dst = rng.choice(nsa)
            dport = 53 if rng.random() < 0.8 else rng.choice(ports)
        else:
            dst = rng.choice(addrs + nsa)
            dport = rng.choice(ports)
        out.append({"fam": fam, "dst": dst, "proto": proto, "dport": dport, "local": rng.random() < 0.12,
                    "origin": "L" if rng.random() < 0.6 else "F", "uid": rng.choice(uids), "gid": rng.choice(gids),
                    "sock": rng.random() < 0.08, "srclo": rng.random() < 0.08})
    return out


# ----------------------------------------------------------------- oracle
def expected(method, pl, p, ev):
    """what the property demands, from the extracted SPEC side only (ev = EVAL fields).  None = out of the
    property's scope for this packet."""
    fam = p["fam"]
    port, dns = pl["port%d" % fam], pl["dns%d" % fam]
    own = ev["own"] == "1" if method == "nat" else True
    if p["sock"] and method == "tproxy":
        return None                                   # later packet of an existing flow
    if p["srclo"] and method in ("pff", "pfd"):
        return None
    if p["proto"] == "tcp":
        if p["local"]:
            return None                               # the property speaks about non-local destinations
        return "divert:%d" % port if ev["spec"] == "1" and own else "untouched"
    if p["dport"] == 53 and ev["ns"] == "1":
        return "divert:%d" % dns if own else "untouched"
    if method == "tproxy" and pl["udp"]:
        if p["local"]:
            return None
        return "divert:%d" % port if ev["spec"] == "1" else "untouched"
    return "untouched"


F18_WITNESS_PLAN = {"entries": [{"fam": 6, "width": 64, "excl": False, "txt": "2404:6800:4004:80c::",
                                 "net": addr_num("2404:6800:4004:80c::"), "fport": 0, "lport": 0}],
                    "ns": [{"fam": 6, "txt": "2404:6800:4004:80c::33", "addr": addr_num("2404:6800:4004:80c::33")}],
                    "port6": 1024, "port4": 0, "dns6": 1026, "dns4": 0, "udp": False, "user": None, "group": None,
                    "tmark": "0x01"}
F18_WITNESS_PKT = {"fam": 6, "dst": addr_num("2404:6800:ffff::1"), "proto": "udp", "dport": 53, "local": False,
                   "origin": "L", "uid": 1000, "gid": 1000, "sock": False, "srclo": False}


def model_name(method):
    return "pff" if method == "pfd" else method


def real_rules_encoding(method, pl, per, status):
    """(encodings per family, crashed?) of what the real code emitted, for WALKR/PRINTR"""
    enc = {}
    for fam in (6, 4):
        port = pl["port%d" % fam]
        if method in ("nat", "tproxy"):
            enc[fam] = [parse_ipt(a, port) for a in per[fam]]
        elif method == "nft":
            enc[fam] = [parse_nft(a, fam, port) for a in per[fam]]
        else:
            enc[fam] = parse_pf(per[fam][0]) if per[fam] else []
    return enc


def check_case(ctx, method, pl, pkts, tag=None):
    """one (method, plan) case: token-for-token rules, parser round trip, walk on the real rules vs spec.
    Returns list of failing (packet, got, want)."""
    mm = model_name(method)
    ptoks = plan_tokens(pl)
    status, per = run_real(method, pl)
    lines = ["GEN %s 6 %s" % (mm, ptoks), "GEN %s 4 %s" % (mm, ptoks)]
    gen6, gen4 = ctx.run_driver(lines)
    gen = {6: gen6, 4: gen4}
    desc = {"method": method, "plan": {k: v for k, v in pl.items() if k != "anchors"}}
    crashed = False
    ok_rules = True
    for fam in (6, 4):                 # firewall.main sets up v6 first
        if crashed:
            break                      # the helper died: nothing more is emitted
        if method in ("pff", "pfd", "pfo"):
            impl = "CRASH" if (status == "CRASH" and not per[fam] and gen[fam] == "CRASH") else \
                   (hx(per[fam][0]) if per[fam] else "EMPTY")
            if impl == "CRASH":
                crashed = True
                ctx.count("pf_empty_subnets_crash")
        else:
            impl = canon_cmds(per[fam])
        if impl != gen[fam]:
            ok_rules = False
            ctx.disagree("rules of %s (IPv%d) differ token for token" % (method, fam), desc,
                         unhex_cmds(impl) if mm not in ("pff", "pfo") else impl,
                         unhex_cmds(gen[fam]) if mm not in ("pff", "pfo") else gen[fam])
    if status not in ("OK", "CRASH") or (status == "CRASH" and not crashed):
        ctx.disagree("real helper did not reach STARTED", desc, status, "OK")
        return []
    # parser round trip + walk on the real rules
    try:
        enc = real_rules_encoding(method, pl, per, status)
    except ParseError as e:
        ctx.disagree("cannot parse the emitted rules back into the model's AST", desc, str(e), "")
        return []
    lines = []
    if mm in ("pff", "pfo"):
        for fam in (6, 4):
            lines.append("PRINTR %s %s" % (mm, " ".join(enc[fam])))
    else:
        for fam in (6, 4):
            lines.append("PRINTR %s %d %d %s" % (mm, fam, pl["port%d" % fam], " ".join(enc[fam])))
    if crashed:
        pkts = []
    pk = ",".join(pkt_token(p) for p in pkts)
    if pkts:
        lines.append("EVAL %s %s" % (pk, ptoks))
        tm = nh(int(pl["tmark"], 0))
        if mm == "nft":
            lines.append("WALKR nft %s - %s / %s" % (pk, " ".join(enc[6]), " ".join(enc[4])))
        out = ctx.run_driver(lines)
        ev = [dict(kv.split("=") for kv in s.split(" ")) for s in out[2].split(" | ")]
        if mm == "nft":
            real = out[3].split(" ")
        else:
            # iptables / pf rule sets are per family: walk each packet in its own family's rules
            real = [None] * len(pkts)
            for fam in (6, 4):
                idx = [i for i, p in enumerate(pkts) if p["fam"] == fam]
                if not idx:
                    continue
                r = ctx.run_driver(["WALKR %s %s %s %s" % (mm, ",".join(pkt_token(pkts[i]) for i in idx), tm,
                                                          " ".join(enc[fam]))])[0].split(" ")
                for i, v in zip(idx, r):
                    real[i] = v
    else:
        out = ctx.run_driver(lines)
        ev, real = [], []
    for fam, o in zip((6, 4), out[:2]):
        want = canon_cmds(per[fam]) if mm not in ("pff", "pfo") else (hx(per[fam][0]) if per[fam] else "EMPTY")
        if o != want:
            ctx.disagree("argv parser round trip (print(parse(argv)) != argv) for %s IPv%d" % (method, fam), desc,
                         want[:600], o[:600])
    fails = []
    hit = False
    for p, e, r in zip(pkts, ev, real):
        if e["wf"] != "1":
            ctx.disagree("generated plan is not well-formed", desc, e, "")
            break
        if e["spec"] == "1" or e["ns"] == "1":
            hit = True
        mv = e[mm]
        if r != mv and ok_rules:
            ctx.disagree("walk on the real rules differs from the model's verdict (%s)" % method,
                         dict(desc, packet=p), r, mv)
        if method == "tproxy" and not p["sock"]:
            # chains-agree, on the model's own rules
            if (e["marked"] == "1") != (e["tdiv"] == "1"):
                ctx.violation("tproxy mark chain and tproxy chain disagree", dict(desc, packet=p))
        want = expected(method, pl, p, e)
        ctx.count("%s_%s_%s" % (method, p["proto"], "oos" if want is None else want.split(":")[0]))
        if want is not None and r != want:
            rep = dict(desc, packet=p, got=r, want=want)
            if method == "tproxy" and e["f18"] == "1":
                rep["finding_id"] = "F18"
                ctx.count("f18_hits")
                ctx.violation("tproxy diverts UDP/53 to an address that merely shares 32 bits with an IPv6 name server",
                              rep)
            else:
                ctx.violation("%s: verdict of the emitted rules differs from the specification" % method, rep)
            fails.append((p, r, want))
    ctx.case((method, ptoks), nontrivial=hit or bool(pl["entries"]),
             sample={"method": method, "entries": len(pl["entries"]), "ns": len(pl["ns"]), "packets": len(pkts),
                     "first_cmds": [" ".join(a) if isinstance(a, list) else a.decode()[:200]
                                    for a in (per[4] or per[6])[-3:]],
                     "verdicts": real[:8]} if pl["entries"] else None)
    ctx.count("cases_%s" % method)
    ctx.count("entries_total", len(pl["entries"]))
    ctx.count("packets_total", len(pkts))
    return fails


def correspondence(ctx):
    rng = ctx.rng
    quick = ctx.quick()
    load()
    # ---- fixed cases: the two rule sets of the existing test-suite, the F18 witness
    t1 = dict(F18_WITNESS_PLAN)
    t1["entries"] = t1["entries"] + [{"fam": 6, "width": 128, "excl": True, "txt": "2404:6800:4004:80c::101f",
                                      "net": addr_num("2404:6800:4004:80c::101f"), "fport": 80, "lport": 80}]
    t2 = {"entries": [{"fam": 4, "width": 24, "excl": False, "txt": "1.2.3.0", "net": addr_num("1.2.3.0"),
                       "fport": 8000, "lport": 9000},
                      {"fam": 4, "width": 32, "excl": True, "txt": "1.2.3.66", "net": addr_num("1.2.3.66"),
                       "fport": 8080, "lport": 8080}],
          "ns": [{"fam": 4, "txt": "1.2.3.33", "addr": addr_num("1.2.3.33")}],
          "port6": 0, "port4": 1025, "dns6": 0, "dns4": 1027, "udp": False, "user": None, "group": None, "tmark": "0x01"}
    for base in (t1, t2):
        base["anchors"] = {4: [addr_num("1.2.3.66")], 6: [addr_num("2404:6800:4004:80c::101f")]}
        for m in METHODS:
            v = variant(rng, base, m)
            check_case(ctx, m, v, gen_packets(rng, v, 40))
    # F18 witness (replayed on every run)
    w = dict(F18_WITNESS_PLAN, anchors={4: [0], 6: [0]})
    fails = check_case(ctx, "tproxy", w, [F18_WITNESS_PKT])
    if fails:
        ctx.known("F18", "tproxy emits --dest <ns>/32 for IPv6 name servers: UDP/53 to 2404:6800:ffff::1 is diverted to the "
                         "DNS listener although only 2404:6800:4004:80c::33 is configured")
    else:
        ctx.notes.append("F18 witness no longer fails on this tree")
    # name servers only (no subnet of that family): pf dies with UnboundLocalError (observation, unreachable from the client)
    nso = dict(t2, entries=[], anchors={4: [0], 6: [0]})
    for m in METHODS:
        check_case(ctx, m, nso, gen_packets(rng, nso, 12))
    # ---- generated plans
    nplans = 60 if quick else 2500
    npk = 36 if quick else 60
    for i in range(nplans):
        pl = gen_plan(rng, small=(i % 3 == 0))
        for m in METHODS:
            if m == "pfd" and i % 4:
                continue                       # Darwin shares FreeBsd.add_rules; sampled less often
            v = variant(rng, pl, m)
            if m in ("pff", "pfd", "pfo") and rng.random() < 0.9:
                # keep pf plans inside the reachable space (every active family has an entry) most of the time
                for fam in (4, 6):
                    if not [e for e in v["entries"] if e["fam"] == fam]:
                        v = dict(v, ns=[n for n in v["ns"] if n["fam"] != fam])
            check_case(ctx, m, v, gen_packets(rng, v, npk))
    # F15 observation: --group with a method that ignores it produces exactly the same rules
    pl = gen_plan(rng, small=True)
    for m in ("nft", "tproxy", "pff", "pfo"):
        v = dict(pl, group=100)
        if m.startswith("pf"):
            for fam in (4, 6):
                if not [e for e in v["entries"] if e["fam"] == fam]:
                    v = dict(v, ns=[n for n in v["ns"] if n["fam"] != fam])
        check_case(ctx, m, v, [])
        ctx.count("f15_group_ignored_cases")
    if not quick:
        netns_validate(ctx)
        kernel_verdicts(ctx)
    ctx.programs = ctx.evaluations


# ----------------------------------------------------------------- thorough: real iptables in a namespace
def netns_validate(ctx):
    """execute the recorded iptables/ip6tables command lists with the real tools in a fresh network namespace and
    compare `iptables-save` with the model's chains (order and content of the rules)."""
    rng = ctx.rng
    ok = subprocess.run(["timeout", "20", "unshare", "-n", "iptables", "-w", "-t", "nat", "-nL"],
                        stdout=subprocess.PIPE, stderr=subprocess.PIPE)
    if ok.returncode != 0:
        ctx.notes.append("netns validation skipped: unshare/iptables unusable (%s)" % ok.stderr.decode()[-200:])
        return
    n_ok = 0
    for i in range(30):
        pl = gen_plan(rng, small=True)
        for m in ("nat", "tproxy"):
            v = variant(rng, pl, m)
            if m == "nat":
                v["user"], v["group"] = (rng.choice([None, 0]), rng.choice([None, 0]))
            status, per = run_real(m, v)
            if status != "OK":
                continue
            script = ["set -e", "ip link set lo up"]
            for fam in (6, 4):
                for a in per[fam]:
                    script.append(" ".join("'%s'" % t for t in a))
            script.append("iptables-save; echo ======; ip6tables-save")
            r = subprocess.run(["timeout", "120", "unshare", "-n", "bash", "-c", "\n".join(script)],
                               stdout=subprocess.PIPE, stderr=subprocess.PIPE)
            desc = {"method": m, "plan": {k: x for k, x in v.items() if k != "anchors"}}
            if r.returncode != 0:
                ctx.disagree("real iptables rejected a command list the helper emits", desc,
                             r.stderr.decode()[-400:], "accepted")
                continue
            saves = r.stdout.decode().split("======")
            for fam, save in zip((4, 6), saves):
                got = [ln for ln in save.split("\n") if ln.startswith("-A ")]
                want = count_appends(per[fam])
                if len(got) != want:
                    ctx.disagree("iptables-save shows %d rules, the helper issued %d -A/-I commands" % (len(got), want),
                                 desc, got[:40], want)
                    continue
                # order inside the per-port chains as saved == order of the -A commands
                order_ok = saved_order_matches(got, per[fam])
                if not order_ok:
                    ctx.disagree("iptables-save rule order differs from command order", desc, got[:40], per[fam][:40])
            n_ok += 1
            ctx.count("netns_rule_sets")
    ctx.extra["netns_rule_sets_validated"] = n_ok


# ----------------------------------------------------------------- thorough: real kernel verdicts
PROBE_SCRIPT = r'''
import json, os, select, socket, subprocess, sys, time
job = json.load(sys.stdin)
def sh(c):
    return subprocess.call(c, shell=True, stdout=subprocess.DEVNULL, stderr=subprocess.DEVNULL)
sh("ip link set lo up"); sh("ip addr add 192.168.77.1/32 dev lo"); sh("ip -6 addr add fd77::1/128 dev lo")
if job["mode"] == "anyip":
    sh("ip route add local default dev lo"); sh("ip -6 route add local default dev lo")
else:
    sh("ip route add default dev lo"); sh("ip -6 route add default dev lo")
    if job["mode"] == "tproxy":
        sh("ip rule add fwmark %d lookup 100" % job["tmark"]); sh("ip route add local default dev lo table 100")
        sh("ip -6 rule add fwmark %d lookup 100" % job["tmark"]); sh("ip -6 route add local default dev lo table 100")
for a in job["cmds"]:
    rc = subprocess.call(a, stdout=subprocess.DEVNULL, stderr=subprocess.PIPE)
    if rc != 0:
        print(json.dumps({"error": "command failed: %r" % a})); sys.exit(0)
lst = {}
def listener(fam, typ, port):
    s = socket.socket(fam, typ)
    s.setsockopt(socket.SOL_SOCKET, socket.SO_REUSEADDR, 1)
    if fam == socket.AF_INET6:
        s.setsockopt(socket.IPPROTO_IPV6, socket.IPV6_V6ONLY, 1)
    if job["mode"] == "tproxy":
        s.setsockopt(socket.SOL_IP, 19, 1)
        if fam == socket.AF_INET6:
            s.setsockopt(41, 75, 1)
    s.bind(("::" if fam == socket.AF_INET6 else "0.0.0.0", port))
    if typ == socket.SOCK_STREAM:
        s.listen(256)
    s.setblocking(False)
    return s
ports = {}
for fam, key in ((socket.AF_INET, "4"), (socket.AF_INET6, "6")):
    for typ, pk, name in ((socket.SOCK_STREAM, "port", "tcp"), (socket.SOCK_DGRAM, "dns", "udp"), (socket.SOCK_DGRAM, "port", "udp")):
        port = job[pk + key]
        if port and (key, name, port) not in lst:
            try:
                lst[(key, name, port)] = listener(fam, typ, port)
                ports[lst[(key, name, port)]] = port
            except OSError as e:
                print(json.dumps({"error": "listener %s%s: %s" % (name, key, e)})); sys.exit(0)
res = [None] * len(job["probes"])
socks = {}
for i, pr in enumerate(job["probes"]):
    fam = socket.AF_INET if pr["fam"] == 4 else socket.AF_INET6
    if pr["proto"] == "tcp":
        s = socket.socket(fam, socket.SOCK_STREAM); s.setblocking(False)
        try:
            s.connect((pr["dst"], pr["dport"]))
        except BlockingIOError:
            pass
        except OSError as e:
            res[i] = "err:%s" % e.errno; s.close(); continue
        socks[s] = i
    else:
        s = socket.socket(fam, socket.SOCK_DGRAM)
        try:
            s.sendto(b"P%06d" % i, (pr["dst"], pr["dport"]))
        except OSError as e:
            res[i] = "err:%s" % e.errno
        s.close()
deadline = time.time() + job.get("wait", 0.6)
accepted = 0
udp_seen = {}
while time.time() < deadline:
    r, w, _ = select.select(list(lst.values()), list(socks), [], 0.05)
    for s in r:
        if s.type == socket.SOCK_STREAM:
            try:
                c, peer = s.accept(); c.send(b"S%05d" % ports[s]); c.close()
            except OSError:
                pass
        else:
            try:
                d, peer = s.recvfrom(100)
                if d[:1] == b"P":
                    udp_seen[int(d[1:7])] = ports[s]
            except OSError:
                pass
    for s in w:
        i = socks.pop(s)
        err = s.getsockopt(socket.SOL_SOCKET, socket.SO_ERROR)
        if err == 0:
            s.setblocking(True); s.settimeout(0.5)
            # give the listener loop a chance to accept
            for l in lst.values():
                if l.type == socket.SOCK_STREAM:
                    try:
                        c, peer = l.accept(); c.send(b"S%05d" % ports[l]); c.close()
                    except OSError:
                        pass
            try:
                d = s.recv(6)
            except OSError as e:
                d = b""
            res[i] = "divert:%d" % int(d[1:6]) if d[:1] == b"S" and len(d) == 6 else "connected-elsewhere"
        else:
            res[i] = "untouched" if err == 111 else "err:%d" % err
        s.close()
for s, i in socks.items():
    res[i] = "untouched"; s.close()
for i, pr in enumerate(job["probes"]):
    if pr["proto"] == "udp" and res[i] is None:
        res[i] = "divert:%d" % udp_seen[i] if i in udp_seen else "untouched"
print(json.dumps({"results": res}))
'''


def probe_ok(p, ports):
    """destinations a namespace with only `lo` can probe: unicast, non-local, not a listener port"""
    if p["dport"] in ports or p["dport"] == 0:
        return False
    if p["fam"] == 4:
        o = p["dst"] >> 24
        return 1 <= o <= 223 and o != 127 and p["dst"] != addr_num("192.168.77.1")
    o = p["dst"] >> 120
    return 0x20 <= o <= 0xfc and p["dst"] != addr_num("fd77::1")


def kernel_verdicts(ctx):
    """run the emitted rules in the real kernel (fresh network namespace, everything routed via lo, listeners on the
    redirect / DNS ports) and compare who receives each probe with the modelled walk"""
    rng = ctx.rng
    n_probe = n_incon = 0
    for i in range(24):
        pl = gen_plan(rng, small=(i % 2 == 0))
        for m in ("nat", "nft", "tproxy"):
            v = variant(rng, pl, m)
            if m == "nat" and v["user"] is not None:
                v["user"] = rng.choice([0, 1000])
            if m == "nat" and v["group"] is not None:
                v["group"] = rng.choice([0, 100])
            status, per = run_real(m, v)
            if status != "OK":
                continue
            ports = {v["port4"], v["port6"], v["dns4"], v["dns6"]}
            pk = []
            for p in gen_packets(rng, v, 60):
                p = dict(p, local=False, origin="L", uid=0, gid=0, sock=False, srclo=False)
                if probe_ok(p, ports):
                    pk.append(p)
            pk = pk[:28]
            if not pk:
                continue
            job = {"mode": "tproxy" if m == "tproxy" else "route", "tmark": int(v["tmark"], 0),
                   "cmds": per[6] + per[4], "port4": v["port4"], "port6": v["port6"], "dns4": v["dns4"], "dns6": v["dns6"],
                   "wait": 0.7,
                   "probes": [{"fam": p["fam"], "dst": addr_txt(p["fam"], p["dst"]), "dport": p["dport"], "proto": p["proto"]}
                              for p in pk]}
            r = subprocess.run(["timeout", "60", "unshare", "-n", sys.executable, "-c", PROBE_SCRIPT],
                               input=json.dumps(job).encode(), stdout=subprocess.PIPE, stderr=subprocess.PIPE)
            desc = {"method": m, "plan": {k: x for k, x in v.items() if k != "anchors"}}
            try:
                out = json.loads(r.stdout.decode())
            except ValueError:
                ctx.notes.append("kernel probe produced no result for %s: %s" % (m, r.stderr.decode()[-300:]))
                continue
            if "error" in out:
                ctx.disagree("the real tool rejected a command the helper emits", desc, out["error"], "accepted")
                continue
            ev = ctx.run_driver(["EVAL %s %s" % (",".join(pkt_token(p) for p in pk), plan_tokens(v))])[0].split(" | ")
            for p, e, real in zip(pk, ev, out["results"]):
                mv = dict(kv.split("=") for kv in e.split(" "))[m]
                if not (real.startswith("divert:") or real == "untouched"):
                    n_incon += 1
                    continue
                n_probe += 1
                ctx.count("kernel_%s_%s" % (m, real.split(":")[0]))
                if real != mv:
                    ctx.disagree("real kernel verdict differs from the modelled packet walk (%s)" % m,
                                 dict(desc, packet=p), real, mv)
    ctx.extra["kernel_probes_compared"] = n_probe
    ctx.extra["kernel_probes_inconclusive"] = n_incon


def count_appends(cmds):
    return sum(1 for a in cmds if a[4] in ("-A", "-I"))


def saved_order_matches(saved, cmds):
    """destinations (normalised) of the saved rules per chain, in order, equal those of the -A commands"""
    def norm_dest(v):
        if "/" in v:
            a, w = v.split("/")
        else:
            a, w = v, None
        ip = ipaddress.ip_address(a)
        w = ip.max_prefixlen if w is None else int(w)
        net = ipaddress.ip_network((int(ip) >> (ip.max_prefixlen - w) << (ip.max_prefixlen - w) if w < ip.max_prefixlen else int(ip), w))
        return str(net)
    per_chain_cmd, per_chain_saved = {}, {}
    for a in cmds:
        if a[4] != "-A":
            continue
        d = norm_dest(a[a.index("--dest") + 1]) if "--dest" in a else "any"
        j = a[a.index("-j") + 1]
        per_chain_cmd.setdefault(a[5], []).append((d, j))
    for ln in saved:
        t = ln.split()
        if t[1] in ("OUTPUT", "PREROUTING"):
            continue
        d = norm_dest(t[t.index("-d") + 1]) if "-d" in t else "any"
        j = t[t.index("-j") + 1]
        per_chain_saved.setdefault(t[1], []).append((d, j))
    for ch, l in per_chain_cmd.items():
        s = per_chain_saved.get(ch, [])
        # iptables prints a 0-width destination as absent
        l2 = [("any" if d.endswith("/0") else d, j) for d, j in l]
        s2 = [("any" if d.endswith("/0") else d, j) for d, j in s]
        if l2 != s2:
            return False
    return True


def replay(ctx, rp):
    """re-run a stored failing input against the real code; True if it still fails"""
    load()
    r = rp.get("replay", {})
    if "packet" not in r or "plan" not in r:
        print("nothing replayable in", rp.get("kind"))
        return False
    pl = dict(r["plan"], anchors={4: [0], 6: [0]})
    fails = check_case(ctx, r["method"], pl, [r["packet"]])
    for p, got, want in fails:
        print("method %s packet %r: emitted rules give %s, specification demands %s" % (r["method"], p, got, want))
    return bool(fails) or bool(ctx.disagreements)


if __name__ == "__main__":
    sys.path.insert(0, os.path.join(os.path.dirname(os.path.abspath(__file__)), ".."))
    import framework
    sys.exit(framework.main(sys.modules[__name__]))
