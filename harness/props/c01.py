"""C01 — stream core (see stream_common.py and coq/Model/Stream.v)."""
import os
import sys
sys.path.insert(0, os.path.dirname(os.path.abspath(__file__)))
import stream_common as sc  # noqa: E402

PROP = "C01"
RULE = ("real ssnet.runonce on both tunnel ends over fake sockets, every micro-step replayed on the extracted model and the full "
        "state of both ends compared after every iteration; cases: bulk transfers in both directions on 1-4 flows, payload sizes around 0/1/2048/32768/65536/100000, random segmentation, latency control on and off; connections arriving on the IPv4 and the IPv6 listener through the real MultiListener.add_handler, dialled to several hosts/ports incl. foreign hosts on the client's own listening port (real helpers.islocal on kernel sockets) — oracles: every captured connection is tunnelled, and to the dialled destination; the tunnel ending under open flows (prefix oracles on everything delivered); a case is non-trivial when at least one flow was "
        "accepted; distinct by case seed")
TRUSTED_BASE = sc.STREAM_TB
ASSUMPTIONS = sc.STREAM_ASSUMPTIONS
PROFILES = ["bulk","bulk","close","latency","wrap","reuse","many","tunnel"]


def correspondence(ctx):
    sc.stream_check(ctx, PROP, PROFILES, 120, 2500)


def replay(ctx, rp):
    return sc.stream_replay(ctx, rp, PROP)


if __name__ == "__main__":
    sys.path.insert(0, os.path.join(os.path.dirname(os.path.abspath(__file__)), ".."))
    import framework
    sys.exit(framework.main(sys.modules[__name__]))
