"""C01 — stream core (see stream_common.py and coq/Model/Stream.v)."""
import os
import sys
sys.path.insert(0, os.path.dirname(os.path.abspath(__file__)))
import stream_common as sc  # noqa: E402

PROP = "C01"
RULE = ("real ssnet.runonce on both tunnel ends over fake sockets, every micro-step replayed on the extracted model and the full "
        "state of both ends compared after every iteration; cases: bulk transfers in both directions on 1-4 flows, payload sizes around 0/1/2048/32768/65536/100000, random segmentation, latency control on and off, latency windows up to 2^30 with reads of exactly 65535 / 65536 bytes (profile window), an established flow's recv/send/shutdown failing with every errno of stream_common.EST next to a healthy flow; connections arriving on the IPv4 and the IPv6 listener through the real MultiListener.add_handler, dialled to several hosts/ports incl. foreign hosts on the client's own listening port (real helpers.islocal on kernel sockets) — oracles: every captured connection is tunnelled, and to the dialled destination; the tunnel ending under open flows (prefix oracles on everything delivered); a case is non-trivial when at least one flow was "
        "accepted; distinct by case seed; plus (implementation only) the two ends of the ssh channel: the object the real ssh.connect returns "
        "(no read-ahead), the real server.main in a child process on a socket pair (a connection's CONNECT+payload+EOF delivered to "
        "descriptor 0 in one segment reaches the destination without further input, for --latency-buffer-size 100..32768), and one "
        "connection end to end over two real OS pipes behind the real helpers.SocketRWShim at both ends (server.main on its win32 "
        "branch) with short writes / short reads of the pipes, end of stream and end of the channel")
TRUSTED_BASE = sc.STREAM_TB
ASSUMPTIONS = sc.STREAM_ASSUMPTIONS
PROFILES = ["bulk","bulk","close","latency","wrap","reuse","many","tunnel","slow"]


def tunnel_reader_check(ctx):
    """the byte stream the multiplexer reads comes from the file objects the real ssh.connect returns; the main loop
    only wakes the multiplexer when select() reports that object readable, so no byte may be held back in a private
    read-ahead buffer.  Real ssh.connect (only Popen replaced), real socket pair.  Implementation-only."""
    import select
    import socket
    import types
    import sshuttle.ssh as ssh
    keep = []

    class FakePopen(object):
        pid = 4242

        def __init__(self, argv, stdin=None, stdout=None, **kw):
            keep.append(os.dup(stdin))          # the "ssh" end of the pair stays open and is ours to write to

        def poll(self):
            return None

    saved = ssh.ssubprocess
    ssh.ssubprocess = types.SimpleNamespace(Popen=FakePopen, PIPE=getattr(saved, "PIPE", -1))
    try:
        for total, first in ((5000, 100), (300, 1), (8192, 12), (20000, 4096)):
            p, rfile, wfile = ssh.connect(None, "remote.example", None, None, False, None,
                                          dict(latency_control=True, latency_buffer_size=32768, auto_hosts=False,
                                               to_nameserver=None, auto_nets=False))
            peer = socket.socket(fileno=keep.pop())
            try:
                peer.setblocking(False)
                try:
                    while peer.recv(65536):        # drain the upload the client wrote
                        pass
                except (BlockingIOError, OSError):
                    pass
                peer.setblocking(True)
                peer.sendall((bytes(range(256)) * (total // 256 + 1))[:total])
                got = rfile.read(first)
                unread = total - len(got or b"")
                r, _, _ = select.select([rfile], [], [], 0.2)
                ctx.case(("tunnel-reader", total, first), nontrivial=True)
                ctx.count("tunnel_reader_cases")
                if unread > 0 and not r:
                    ctx.violation("bytes of the tunnel stream are held where select() cannot see them: the object ssh.connect "
                                  "returned read ahead, the multiplexer would not be woken for them",
                                  {"tunnel_reader": {"bytes_sent_by_the_peer": total, "bytes_the_client_asked_for": first,
                                                     "bytes_unread": unread, "select_reports_readable": False}})
            finally:
                for f in (rfile, wfile, peer):
                    try:
                        f.close()
                    except Exception:
                        pass
    finally:
        ssh.ssubprocess = saved
        for fd in keep:
            try:
                os.close(fd)
            except OSError:
                pass


class _ServerOs(object):
    """the `os` module as sshuttle.server sees it from the first pipe-relay scenario on, for the rest of this process:
    everything is the real module, except that _exit — which server.main's relay calls from a thread, a second after the
    ssh channel ended, possibly long after the scenario is over — is recorded instead of ending the check's own process"""
    exits = []

    def __getattr__(self, k):
        return getattr(os, k)

    def _exit(self, code):
        self.exits.append(code)


class _ServerTime(object):
    """... and its `time`: the one-second grace period before that _exit is cut short"""

    def __getattr__(self, k):
        import time
        return getattr(time, k)

    def sleep(self, s):
        import time
        time.sleep(min(s, 0.01))


SHIM_SCENARIOS = [
    # (how the pipe's write end takes bytes, how its read end hands them out, bytes the application writes, bytes the destination writes)
    ("full", "full", 5000, 3000),
    ("cap1000", "full", 70000, 40000),
    ("short", "short", 70000, 70000),
    ("once", "full", 40000, 1),
    ("short", "cap7", 0, 1),
    ("cap1000", "short", 1, 0),
]
SHIM_SCENARIOS_MORE = [("short", "short", 200000, 100000), ("one", "full", 3000, 3000), ("once", "short", 100000, 100000),
                       ("cap1000", "cap7", 2049, 2047), ("full", "short", 65536, 65535), ("short", "full", 32769, 0)]


def shim_tunnel_run(sce):
    """One TCP connection end to end with the ssh channel made of two real (blocking) OS pipes behind the real
    helpers.SocketRWShim at BOTH ends, as on the platform where the multiplexer cannot select() on the ssh process's
    stdio: the client end builds the relay the way ssh.connect does (SocketRWShim(p.stdout, p.stdin) + makefiles()),
    the server end is the real server.main seeing sys.platform == 'win32'.  Real ssnet.runonce, real client.onaccept_tcp,
    real kernel sockets for the application and the destination.  The write end of each pipe takes fewer bytes than it
    is offered (what a raw write may do), the read end returns fewer than asked.  Returns (failures, statistics)."""
    import io
    import random
    import select
    import socket
    import time
    import sshuttle.client as client
    import sshuttle.helpers as helpers
    import sshuttle.server as server
    import sshuttle.ssnet as ssnet
    wmode, rmode, n_up, n_down = sce["write_end"], sce["read_end"], sce["app_bytes"], sce["dst_bytes"]
    rng = random.Random(sce.get("seed", 1))
    fails, stats = [], {}

    class PipeW(io.RawIOBase):
        """raw, blocking write end of a pipe: one write(2) per call, which may take only part of what is offered"""

        def __init__(self, fd):
            io.RawIOBase.__init__(self)
            self.fd, self.calls, self.short, self.total, self.wire, self.first_short = fd, 0, 0, 0, b"", None

        def writable(self):
            return True

        def fileno(self):
            return self.fd

        def write(self, data):
            data = bytes(data)
            n = len(data)
            self.calls += 1
            if n > 1:
                if wmode == "short":
                    n = rng.randint(1, n - 1)
                elif wmode == "cap1000":
                    n = min(n, 1000)
                elif wmode == "one":
                    n = 1
                elif wmode == "once" and self.calls == 3:
                    n = n // 2
            if n < len(data):
                self.short += 1
                if self.first_short is None:
                    self.first_short = {"at_stream_offset": self.total, "offered": len(data), "taken": n}
            n = os.write(self.fd, data[:n])
            self.total += n
            self.wire += data[:n]
            return n

    class PipeR(io.RawIOBase):
        """raw, blocking read end: returns as soon as something is there, possibly less than asked; b'' at end of stream"""

        def __init__(self, fd):
            io.RawIOBase.__init__(self)
            self.fd = fd

        def readable(self):
            return True

        def fileno(self):
            return self.fd

        def read(self, n=-1):
            if rmode == "short":
                n = rng.randint(1, max(1, n))
            elif rmode == "cap7":
                n = min(n, 7)
            return os.read(self.fd, n)

        def readinto(self, b):
            d = self.read(len(b))
            b[:len(d)] = d
            return len(d)

    c2s_r, c2s_w = os.pipe()
    s2c_r, s2c_w = os.pipe()
    fds = {c2s_r, c2s_w, s2c_r, s2c_w}
    p_stdin, p_stdout = PipeW(c2s_w), PipeR(s2c_r)           # the ssh child's pipes, as the client sees them
    srv_in, srv_out = PipeR(c2s_r), PipeW(s2c_w)             # descriptors 0 and 1 of the server process
    ended = []
    socks = []

    class SysShim(object):
        platform = "win32"
        stderr = sys.stderr
        exc_info = staticmethod(sys.exc_info)
        exit = staticmethod(sys.exit)
        stdout = io.TextIOWrapper(io.BufferedWriter(srv_out), encoding="latin-1", newline="")

    class SelShim(object):
        error = OSError

        @staticmethod
        def select(r, w, x, timeout=None):
            return select.select(r, w, x, 0.003 if timeout is None else timeout)

    class Cap(BaseException):
        pass
    cap = {}

    def capture(handlers, mux):
        cap["h"], cap["m"] = handlers, mux
        raise Cap()
    if not isinstance(server.os, _ServerOs):
        server.os, server.time = _ServerOs(), _ServerTime()
    exits_before = len(_ServerOs.exits)
    saved = (server.sys, server.io, ssnet.runonce, ssnet.select, helpers.log, ssnet.log, client.log, server.log,
             helpers.logprefix, ssnet.LATENCY_BUFFER_SIZE)
    old_err = sys.stderr
    devnull = open(os.devnull, "w")
    sys.stderr = devnull                                      # the relay threads report the closing of their pipes there
    shim_c = None
    try:
        helpers.log = ssnet.log = client.log = server.log = lambda s: None
        server.sys, ssnet.runonce = SysShim, capture
        server.io = sc.io_shim(lambda fd: srv_in if fd == 0 else srv_out)
        try:
            server.main(True, 32768, False, None, False)
        except Cap:
            pass
        finally:
            server.sys, server.io, ssnet.runonce = saved[0], saved[1], saved[2]
        s_mux, s_handlers = cap["m"], cap["h"]
        ssnet.select = SelShim
        # client end: what ssh.connect does on that platform, then what client._main does with the two files
        shim_c = helpers.SocketRWShim(p_stdout, p_stdin, on_end=lambda: ended.append(("ssh would be terminated", None)))
        rfile, wfile = shim_c.makefiles()
        socks += [rfile, wfile]
        head = b""
        t_end = time.time() + 30
        while len(head) < 14 and time.time() < t_end:
            if select.select([rfile], [], [], 0.05)[0]:
                d = rfile.read(14 - len(head))
                if not d:
                    break
                head += d
        if head != b"\0\0SSHUTTLE0001":
            fails.append(("the server's synchronisation string did not cross the pipe relay intact", {"received": head.hex()}))
            return fails, stats
        c_mux = ssnet.Mux(rfile, wfile)
        c_mux.got_routes = c_mux.got_host_list = lambda data: None     # (client._main installs its own two)
        c_handlers = [c_mux]
        lst = socket.socket(socket.AF_INET, socket.SOCK_STREAM)
        dst_l = socket.socket(socket.AF_INET, socket.SOCK_STREAM)
        socks += [lst, dst_l]
        for l_ in (lst, dst_l):
            l_.bind(("127.0.0.1", 0))
            l_.listen(4)
        dst_addr = dst_l.getsockname()

        class Method(object):
            @staticmethod
            def get_tcp_dstip(sock):
                return dst_addr
        c_handlers.append(ssnet.Handler([lst], lambda sock: client.onaccept_tcp(lst, Method, c_mux, c_handlers)))
        app = socket.socket(socket.AF_INET, socket.SOCK_STREAM)
        socks.append(app)
        app.connect(lst.getsockname())
        app.setblocking(False)
        dst_l.setblocking(False)
        up, down = sc.pattern(5, 0, n_up), sc.pattern(6, 0, n_down)
        ends = {"app": {"sock": app, "out": up, "sent": 0, "got": b"", "eof": False, "shut": False, "want": down},
                "dst": {"sock": None, "out": down, "sent": 0, "got": b"", "eof": False, "shut": False, "want": up}}
        died = None
        last_progress, t_end = time.time(), time.time() + 90
        while time.time() < t_end:
            mark = (ends["app"]["sent"], ends["dst"]["sent"], len(ends["app"]["got"]), len(ends["dst"]["got"]),
                    ends["app"]["eof"], ends["dst"]["eof"], p_stdin.total, srv_out.total)
            if ends["dst"]["sock"] is None:
                try:
                    ends["dst"]["sock"], _ = dst_l.accept()
                    ends["dst"]["sock"].setblocking(False)
                    socks.append(ends["dst"]["sock"])
                except (BlockingIOError, InterruptedError):
                    pass
            for name in ("app", "dst"):
                e = ends[name]
                s = e["sock"]
                if s is None:
                    continue
                try:
                    if e["sent"] < len(e["out"]):
                        e["sent"] += s.send(e["out"][e["sent"]:e["sent"] + 65536])
                    elif not e["shut"]:
                        s.shutdown(socket.SHUT_WR)
                        e["shut"] = True
                except (BlockingIOError, InterruptedError):
                    pass
                except OSError as ex:
                    fails.append(("an endpoint's socket was reset by the tunnel end although neither endpoint aborted",
                                  {"endpoint": name, "error": str(ex)}))
                    e["sent"], e["shut"] = len(e["out"]), True
                if not e["eof"]:
                    try:
                        d = s.recv(1 << 16)
                        if d:
                            off = len(e["got"])
                            e["got"] += d
                            if e["want"][off:off + len(d)] != d and not e.get("bad"):
                                e["bad"] = off + next((i for i in range(len(d)) if e["want"][off + i:off + i + 1] != d[i:i + 1]), 0)
                        else:
                            e["eof"] = True
                    except (BlockingIOError, InterruptedError):
                        pass
                    except OSError as ex:
                        e["eof"] = True
                        e["reset"] = str(ex)
            for side, hs, m in (("client", c_handlers, c_mux), ("server", s_handlers, s_mux)):
                if died is None:
                    try:
                        ssnet.runonce(hs, m)
                        m.check_fullness()              # latency control is on, as by default
                    except Exception as ex:        # noqa
                        died = (side, type(ex).__name__, str(ex)[:200])
            if died:
                break
            if all(ends[k]["eof"] and ends[k]["shut"] for k in ends):
                break
            now = (ends["app"]["sent"], ends["dst"]["sent"], len(ends["app"]["got"]), len(ends["dst"]["got"]),
                   ends["app"]["eof"], ends["dst"]["eof"], p_stdin.total, srv_out.total)
            if now != mark:
                last_progress = time.time()
            elif time.time() - last_progress > 8:
                break
        a, d = ends["app"], ends["dst"]
        stats = {"short_writes_client_pipe": p_stdin.short, "short_writes_server_pipe": srv_out.short,
                 "bytes_through_client_pipe": p_stdin.total, "bytes_through_server_pipe": srv_out.total}
        det = {"bytes_the_application_wrote": a["sent"], "bytes_the_destination_received": len(d["got"]),
               "bytes_the_destination_wrote": d["sent"], "bytes_the_application_received": len(a["got"]),
               "destination_saw_end_of_stream": d["eof"], "application_saw_end_of_stream": a["eof"]}
        det.update(stats)
        # what arrived in each pipe must be the frame stream its multiplexer produced (after the server's 14-byte string)
        for name, pw, skip in (("client", p_stdin, 0), ("server", srv_out, 14)):
            wire, pos = pw.wire[skip:], 0
            while len(wire) - pos >= 8:
                if wire[pos:pos + 2] != b"SS":
                    fails.append(("the byte stream that reached the ssh pipe behind the %s's pipe relay is not the frame stream "
                                  "its multiplexer wrote: after whole messages up to the offset given no message header follows "
                                  "(the detail shows the first write of the pipe that took only part of what it was offered)" % name,
                                  dict(det, bad_header_at_stream_offset=skip + pos, found=wire[pos:pos + 8].hex(),
                                       first_short_write=pw.first_short)))
                    break
                pos += 8 + ((wire[pos + 6] << 8) | wire[pos + 7])
        if died:
            fails.append(("the %s's multiplexer died (%s) on the byte stream that came out of the pipe relay: bytes of the "
                          "tunnel stream were lost or altered between the multiplexer and the ssh pipe" % (died[0], died[1]),
                          dict(det, exception="%s: %s" % (died[1], died[2]))))
        if "bad" in d:
            fails.append(("bytes handed to the destination are not a prefix of what the application wrote (ssh channel behind "
                          "the pipe relay)", dict(det, first_wrong_byte=d["bad"])))
        if "bad" in a:
            fails.append(("bytes handed back to the application are not a prefix of what the destination wrote (ssh channel "
                          "behind the pipe relay)", dict(det, first_wrong_byte=a["bad"])))
        if not fails and (d["got"] != up or a["got"] != down or not (a["eof"] and d["eof"])):
            fails.append(("neither endpoint aborted, yet not every byte written before the writer closed was delivered (ssh "
                          "channel behind the pipe relay)", det))
        if not fails:
            # end of the channel: the ssh process goes away (its stdout, our s2c pipe, stays open; its stdin is closed)
            os.close(c2s_w)
            fds.discard(c2s_w)
            # the server notices: its multiplexer reads end-of-stream, or the relay's on_end ends the process
            t_end = time.time() + 30
            while s_mux.ok and len(_ServerOs.exits) == exits_before and time.time() < t_end:
                try:
                    ssnet.runonce(s_handlers, s_mux)
                except Exception as ex:        # noqa
                    fails.append(("the end of the ssh channel made the server's loop end through %s" % type(ex).__name__, det))
                    break
            if s_mux.ok and len(_ServerOs.exits) == exits_before and not fails:
                fails.append(("the ssh channel was closed, yet neither did its end reach the server's multiplexer through the "
                              "pipe relay nor did the relay end the server: the server keeps running", det))
    finally:
        (server.sys, server.io, ssnet.runonce, ssnet.select, helpers.log, ssnet.log, client.log, server.log,
         helpers.logprefix, ssnet.LATENCY_BUFFER_SIZE) = saved
        for f in socks:
            try:
                f.close()
            except Exception:
                pass
        for sh in (shim_c, ):
            try:
                sh and sh._s2.close()
            except Exception:
                pass
        try:
            cap["m"].rfile.close()
            cap["m"].wfile.close()
        except Exception:
            pass
        for fd in fds:
            try:
                os.close(fd)
            except OSError:
                pass
        import time as _t
        _t.sleep(0.02)                                       # let the relay threads notice and finish
        sys.stderr = old_err
        devnull.close()
    return fails, stats


def shim_tunnel_check(ctx, only=None):
    import sshuttle.helpers as helpers
    if not hasattr(helpers, "SocketRWShim"):
        return []
    if not sc.machine_has("127.0.0.1", sc.AF4):
        ctx.count("shim_tunnel_skipped_no_loopback")
        return []
    scen = [only] if only else [dict(zip(("write_end", "read_end", "app_bytes", "dst_bytes"), t), seed=ctx.rng.randrange(1 << 30))
                                for t in SHIM_SCENARIOS + ([] if ctx.quick() else SHIM_SCENARIOS_MORE)]
    found = []
    for sce in scen:
        fails, stats = shim_tunnel_run(sce)
        ctx.case(("shim-tunnel", sce["write_end"], sce["read_end"], sce["app_bytes"], sce["dst_bytes"]), nontrivial=True,
                 sample={"kind": "pipe-relay tunnel", "scenario": sce, "stats": stats})
        ctx.count("shim_tunnel_write_end_%s" % sce["write_end"])
        ctx.count("shim_tunnel_short_writes", stats.get("short_writes_client_pipe", 0) + stats.get("short_writes_server_pipe", 0))
        for what, det in fails[:2]:
            found.append(what)
            ctx.violation(what, {"shim_tunnel": sce, "detail": det})
    return found


def correspondence(ctx):
    import time
    t0 = time.time()
    tunnel_reader_check(ctx)
    sc.server_reader_check(ctx, PROP)
    shim_tunnel_check(ctx)
    ctx.extra["tunnel_endpoint_checks_wall_s"] = round(time.time() - t0, 2)
    sc.stream_check(ctx, PROP, PROFILES, 120, 2500, tail_profiles=("window",))


def replay(ctx, rp):
    st = rp.get("replay", {}).get("shim_tunnel")
    if st:
        found = shim_tunnel_check(ctx, only=st)
        print("pipe-relay tunnel:", found)
        return bool(found)
    return sc.stream_replay(ctx, rp, PROP)


if __name__ == "__main__":
    sys.path.insert(0, os.path.join(os.path.dirname(os.path.abspath(__file__)), ".."))
    import framework
    sys.exit(framework.main(sys.modules[__name__]))
