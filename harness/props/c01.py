"""C01 — stream core (see stream_common.py and coq/Model/Stream.v)."""
import os
import sys
sys.path.insert(0, os.path.dirname(os.path.abspath(__file__)))
import stream_common as sc  # noqa: E402

PROP = "C01"
RULE = ("real ssnet.runonce on both tunnel ends over fake sockets, every micro-step replayed on the extracted model and the full "
        "state of both ends compared after every iteration; cases: bulk transfers in both directions on 1-4 flows, payload sizes around 0/1/2048/32768/65536/100000, random segmentation, latency control on and off; connections arriving on the IPv4 and the IPv6 listener through the real MultiListener.add_handler, dialled to several hosts/ports incl. foreign hosts on the client's own listening port (real helpers.islocal on kernel sockets) — oracles: every captured connection is tunnelled, and to the dialled destination; the tunnel ending under open flows (prefix oracles on everything delivered); a case is non-trivial when at least one flow was "
        "accepted; distinct by case seed")
TRUSTED_BASE = sc.STREAM_TB
ASSUMPTIONS = sc.STREAM_ASSUMPTIONS
PROFILES = ["bulk","bulk","close","latency","wrap","reuse","many","tunnel"]


def tunnel_reader_check(ctx):
    """the byte stream the multiplexer reads comes from the file objects the real ssh.connect returns; the main loop
    only wakes the multiplexer when select() reports that object readable, so no byte may be held back in a private
    read-ahead buffer.  Real ssh.connect (only Popen replaced), real socket pair.  Implementation-only."""
    import select
    import socket
    import types
    import sshuttle.ssh as ssh
    keep = []

    class FakePopen(object):
        pid = 4242

        def __init__(self, argv, stdin=None, stdout=None, **kw):
            keep.append(os.dup(stdin))          # the "ssh" end of the pair stays open and is ours to write to

        def poll(self):
            return None

    saved = ssh.ssubprocess
    ssh.ssubprocess = types.SimpleNamespace(Popen=FakePopen, PIPE=getattr(saved, "PIPE", -1))
    try:
        for total, first in ((5000, 100), (300, 1), (8192, 12), (20000, 4096)):
            p, rfile, wfile = ssh.connect(None, "remote.example", None, None, False, None,
                                          dict(latency_control=True, latency_buffer_size=32768, auto_hosts=False,
                                               to_nameserver=None, auto_nets=False))
            peer = socket.socket(fileno=keep.pop())
            try:
                peer.setblocking(False)
                try:
                    while peer.recv(65536):        # drain the upload the client wrote
                        pass
                except (BlockingIOError, OSError):
                    pass
                peer.setblocking(True)
                peer.sendall((bytes(range(256)) * (total // 256 + 1))[:total])
                got = rfile.read(first)
                unread = total - len(got or b"")
                r, _, _ = select.select([rfile], [], [], 0.2)
                ctx.case(("tunnel-reader", total, first), nontrivial=True)
                ctx.count("tunnel_reader_cases")
                if unread > 0 and not r:
                    ctx.violation("bytes of the tunnel stream are held where select() cannot see them: the object ssh.connect "
                                  "returned read ahead, the multiplexer would not be woken for them",
                                  {"tunnel_reader": {"bytes_sent_by_the_peer": total, "bytes_the_client_asked_for": first,
                                                     "bytes_unread": unread, "select_reports_readable": False}})
            finally:
                for f in (rfile, wfile, peer):
                    try:
                        f.close()
                    except Exception:
                        pass
    finally:
        ssh.ssubprocess = saved
        for fd in keep:
            try:
                os.close(fd)
            except OSError:
                pass


def correspondence(ctx):
    tunnel_reader_check(ctx)
    sc.stream_check(ctx, PROP, PROFILES, 120, 2500)


def replay(ctx, rp):
    return sc.stream_replay(ctx, rp, PROP)


if __name__ == "__main__":
    sys.path.insert(0, os.path.join(os.path.dirname(os.path.abspath(__file__)), ".."))
    import framework
    sys.exit(framework.main(sys.modules[__name__]))
