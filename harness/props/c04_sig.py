"""C04 — signals: the REAL sshuttle.firewall.setup_daemon and firewall.main in a forked child process.

The child's stdin/stdout is one end of a real socketpair (as client.py:286-298 arranges it), its stderr a real pipe.
The parent plays (a) the client: it writes the dialogue, reads READY / STARTED, receives the SIGINT the helper relays
(the GO line names the parent's pid), closes the channel the way the client's finally block does, or "dies" (channel
closed with or without unread data, SIGHUP of the terminal going away, nobody reading the helper's stderr any more);
(b) the kernel: every external command of the child travels over a request pipe and is answered by the extracted
kernel model the parent holds, so the packet-filter state survives whatever happens to the child; (c) the sender
of real signals at chosen moments: after i dialogue lines (before GO), when the child asks for its k-th command
(set-up or tear-down: the child is blocked until the parent has sent the signals and answered), while the helper waits.

What is replaced in the child: the subprocess boundary of linux.py / pf.py / firewall.py, pf's ioctl, `which`,
rewrite_etc_hosts (recorder) — as in c04.py — and the name `os` inside sshuttle.firewall by a proxy whose kill()
delivers a signal only if it is SIGINT for the parent (anything else is recorded, not delivered: the sandbox is
shared).  NOT replaced: setup_daemon, signal handlers, sys.stdin / sys.stdout / sys.stderr (real files on the real
descriptors), helpers.log, is_admin_user (the check runs as root)."""
import copy
import json
import os
import select
import signal
import socket
import sys
import time
import traceback

SIGS = {"SIGHUP": signal.SIGHUP, "SIGPIPE": signal.SIGPIPE, "SIGINT": signal.SIGINT, "SIGTERM": signal.SIGTERM}
DEAD_PID = 4194304 + 1000   # above PID_MAX_LIMIT: no such process can exist, the kernel answers ESRCH ("the client is gone")
F120_WHAT = ("a SIGINT/SIGTERM reaching the helper during tear-down when the client process no longer exists aborts the "
             "clean-up: firewall_exit's os.kill raises ProcessLookupError into the finally block and the family being "
             "restored keeps its rules")


def hx(b):
    if isinstance(b, str):
        b = b.encode()
    return b.hex() if b else "-"


def unhx(s):
    return b"" if s == "-" else bytes.fromhex(s)


# ---------------------------------------------------------------- child side
class ChildWorld:
    """stands for c04.World inside the child: commands and marks go to the parent"""

    def __init__(self, req_w, rep_r, env, default_programs):
        self.req_w, self.rep_r = req_w, rep_r
        self.env = env or {}
        self.programs = set(self.env.get("programs", default_programs))
        self.trace, self.flush_log, self.which_asked, self.kills = [], [], [], []
        self.hosts_calls = 0
        self.in_setup = False
        self.buf = b""
        self.seq = 0

    def ask(self, line):
        """one request, one reply; both carry a sequence number, so that a reply left unread when a signal handler
        raised into the waiting helper is not taken for the next one"""
        self.seq += 1
        seq = self.seq
        data = ("%d %s\n" % (seq, line)).encode()
        while data:
            n = os.write(self.req_w, data)
            data = data[n:]
        while True:
            while b"\n" not in self.buf:
                c = os.read(self.rep_r, 1 << 16)
                if not c:
                    os._exit(97)          # the parent is gone
                self.buf += c
            r, _, self.buf = self.buf.partition(b"\n")
            n, _, rest = r.decode().partition(" ")
            if int(n) == seq:
                return rest

    def external(self, argv, stdin=b"", countable=True):
        argv = [a.encode() if isinstance(a, str) else a for a in argv]
        r = self.ask("C %d %s %s" % (1 if countable else 0, hx(stdin), " ".join(hx(a) for a in argv)))
        rc, out, err = r.split(" ")
        return int(rc), unhx(out), unhx(err)

    def mark(self, m):
        self.trace.append("M:" + m)
        self.ask("M " + m)


class OsProxy:
    """the name `os` inside sshuttle.firewall: everything is the real os, except that kill() is recorded and only a
    SIGINT for the client (the parent of this check) is really delivered"""

    def __init__(self, world, client_pid):
        self._w, self._client = world, client_pid

    def __getattr__(self, name):
        return getattr(os, name)

    def kill(self, pid, sig):
        self._w.kills.append([int(pid), int(sig)])
        if pid == DEAD_PID or (pid == self._client and sig == signal.SIGINT):
            return os.kill(pid, sig)
        return None


def child_main(c04, plan, sc, hs_fd, err_w, req_w, rep_r, client_pid, keep):
    w = None
    try:
        os.dup2(hs_fd, 0)
        os.dup2(hs_fd, 1)
        os.dup2(err_w, 2)
        for fd in range(3, 256):
            if fd not in (req_w, rep_r) and fd not in keep:
                try:
                    os.close(fd)
                except OSError:
                    pass
        # dispositions of a freshly started python: SIGINT -> KeyboardInterrupt, SIGPIPE ignored by the interpreter,
        # everything else default
        signal.signal(signal.SIGINT, signal.default_int_handler)
        signal.signal(signal.SIGTERM, signal.SIG_DFL)
        signal.signal(signal.SIGHUP, signal.SIG_DFL)
        if sc.get("leader"):
            os.setpgid(0, 0)           # a process-group leader: os.setsid() fails with EPERM (sudo's use_pty)
        sys.stdin = open(0, "r", closefd=False)
        sys.stdout = open(1, "w", closefd=False)
        sys.stderr = open(2, "w", buffering=1, errors="backslashreplace", closefd=False)
        L = c04.load_real()
        w = ChildWorld(req_w, rep_r, sc.get("env"), c04.DEFAULT_PROGRAMS)
        L["shim"].world = w
        fw, helpers = L["firewall"], L["helpers"]
        fw.setup_daemon = L["setup_daemon0"]
        fw.sshuttle_pid = None
        fw.os = OsProxy(w, client_pid)
        rec = c04.hosts_recorder(w)

        def hosts(hostmap, port):
            try:
                return rec(hostmap, port)
            finally:
                if hostmap:
                    w.ask("H %d" % w.hosts_calls)
        fw.rewrite_etc_hosts = hosts
        helpers.verbose = int(sc.get("v", 0))
        name = c04.prepare_method(L, plan.method)
        crash = None
        try:
            fw.main(name, False)
            outcome = "RETURN"
        except helpers.Fatal:
            outcome = "FATAL"
        except Exception as e:      # noqa
            outcome, crash = "CRASH", repr(e)
        except BaseException as e:      # noqa  KeyboardInterrupt / SystemExit
            outcome, crash = "ESCAPE", repr(e)
        py = ""
        if plan.method.startswith("pf-"):
            c = L["pf"]._pf_context
            py = "%d,%d,%s" % (c["started_by_sshuttle"], 1 if c["loaded_by_sshuttle"] else 0, ".".join(hx(t) for t in c["Xtoken"]))
        for sg in (signal.SIGINT, signal.SIGTERM, signal.SIGHUP):
            signal.signal(sg, signal.SIG_IGN)
        w.ask("X " + json.dumps({"outcome": outcome, "crash": crash, "kills": w.kills, "py": py,
                                 "handlers": None, "flush_log": w.flush_log}))
    except BaseException:      # noqa
        try:
            if w is not None:
                w.ask("X " + json.dumps({"outcome": "HARNESS", "crash": traceback.format_exc()[-1500:], "kills": [], "py": ""}))
        except BaseException:      # noqa
            pass
    finally:
        try:
            import coverage
            cov = coverage.Coverage.current()
            if cov is not None:
                cov.stop()
                cov.save()
        except BaseException:      # noqa
            pass
        os._exit(0)


# ---------------------------------------------------------------- parent side
class _Relay:
    n = 0
    missed = 0          # relays that never came, over the whole run of the check (bounds the time spent waiting for more)


def _on_int(signum, frame):
    _Relay.n += 1


def describe(sc, plan):
    at = sc["at"]
    where = {"dialogue": "after %s of the %d dialogue lines before GO is complete" % (at[1:] and at[1], len(plan.header())),
             "setup": "when the helper is about to run command #%s (set-up)" % (at[1:] and at[1]),
             "waiting": "while the helper waits after STARTED and %d HOST lines" % max(0, sc["sent"] - len(plan.header())),
             "teardown": "when the helper is about to run command #%s (tear-down, after the client closed the channel)" % (at[1:] and at[1])}[at[0]]
    what = []
    if sc.get("signals"):
        what.append("the helper receives " + ", ".join(sc["signals"]))
    d = sc.get("death")
    if d:
        what.append("the client dies (channel closed%s%s%s)" % (
            " with the helper's output unread" if d.get("unread") else "",
            ", SIGHUP from the terminal going away" if d.get("hup") else "",
            ", nobody reads the helper's stderr any more" if d.get("stderr") else ""))
    extra = []
    if sc.get("leader"):
        extra.append("helper is a process-group leader (setsid fails)")
    if sc.get("client") == "dead":
        extra.append("the pid named in GO no longer exists")
    return "%s: %s; -v x %d%s" % (where, " and ".join(what) or "nothing", sc.get("v", 0), ("; " + "; ".join(extra)) if extra else "")


def run_child(c04, kern, plan, st_enc, sc, deadline_s=25.0):
    """one real helper process under scenario sc -> result dict shaped like c04.run_real's"""
    nh = len(plan.header())
    faults = sc.get("faults") or []
    kern.set(st_enc)
    w = c04.World(kern, faults)
    client_pid = os.getpid() if sc.get("client") != "dead" else DEAD_PID
    lines = plan.lines(pid=client_pid)
    cs, hs = socket.socketpair()
    err_r, err_w = os.pipe()
    req_r, req_w = os.pipe()
    rep_r, rep_w = os.pipe()
    sys.stdout.flush()
    sys.stderr.flush()
    _Relay.n = 0
    old_int = signal.signal(signal.SIGINT, _on_int)
    pid = os.fork()
    if pid == 0:
        child_main(c04, plan, sc, hs.fileno(), err_w, req_w, rep_r, client_pid, keep=())
        os._exit(0)
    res = {"outcome": None, "crash": None, "kills": [], "py": "", "killed_by": None, "hung": False, "relays": 0,
           "relay_expected": 0, "relay_missing": 0, "ready": None, "started_seen": False, "stderr": b"", "notes": []}
    try:
        hs.close()
        os.close(err_w)
        os.close(req_w)
        os.close(rep_r)
        st = {"chan": b"", "closed": False, "acted": False, "hosts": 0, "tail_sent": False, "err_open": True,
              "req": b"", "done": False, "hdr_sent": False, "go_seen": False}
        at = sc["at"]
        death = sc.get("death")
        unread = bool(death and death.get("unread"))
        sent = sc["sent"]
        n_hosts = sum(1 for l in lines[nh:sent] if l.startswith("HOST "))
        t_end = time.time() + deadline_s

        def send(ls):
            if st["closed"] or not ls:
                return
            try:
                cs.sendall("".join(l + "\n" for l in ls).encode())
            except OSError as e:
                res["notes"].append("client write failed: %r" % e)

        def close_chan():
            if not st["closed"]:
                st["closed"] = True
                try:
                    cs.close()
                except OSError:
                    pass

        def act():
            st["acted"] = True
            for name in sc.get("signals") or []:
                before = _Relay.n
                try:
                    os.kill(pid, SIGS[name])
                except ProcessLookupError:
                    res["notes"].append("%s: the helper is already gone" % name)
                    continue
                if name in ("SIGINT", "SIGTERM") and st["go_seen"] and sc.get("client") != "dead":
                    res["relay_expected"] += 1
                    t1 = time.time() + (8.0 if _Relay.missed < 2 else 1.0)
                    while _Relay.n == before and time.time() < t1:
                        time.sleep(0.002)
                        try:
                            if os.waitpid(pid, os.WNOHANG)[0]:
                                st["reaped"] = True
                                break
                        except ChildProcessError:
                            break
                    if _Relay.n == before:
                        res["relay_missing"] += 1
                        _Relay.missed += 1
                else:
                    time.sleep(0.01)
            if death:
                if death.get("hup"):
                    try:
                        os.kill(pid, signal.SIGHUP)
                    except ProcessLookupError:
                        pass
                if death.get("stderr") and st["err_open"]:
                    st["err_open"] = False
                    os.close(err_r)
                close_chan()
            elif _Relay.n > 0:
                close_chan()          # the client's reaction to SIGINT: its finally block closes the channel

        def chan_lines():
            """complete lines the helper has written so far (consumed, or only looked at when the client never reads)"""
            if st["closed"]:
                return
            try:
                if unread:
                    data = cs.recv(1 << 16, socket.MSG_PEEK | socket.MSG_DONTWAIT)
                    st["chan"] = data
                else:
                    data = cs.recv(1 << 16, socket.MSG_DONTWAIT)
                    st["chan"] += data
            except (BlockingIOError, InterruptedError):
                pass
            except OSError as e:
                res["notes"].append("client read failed: %r" % e)
            for l in st["chan"].split(b"\n")[:-1]:
                if l.startswith(b"READY ") and res["ready"] is None:
                    res["ready"] = l[6:].decode("latin-1")
                if l == b"STARTED":
                    res["started_seen"] = True

        while not st["done"] and time.time() < t_end:
            rl = [req_r] + ([cs] if not st["closed"] and not unread else []) + ([err_r] if st["err_open"] else [])
            try:
                ready, _, _ = select.select(rl, [], [], 0.02)
            except InterruptedError:
                ready = []
            if st["err_open"] and err_r in ready:
                c = os.read(err_r, 1 << 16)
                if c:
                    res["stderr"] = (res["stderr"] + c)[-4000:]
                else:
                    st["err_open"] = False
                    os.close(err_r)
            chan_lines()
            # the client's side of the dialogue
            if res["ready"] is not None and not st["hdr_sent"]:
                st["hdr_sent"] = True
                send(lines[:min(sent, nh)])
                if sent >= nh:
                    st["go_seen"] = True
                if at[0] == "dialogue":
                    time.sleep(0.02)
                    act()
                    close_chan()
            if res["started_seen"] and not st["tail_sent"]:
                st["tail_sent"] = True
                send(lines[nh:sent])
            if st["tail_sent"] and st["hosts"] >= n_hosts and not st.get("ended"):
                st["ended"] = True
                if at[0] == "waiting" and not st["acted"]:
                    time.sleep(0.02)
                    act()
                close_chan()           # the session ends: the client closes the channel
            if req_r in ready:
                c = os.read(req_r, 1 << 16)
                if not c:
                    break
                st["req"] += c
                while b"\n" in st["req"]:
                    line, _, st["req"] = st["req"].partition(b"\n")
                    seq, _, body = line.decode().partition(" ")
                    f = body.split(" ")
                    if f[0] == "C":
                        countable = f[1] == "1"
                        if countable and not st["acted"] and at[0] in ("setup", "teardown") and w.n == at[1]:
                            act()
                        rc, out, err = w.external([unhx(x) for x in f[3:]], unhx(f[2]), countable)
                        reply = "%d %s %s" % (rc, hx(out), hx(err))
                    elif f[0] == "M":
                        w.mark(f[1])
                        reply = "ok"
                    elif f[0] == "H":
                        st["hosts"] = int(f[1])
                        reply = "ok"
                    elif f[0] == "X":
                        res.update(json.loads(body[2:]))
                        st["done"] = True
                        reply = "ok"
                    else:
                        reply = "ERROR"
                    try:
                        os.write(rep_w, ("%s %s\n" % (seq, reply)).encode())
                    except OSError:
                        pass
        # the end of the child
        status = None
        if not st.get("reaped"):
            t1 = time.time() + (2.0 if st["done"] else 0.3)
            while time.time() < t1:
                try:
                    p, status = os.waitpid(pid, os.WNOHANG)
                except ChildProcessError:
                    p, status = pid, None
                if p:
                    break
                time.sleep(0.005)
            else:
                res["hung"] = True
                os.kill(pid, signal.SIGKILL)
                os.waitpid(pid, 0)
                status = None
        if status is not None and os.WIFSIGNALED(status) and not res["hung"]:
            res["killed_by"] = signal.Signals(os.WTERMSIG(status)).name
        elif status is not None and os.WIFEXITED(status) and os.WEXITSTATUS(status) != 0:
            res["notes"].append("child exit status %d" % os.WEXITSTATUS(status))
        if st["err_open"]:
            try:
                while True:
                    r, _, _ = select.select([err_r], [], [], 0)
                    if not r:
                        break
                    c = os.read(err_r, 1 << 16)
                    if not c:
                        break
                    res["stderr"] = (res["stderr"] + c)[-4000:]
            except OSError:
                pass
    finally:
        signal.signal(signal.SIGINT, old_int)
        for fd in (req_r, rep_w):
            try:
                os.close(fd)
            except OSError:
                pass
        try:
            os.close(err_r)
        except OSError:
            pass
        try:
            cs.close()
        except OSError:
            pass
    res["relays"] = _Relay.n
    res["trace"] = w.trace
    res["final"] = kern.get()
    res["ncmds"] = w.n
    res["fin_at"] = c04.fin_at_of(w.trace, w.n)
    res["snaps"] = None
    res["stderr"] = res["stderr"].decode("latin-1")
    return res


def cut_equivalent(plan, sc):
    """the number of dialogue lines after which the signal-free in-process run is cut to give the same session"""
    nh = len(plan.header())
    if sc["at"][0] == "setup" and (sc.get("death") or (any(s in ("SIGINT", "SIGTERM") for s in sc.get("signals") or [])
                                                         and sc.get("client") != "dead")):
        return nh
    return sc["sent"]


def judge(ctx, c04, kern, plan, st_enc, sc, res, quiet=False, bodies=None):
    """oracles on one child run; returns the number of violations reported"""
    before = len(ctx.violations)
    cut = cut_equivalent(plan, sc)
    note = describe(sc, plan)
    rep_extra = {"signals": sc, "signals_note": note + "; helper: outcome=%s crash=%s killed_by=%s hung=%s commands=%d of which tear-down=%d; "
                 "signals it sent: %r" % (res["outcome"], res.get("crash"), res["killed_by"], res["hung"], res["ncmds"],
                                          res["ncmds"] - res["fin_at"], res["kills"])}
    info = {"plan": plan.as_dict(), "cut": cut, "faults": sorted(sc.get("faults") or []), "state": st_enc, "kind": "signals",
            "rep_extra": rep_extra}
    if res["outcome"] == "HARNESS":
        ctx.disagree("signal harness: the child could not run the helper", note, res.get("crash"), "-")
        return 0
    # the packet-filter state the run left behind, judged like every other session
    if sc.get("client") == "dead" and not res["killed_by"] and not res["hung"] and res["outcome"] in ("RETURN", "FATAL", "CRASH"):
        # judged against the same session without the signal (what that session leaves behind is judged where it is run)
        ref = c04.run_real(kern, plan.method, st_enc, plan.data(cut), [])
        if res["final"] != ref["final"] and not info["faults"]:
            ctx.violation(F120_WHAT, dict({"plan": plan.as_dict(), "cut": cut, "faults": [], "state": st_enc, "defect": "F120",
                                           "finding_id": "F120", "final": res["final"][:600]}, **rep_extra))
            c04.known_once(ctx, "F120", F120_WHAT)      # (printed only if the lead registers it instead of applying F120.diff)
            # the code as found against the model as found (Model/FwEnv.v session_sig_asfound, c04_signal_relay_asfound_refuted)
            if bodies is not None and sc["at"][0] == "teardown" and not plan.method.startswith("pf") and not quiet:
                line = "SESSIONA %d %s %d - %s" % (sc["at"][1], c04.cfg_fields(plan, bodies, True), cut, st_enc)
                m = c04.parse_session(ctx.run_driver([line])[0])
                a = ([t for t in res["trace"] if t != "M:started"], res["final"], res["ncmds"])
                b = ([t for t in m["trace"] if t != "M:started"], m["final"], m["ncmds"])
                ctx.count("f120_runs_compared_with_the_as_found_model")
                if a != b:
                    first = next((i for i, (x, y) in enumerate(zip(a[0] + ["<end>"], b[0] + ["<end>"])) if x != y), None)
                    ctx.disagree("helper whose signal handler raises vs session_sig_asfound", note,
                                 {"ncmds": res["ncmds"], "trace_at": a[0][first:first + 3] if first is not None else None, "final": res["final"][:300]},
                                 {"ncmds": m["ncmds"], "trace_at": b[0][first:first + 3] if first is not None else None, "final": m["final"][:300]})
    else:
        c04.oracle(ctx, kern, plan, info, res)
    dirty = len(ctx.violations) > before
    if res["hung"]:
        ctx.violation("the helper did not end after the control channel was closed (it had to be killed by the check)",
                      dict({"plan": plan.as_dict(), "cut": cut, "faults": info["faults"], "state": st_enc}, **rep_extra))
    if res["killed_by"] and not dirty and not quiet:
        ctx.disagree("the helper was killed by a signal (nothing was left behind in this run)", note, res["killed_by"],
                     "SIGHUP/SIGPIPE ignored, SIGINT/SIGTERM relayed: the helper ends by itself")
    if res["outcome"] == "ESCAPE" and not dirty and not quiet and sc.get("client") != "dead":
        ctx.disagree("a signal handler of the helper raised into firewall.main", note, res.get("crash"), "handlers return")
    # the wait for the relayed signal above is a wall-clock wait; on a heavily loaded machine the signal can arrive
    # after it.  The helper's own record of its os.kill calls (reported at its end) is not timing dependent: a relay
    # that is on that record was made.
    relayed = len([k for k in res["kills"] if k == [os.getpid(), int(signal.SIGINT)]])
    if res["relay_missing"] and relayed >= res["relay_expected"]:
        res["notes"].append("%d relayed signal(s) arrived after the wait (machine under load)" % res["relay_missing"])
        res["relay_missing"] = 0
    if res["relay_missing"] and not res["killed_by"] and not quiet:
        ctx.disagree("SIGINT/SIGTERM received by the helper after GO was not relayed to the client as SIGINT", note,
                     {"expected": res["relay_expected"], "missing": res["relay_missing"], "kill_calls": res["kills"]},
                     "os.kill(<pid of the GO line>, SIGINT) per signal")
    wrong = [k for k in res["kills"] if k != [os.getpid(), int(signal.SIGINT)] and k[0] != DEAD_PID]
    if wrong and not quiet:
        ctx.disagree("the helper sent a signal other than SIGINT to the client's pid", note, wrong, [os.getpid(), int(signal.SIGINT)])
    return len(ctx.violations) - before


def compare_with_inprocess(ctx, c04, kern, plan, st_enc, sc, res):
    """signals are invisible: same commands, same final state as the in-process run cut at the equivalent line"""
    cut = cut_equivalent(plan, sc)
    ref = c04.run_real(kern, plan.method, st_enc, plan.data(cut), sc.get("faults") or [])
    a = ([t for t in res["trace"] if t != "M:started"], res["final"], res["ncmds"], res["fin_at"])
    b = ([t for t in ref["trace"] if t != "M:started"], ref["final"], ref["ncmds"], ref["fin_at"])
    oc = {"RETURN": "RETURN", "FATAL": "FATAL", "CRASH": "CRASH"}.get(res["outcome"], res["outcome"])
    if a != b or (oc != ref["outcome"] and not res["killed_by"] and not res["hung"]):
        first = next((i for i, (x, y) in enumerate(zip(a[0] + ["<end>"], b[0] + ["<end>"])) if x != y), None)
        ctx.disagree("helper under signals vs the signal-free in-process session: outcome / trace / final state",
                     {"plan": plan.desc(), "scenario": describe(sc, plan)},
                     {"outcome": res["outcome"], "crash": res.get("crash"), "killed_by": res["killed_by"], "ncmds": res["ncmds"],
                      "first_diff_at": first, "trace_at": a[0][first:first + 3] if first is not None else None,
                      "stderr_tail": res["stderr"][-300:], "notes": res["notes"]},
                     {"outcome": ref["outcome"], "ncmds": ref["ncmds"], "cut": cut,
                      "trace_at": b[0][first:first + 3] if first is not None else None})


SIGNAL_SETS = [["SIGHUP"], ["SIGPIPE"], ["SIGTERM"], ["SIGINT"], ["SIGHUP", "SIGTERM"], ["SIGINT", "SIGTERM"],
               ["SIGHUP", "SIGHUP", "SIGPIPE"], ["SIGPIPE", "SIGINT"], ["SIGTERM", "SIGHUP"]]
DEATHS = [{"hup": True, "stderr": True, "unread": False}, {"hup": True, "stderr": False, "unread": True},
          {"hup": False, "stderr": True, "unread": True}, {"hup": False, "stderr": False, "unread": False},
          {"hup": True, "stderr": True, "unread": True}]


def scenarios(rng, quick, plan, N, fin_at):
    nl, nh = len(plan.lines()), len(plan.header())
    out = []

    def sc(at, sent, signals=None, death=None, **kw):
        d = {"at": at, "sent": sent, "signals": signals or [], "death": death, "v": rng.choice([0, 1, 2, 2]), "faults": []}
        d.update(kw)
        out.append(d)
    setup_ks = list(range(fin_at))
    td_ks = list(range(fin_at, N))
    # before GO: nothing is known of the client yet; the helper must neither die nor act
    for i in (rng.sample(range(nh), 2) if quick else range(nh)):
        sc(["dialogue", i], i, rng.choice(SIGNAL_SETS), rng.choice([None, None] + DEATHS))
    # during set-up
    for k in (rng.sample(setup_ks, min(3, len(setup_ks))) if quick else setup_ks):
        sc(["setup", k], nl, rng.choice(SIGNAL_SETS), None)
    for k in (rng.sample(setup_ks, min(3, len(setup_ks))) if quick else rng.sample(setup_ks, min(12, len(setup_ks)))):
        sc(["setup", k], nl, rng.choice([[], ["SIGHUP"], ["SIGPIPE"], ["SIGTERM"]]), rng.choice(DEATHS))
    # while waiting
    for s in (SIGNAL_SETS if not quick else rng.sample(SIGNAL_SETS, 3)):
        sc(["waiting"], rng.randint(nh, nl), s, None)
    for d in (DEATHS if not quick else rng.sample(DEATHS, 3)):
        sc(["waiting"], rng.randint(nh, nl), rng.choice([[], ["SIGHUP"], ["SIGINT"]]), d)
    # during tear-down
    for k in (rng.sample(td_ks, min(4, len(td_ks))) if quick else td_ks):
        sc(["teardown", k], rng.randint(nh, nl), rng.choice(SIGNAL_SETS), None)
    # with a failing command as well / setsid refused
    if N:
        sc(["waiting"], nl, ["SIGHUP", "SIGTERM"], None, faults=[rng.choice(td_ks)] if td_ks else [])
        sc(["setup", rng.choice(setup_ks) if setup_ks else 0], nl, ["SIGHUP"], rng.choice(DEATHS), faults=[rng.randrange(N)])
    # the client is gone for good (killed and reaped: the pid of the GO line does not exist) when the helper is signalled
    for k in (rng.sample(td_ks, min(2, len(td_ks))) if quick else td_ks):
        sc(["teardown", k], rng.randint(nh, nl), [rng.choice(["SIGTERM", "SIGINT"])], None, client="dead")
    sc(["waiting"], nl, [rng.choice(["SIGTERM", "SIGINT"])], None, client="dead")
    if setup_ks:
        sc(["setup", rng.choice(setup_ks)], nl, ["SIGTERM"], rng.choice(DEATHS), client="dead")
    sc(["waiting"], nl, ["SIGINT"], None, leader=True)
    sc(["teardown", rng.choice(td_ks) if td_ks else 0], nl, ["SIGHUP", "SIGPIPE"], None, leader=True, v=2)
    return out


def signal_dimension(ctx, c04, rng, quick, kern, plan, bodies, st_enc, base):
    if os.getuid() != 0:
        ctx.notes.append("signal dimension skipped: the check does not run as root (setup_daemon demands it)")
        ctx.count("signal_dimension_skipped_not_root")
        return
    plan = copy.copy(plan)
    plan.hosts, plan.bogus = 2, False
    N, fin_at = base["ncmds"], base["fin_at"]
    for sc in scenarios(rng, quick, plan, N, fin_at):
        res = run_child(c04, kern, plan, st_enc, sc)
        ctx.count("signal_runs")
        ctx.count("signal_at_%s" % sc["at"][0])
        for s in sc["signals"]:
            ctx.count("signal_sent_%s" % s)
        if sc.get("death"):
            ctx.count("signal_client_death")
            if sc["death"].get("unread"):
                ctx.count("signal_client_death_with_unread_data")
        if res["relays"]:
            ctx.count("signal_relays_received_by_the_client", res["relays"])
        if sc.get("leader"):
            ctx.count("signal_helper_is_group_leader_setsid_refused")
        if sc.get("client") == "dead":
            ctx.count("signal_while_the_client_pid_no_longer_exists")
        ctx.case(("signals", plan.desc(), json.dumps(sc, sort_keys=True), st_enc), nontrivial=True,
                 sample={"kind": "signals", "plan": plan.desc(), "scenario": describe(sc, plan), "outcome": res["outcome"],
                         "commands": res["ncmds"], "relayed_SIGINTs": res["relays"]} if len(ctx.samples) < 6 and sc["signals"] else None)
        judge(ctx, c04, kern, plan, st_enc, sc, res, bodies=bodies)
        if sc.get("client") != "dead":      # (there the relay fails: only the final state is judged)
            compare_with_inprocess(ctx, c04, kern, plan, st_enc, sc, res)
        if res["ready"] is None and not res["killed_by"]:
            ctx.disagree("the helper never announced READY", describe(sc, plan), res.get("crash"), "READY <method>")


def replay(ctx, c04, kern, plan, r):
    sc = r["signals"]
    res = run_child(c04, kern, plan, r["state"], sc)
    print("scenario:", describe(sc, plan))
    print("helper: outcome=%s crash=%s killed_by=%s hung=%s commands=%d relayed=%d" % (
        res["outcome"], res.get("crash"), res["killed_by"], res["hung"], res["ncmds"], res["relays"]))
    n = judge(ctx, c04, kern, plan, r["state"], sc, res, quiet=True)
    for what, _ in ctx.violations[-n:] if n else []:
        print("still fails:", what)
    return n > 0
