"""C14 — only sshuttle's own marked lines in the hosts file ever change.

Correspondence: the real sshuttle.firewall.rewrite_etc_hosts / restore_etc_hosts
run on a scratch directory (sshuttle.firewall.HOSTSFILE patched, as the suite
does).  Every file-system primitive is observed (and, for crash points and
interleavings, gated) through sys.addaudithook (open, os.link, os.chown,
os.chmod, os.rename, shutil.copyfile) plus recording wrappers for the three
operations the audit hook does not see (os.stat, os.path.exists, and
write/close of the temporary file through sshuttle.firewall.open).  The
extracted Coq model (coq/Model/HostsFile.v) is run on the same cases; primitive
traces, final directory contents (data, owner, mode, inode identity) and crash
states are compared.  Section F starts from what an earlier crashed call left
behind (crash at every primitive, or a planted temporary of arbitrary content)
and then runs complete calls: each must install exactly (lines it found minus
own marked lines) + own marked lines (oracle on the real code alone; the model
runs the same histories through the driver command ST).  Section H runs the REAL
firewall.main - one thread per helper, its control channel fed line by line -
over update histories in which names repeat with the same or another address,
interleaved with other names and with other helpers' HOST lines, and the same
histories through rewrite_etc_hosts directly; oracle: one marked line per
distinct name at the address of its LAST update (c14_session_last_address), the
map main() hands over is compared with the model's hm_after.  Hosts files of
ARBITRARY bytes (not valid UTF-8, NUL, CR, very long lines, no final newline) go
through sections A, E and H: every line that does not carry the session's
marker is byte-identical and in order, or nothing at all was touched
(c14_rewrite_any_bytes; the model's utf8_ok is compared with CPython's decoder).

Logging dimension (section H-log): the sessions of section H (real firewall.main,
real rewrite_etc_hosts / restore_etc_hosts, real helpers.log) are also run at
helpers.verbose 0/1/2/3 with sys.stdout / sys.stderr replaced by C04's stream
stand-ins (c04.LogStream) whose k-th operation raises OSError(EIO) /
BrokenPipeError / ValueError, once or from then on - k swept over the operations
of the fault-free run, in particular those after the last HOST line and during
tear-down (a terminal hung up mid-session).  Oracle on the hosts file alone:
running sessions have their marked lines, ended sessions (however main() ended)
have none, every other line is untouched.  Model side: c04_log_total (helpers.log
returns for every OSError / ValueError of its streams) - a theorem of C04, no new
Coq here.
Signals (section H-sig): the real firewall.main in a forked child, dispositions installed by the REAL setup_daemon, a real
signal (SIGTERM / SIGINT / SIGHUP, signal.raise_signal) before every hosts-file primitive of the HOST updates and of the
final rewrite x the answer of os.kill toward the client pid (delivered / ESRCH / EPERM / EINVAL - the latter two are what
Windows answers CTRL_C_EVENT); oracle on the scratch directory once the session has ended: no marked line of the port,
other lines as before, no hosts.<port>.tmp."""
import builtins
import errno
import json
import os
import shutil
import sys
import threading
import time

PROP = "C14"
RULE = ("contents x host maps x ports: hosts files built from comments, ordinary entries, blank/white-space lines, own-marker "
        "lines (marker at the end or in the middle), other ports' markers (1230 vs 12300 vs 123000), near-miss markers, very long "
        "lines, UTF-8 text, control white space; endings none/LF/CRLF/CR/blank lines; empty and missing file; maps of 0..20 entries "
        "with 'ip name' lengths around the 30-column padding; pre-existing backup yes/no; os.link working/failing; owner/mode varied. "
        "Histories of 2-4 instances; every crash point of a call (child process, os._exit at the k-th primitive); a call crashed at every "
        "primitive or a pre-existing temporary of arbitrary content (shorter / as long / longer than the next version, other owner and mode), "
        "THEN complete rewrites/restores by the same or another port, optionally after an edit by the administrator; every merge of two "
        "instances' shared-path primitives (threads gated at each primitive).  Update histories of 1-3 helpers through the real "
        "firewall.main control channel (and through rewrite_etc_hosts directly): names repeated with the same address, another "
        "address, the address of another host, back to an earlier address, other keys differing in case / by a prefix, sessions "
        "following one another on a port, IPv6/IPv4 port pairs; the same sessions under a logging environment: helpers.verbose 0-3 x the "
        "k-th sys.stderr write/flush (optionally sys.stdout.flush too) raising OSError(EIO) / BrokenPipeError / ValueError once or from "
        "then on, k over every operation of the fault-free run (quick tier: every operation for one session at -vv, else every "
        "point between two control-channel lines + sampled set-up / HOST / tear-down operations).  Foreign contents of arbitrary bytes: Latin-1 text, lone / cut-off / "
        "overlong / surrogate / out-of-range UTF-8 sequences, UTF-16, BOM, NUL, CR inside lines, 70000-byte lines, no final newline, "
        "undecodable bytes inside other ports' and own marked lines.  A case is non-trivial when the file or the map is "
        "non-empty; distinct by content hash")
TRUSTED_BASE = [
    "modelled, not verified: CPython text-mode open().read() (UTF-8, universal newlines), str.rstrip/strip/split/find, '%-30s' and '%d' formatting, sorted() on (name, ip) tuples, buffered text file write/close",
    "the model's utf8_ok (well-formed UTF-8, Unicode table 3-7) stands for CPython's strict UTF-8 decoder; compared on every run (lead byte classes x "
    "continuation bytes at the range borders, random byte strings); decode-then-encode of well-formed UTF-8 is the identity on bytes (the model works on bytes)",
    "section H: setup_daemon, get_method (a method object that does nothing) and flush_systemd_dns_cache of sshuttle.firewall are replaced; the helper's "
    "stdin/stdout are objects of the harness; rewrite_etc_hosts is wrapped only to record the map it is handed",
    "section H-log: sys.stdout / sys.stderr of the process are c04.LogStream objects (write / flush succeed or raise the injected exception, made by "
    "c04.make_exc: OSError with errno EIO, BrokenPipeError with EPIPE, ValueError 'I/O operation on closed file'); helpers.verbose is set directly "
    "(the real option parsing is C15's); the protocol channel to the client is the harness's own object, not sys.stdout, so a stream fault is a pure "
    "logging fault; that helpers.log returns under such faults is NOT re-proved here: theorem c04_log_total (coq/Props/C04.v), tied to the real "
    "helpers.log by C04's log_correspondence",
    "modelled, not verified: POSIX open(O_TRUNC|O_CREAT), link, rename (atomic replacement of the directory entry), chown, chmod, stat; shutil.copyfile (SameFileError on hard-linked source/target)",
    "paths are an inductive type in the model (hosts / backup / per-port temporary): distinct ports give distinct temporary names",
    "in-place writes through a second hard link to the temporary file are not modelled (the temporary is only ever created by open(..., 'w')); "
    "a pre-existing temporary (left by a crashed call, or by anybody) IS part of the start states of model, theorems and harness",
]
ASSUMPTIONS = [
    "the locale encoding is UTF-8 (checked at the start of the run).  A hosts file that does not decode makes rewrite_etc_hosts raise UnicodeDecodeError "
    "at the read, before anything is touched (model: rewrite_dec / c14_rewrite_any_bytes; checked on arbitrary-bytes contents); firewall.main does not "
    "catch it: the helper undoes the packet-filter rules and ends, no host name is added, the client fails at its next HOST line or at clean-up.  The "
    "property sentences are not violated by that (no line is added, removed or altered; no instance is left running) - recorded as an observation, "
    "not as a defect",
    "the trailing white space / all-white-space test of the file involves ASCII white space (and FS/GS/RS/US) only; other Unicode white space at the very "
    "end of the file is stripped by the code as well (observed, documented in the evidence notes, outside the model: such contents are judged by the oracle alone)",
    "os.rename succeeds in the model and the theorems; the real code is ALSO run (section G, implementation-only) with a rename that is refused "
    "(EBUSY: the hosts file is a bind mount, as in a container; EPERM/EACCES: 'locked') — the documented non-atomic shutil.move fallback "
    "(firewall.py:61-67) must still install exactly (old lines minus own marked lines) + own marked lines; atomicity is NOT claimed there "
    "(the code says so itself) — and with a hosts file that cannot be read (EACCES, EIO, EISDIR: firewall.py:33-37): nothing may be touched",
    "host names and addresses handed to rewrite_etc_hosts contain no newline and no '#' (supplied by C19); c14_serial_histories states this hypothesis",
    "no third party modifies the hosts directory while a call runs (other than the sshuttle instances in the schedule)",
    "sections B, C, D, F call rewrite_etc_hosts/restore_etc_hosts the way firewall.main does (hostmap[name]=ip; rewrite / finally: restore); "
    "section H runs firewall.main itself (helpers in one process, one at a time: whole HOST lines interleave, primitives inside a rewrite do not - that is section D)",
    "section H-log: a log stream operation either succeeds or raises OSError(EIO) / BrokenPipeError / ValueError (the classes the logger's guard names: "
    "IOError = OSError, ValueError); --syslog is off (stderr is the terminal / pipe / file the helper was started with); the hosts-file oracle is required "
    "under every such environment for sessions that are in good order with working streams and are sent at least one HOST line",
]

PORTS = [12300, 1230, 123000, 12299, 1, 0, 65535]
_tls = threading.local()
_hook_installed = [False]
_real_stat = os.stat
_real_exists = os.path.exists
_real_link = os.link
_real_open = builtins.open


def hx(b):
    return b.hex() if b else "-"


def marker(port):
    return "# sshuttle-firewall-%d AUTOCREATED" % port


# ----------------------------------------------------------------------------
# observation / gating of primitives

class Rec:
    """per-instance recorder; `gate(rec, index, name)` is called BEFORE each primitive"""

    def __init__(self, world, port, gate=None):
        self.world = world
        self.port = port
        self.events = []
        self.gate = gate
        self.in_copy = False

    def emit(self, name):
        if self.gate is not None:
            self.gate(self, len(self.events), name)
        self.events.append(name)

    def amend(self, suffix):
        self.events[-1] += suffix


def _audit(event, args):
    rec = getattr(_tls, "rec", None)
    if rec is None:
        return
    w = rec.world
    if event == "open":
        path, mode = args[0], args[1]
        if path == w.hosts and mode == "r" and not rec.in_copy:      # copyfile's own opens are part of 'copy'
            rec.emit("read")
        elif path == w.tmp(rec.port) and mode == "w":
            rec.in_copy = False
            rec.emit("open:%d" % rec.port)
    elif event == "os.link":
        rec.emit("link")
    elif event == "shutil.copyfile":
        rec.in_copy = True
        rec.emit("copy")
    elif event == "os.chown":
        rec.emit("chown:%d:%d:%d" % (rec.port, args[1], args[2]))
    elif event == "os.chmod":
        rec.emit("chmod:%d:%d" % (rec.port, args[1] & 0o7777))
    elif event == "os.rename":
        rec.emit("rename:%d" % rec.port)


def _stat(path, *a, **k):
    rec = getattr(_tls, "rec", None)
    if rec is not None and not rec.in_copy and path == rec.world.hosts and not getattr(_tls, "in_exists", False):
        rec.emit("stat")
        try:
            r = _real_stat(path, *a, **k)
        except OSError:
            rec.amend(":0")
            raise
        rec.amend(":1")
        return r
    return _real_stat(path, *a, **k)


def _exists(path):
    rec = getattr(_tls, "rec", None)
    if rec is not None and path == rec.world.bak:
        rec.emit("exists")
        r = _real_exists(path)
        rec.amend(":%d" % (1 if r else 0))
        return r
    return _real_exists(path)


def _link_fail(src, dst, *a, **k):
    rec = getattr(_tls, "rec", None)
    if rec is not None:
        rec.emit("link")
    raise OSError(errno.EPERM, "link not supported (simulated)")


class WFile:
    def __init__(self, f, rec):
        self.f, self.rec = f, rec

    def write(self, s):
        self.rec.emit("write:%d:%s" % (self.rec.port, hx(s.encode("utf-8"))))
        return self.f.write(s)

    def close(self):
        self.rec.emit("close:%d" % self.rec.port)
        return self.f.close()


def _fw_open(path, mode="r", *a, **k):
    rec = getattr(_tls, "rec", None)
    f = _real_open(path, mode, *a, **k)
    if rec is not None and mode == "w":
        return WFile(f, rec)
    return f


class World:
    """scratch directory standing for /etc"""
    n = 0

    def __init__(self, content, uid=0, gid=0, mode=0o644, bak=None, link_ok=True):
        World.n += 1
        base = "/tmp/c14-%d" % os.getpid()
        os.makedirs(base, exist_ok=True)
        self.base = base
        self.dir = os.path.join(base, "w%d" % World.n)
        os.mkdir(self.dir)
        os.mkdir(os.path.join(self.dir, "keep"))
        self.hosts = os.path.join(self.dir, "hosts")
        self.bak = self.hosts + ".sbak"
        self.link_ok = link_ok
        self.ino_h0 = self.ino_b0 = None
        self.desc = (content, uid, gid, mode, bak, link_ok)
        if content is not None:
            with _real_open(self.hosts, "wb") as f:
                f.write(content)
            os.chown(self.hosts, uid, gid)
            os.chmod(self.hosts, mode)
            self.ino_h0 = _real_stat(self.hosts).st_ino
            _real_link(self.hosts, os.path.join(self.dir, "keep", "h0"))   # keeps the inode number from being reused
        if bak is not None:
            with _real_open(self.bak, "wb") as f:
                f.write(bak)
            os.chmod(self.bak, 0o644)
            self.ino_b0 = _real_stat(self.bak).st_ino
            _real_link(self.bak, os.path.join(self.dir, "keep", "b0"))

    def tmp(self, port):
        return "%s.%d.tmp" % (self.hosts, port)

    def fs_tokens(self):
        c, uid, gid, mode, bak, lnk = self.desc
        return "%s %d %d %d %s %d" % ("MISSING" if c is None else hx(c), uid, gid, mode,
                                     "MISSING" if bak is None else hx(bak), 1 if lnk else 0)

    def hosts_bytes(self):
        try:
            with _real_open(self.hosts, "rb") as f:
                return f.read()
        except FileNotFoundError:
            return None

    def snapshot(self):
        """{name: (data, uid, gid, mode, ino)} with names hosts / bak / tmp<port>"""
        out = {}
        for fn in os.listdir(self.dir):
            p = os.path.join(self.dir, fn)
            if fn == "keep":
                continue
            if fn == "hosts":
                nm = "hosts"
            elif fn == "hosts.sbak":
                nm = "bak"
            elif fn.startswith("hosts.") and fn.endswith(".tmp"):
                nm = "tmp" + fn[6:-4]
            else:
                nm = "OTHER:" + fn
            st = _real_stat(p)
            with _real_open(p, "rb") as f:
                out[nm] = (f.read(), st.st_uid, st.st_gid, st.st_mode & 0o7777, st.st_ino)
        return out

    def close(self):
        shutil.rmtree(self.dir, ignore_errors=True)


def cleanup_base():
    shutil.rmtree("/tmp/c14-%d" % os.getpid(), ignore_errors=True)


def canon_snapshot(snap, h0, b0, tmp_prefix_ok=False):
    """canonical text of a snapshot; inode numbers become H0 / B0 / n<k> (k by first appearance in path order)"""
    labels = {}
    if h0 is not None:
        labels[h0] = "H0"
    if b0 is not None:
        labels[b0] = "B0"
    parts = []
    for nm in sorted(snap):
        data, uid, gid, mode, ino = snap[nm]
        if ino not in labels:
            labels[ino] = "n%d" % (len([v for v in labels.values() if v.startswith("n")]) + 1)
        parts.append("%s=%s,%d,%d,%d,%s" % (nm, hx(data), uid, gid, mode, labels[ino]))
    return " ".join(parts)


def parse_model_fs(txt):
    snap = {}
    for tok in txt.split():
        nm, rest = tok.split("=", 1)
        d, uid, gid, mode, ino = rest.split(",")
        snap[nm] = (b"" if d == "-" else bytes.fromhex(d), int(uid), int(gid), int(mode), int(ino))
    return snap


def canon_model_fs(txt, has_h0, has_b0):
    return canon_snapshot(parse_model_fs(txt), 1 if has_h0 else None, 0 if has_b0 else None)


def canon_model_trace(tr, who=False):
    out = []
    for e in (tr.split(",") if tr else []):
        pre = ""
        if who:
            pre, e = e[:2], e[2:]
        k = e.split(":")[0]
        if k in ("read", "link", "copy"):
            e = k
        out.append(pre + e)
    return out


class Patched:
    """install the simulated boundary around sshuttle.firewall for the current process"""

    def __init__(self, fw, world):
        self.fw, self.world = fw, world

    def __enter__(self):
        if not _hook_installed[0]:
            sys.addaudithook(_audit)
            _hook_installed[0] = True
        self.old = (self.fw.HOSTSFILE, os.stat, os.path.exists, os.link, getattr(self.fw, "open", None))
        self.fw.HOSTSFILE = self.world.hosts
        os.stat = _stat
        os.path.exists = _exists
        if not self.world.link_ok:
            os.link = _link_fail
        self.fw.open = _fw_open
        return self

    def __exit__(self, *a):
        self.fw.HOSTSFILE, os.stat, os.path.exists, os.link, o = self.old
        if o is None:
            del self.fw.open
        else:
            self.fw.open = o


def load():
    import sshuttle.firewall as fw
    import sshuttle.helpers as helpers
    helpers.logprefix = "c14: "
    os.umask(0o022)
    return fw


def call_impl(fw, world, port, hm, restore=False, gate=None):
    """run the real function once in this thread; returns (status, events)"""
    rec = Rec(world, port, gate)
    _tls.rec = rec
    status = "done"
    try:
        try:
            if restore:
                fw.restore_etc_hosts(dict(hm), port)
            else:
                fw.rewrite_etc_hosts(dict(hm), port)
        except SystemExit:
            raise
        except Exception as e:
            status = "crash:" + type(e).__name__
    finally:
        _tls.rec = None
    return status, rec.events


def hm_tokens(hm):
    items = list(hm.items()) if isinstance(hm, dict) else list(hm)
    if not items:
        return "."
    return ",".join("%s:%s" % (hx(n.encode()), hx(i.encode())) for n, i in items)


# ----------------------------------------------------------------------------
# the specification side, written directly from the property text (used as the
# oracle on the implementation's behaviour; independent of the extracted model)

ASCII_WS = " \t\n\r\x0b\x0c\x1c\x1d\x1e\x1f"


def decodes(content):
    """does the text-mode read of the code (locale encoding = UTF-8, checked in correspondence()) accept these bytes?"""
    try:
        (content or b"").decode("utf-8")
        return True
    except UnicodeDecodeError:
        return False


def sx(content):
    """bytes -> str, one to one for ARBITRARY bytes (a byte that does not decode becomes a lone surrogate, which is
    neither white space nor part of any marker): comparing such strings is comparing the bytes"""
    return (content or b"").decode("utf-8", "surrogateescape")


def xs(text):
    return text.encode("utf-8", "surrogateescape")


def in_model(content):
    """the Coq model's white space is ASCII white space (+ FS/GS/RS/US); a decodable file whose trailing white space or
    all-blank test involves other Unicode white space is outside it (ASSUMPTIONS) and judged by the oracle alone"""
    if not decodes(content):
        return True                 # rewrite_dec: raises at the read
    t = (content or b"").decode("utf-8").replace("\r\n", "\n").replace("\r", "\n")
    return t.rstrip() == t.rstrip(ASCII_WS) and bool(t.strip()) == bool(t.strip(ASCII_WS))


def spec_norm_lines(content):
    """lines of a hosts file modulo the normalisation the code performs: text-mode newline
    translation, all trailing white space of the file removed, then split at '\\n'"""
    s = sx(content).replace("\r\n", "\n").replace("\r", "\n")
    return s.rstrip().split("\n")


def spec_marked(port, hm):
    return ["%-30s %s" % ("%s %s" % (ip, name), marker(port)) for name, ip in sorted(hm.items())]


def spec_rewrite(content, port, hm):
    lines = [l for l in spec_norm_lines(content) if marker(port) not in l] + spec_marked(port, hm)
    return xs("".join(l + "\n" for l in lines))


def spec_last(upd):
    """the discovered hosts after an update history [(name, ip), ...]: every name once, at the address of its LAST update
    (Props/C14.v c14_map_last_address: hm_get name (hm_after upd) = last_addr name upd)"""
    names = []
    for n, _ in upd:
        if n not in names:
            names.append(n)
    return {n: [ip for m, ip in upd if m == n][-1] for n in names}


def base_lines(content, ports):
    ls = [l for l in spec_norm_lines(content) if not any(marker(p) in l for p in ports)]
    return "\n".join(ls).rstrip().split("\n")


# ----------------------------------------------------------------------------
# generators

def gen_name(rng, n=None):
    n = n or rng.choice([1, 2, 5, 8, 12, 17, 18, 19, 20, 21, 22, 30, 40, 60])
    alpha = "abcdefghijklmnopqrstuvwxyz0123456789-_."
    return "".join(rng.choice(alpha) for _ in range(n))


def gen_ip(rng):
    k = rng.random()
    if k < 0.3:
        return "%d.%d.%d.%d" % tuple(rng.choice([1, 10]) for _ in range(4))
    if k < 0.6:
        return "%d.%d.%d.%d" % tuple(rng.randint(100, 255) for _ in range(4))
    return "%d.%d.%d.%d" % tuple(rng.randint(0, 255) for _ in range(4))


def gen_map(rng, size=None):
    if size is None:
        size = rng.choice([0, 0, 1, 1, 2, 3, 5, 8, 13, 20])
    hm = {}
    while len(hm) < size:
        ip = gen_ip(rng)
        if rng.random() < 0.4:
            # aim 'ip name' at 28..32 characters to exercise the %-30s padding boundary
            name = gen_name(rng, max(1, rng.choice([28, 29, 30, 31, 32]) - len(ip) - 1))
        else:
            name = gen_name(rng)
        hm[name] = ip
    # python dict order = insertion order; shuffle so that sorting matters
    items = list(hm.items())
    rng.shuffle(items)
    return dict(items)


def gen_line(rng, port):
    k = rng.random()
    other = rng.choice([p for p in (port * 10, port // 10, port + 1, port * 10 + 1, 12300, 1230) if p != port])
    if k < 0.2:
        return "%s %s" % (gen_ip(rng), gen_name(rng))
    if k < 0.3:
        return "# " + gen_name(rng) + " comment"
    if k < 0.38:
        return rng.choice(["", " ", "\t", "  \t ", "\x0b", "\x0c \x1c"])
    if k < 0.5:
        return "%-30s %s" % ("%s %s" % (gen_ip(rng), gen_name(rng)), marker(port))          # own line
    if k < 0.58:
        return "x %s y%s" % (marker(port), rng.choice(["", " ", "  # more"]))              # own marker in the middle
    if k < 0.72:
        return "%-30s %s" % ("%s %s" % (gen_ip(rng), gen_name(rng)), marker(other))         # another port's line
    if k < 0.82:
        m = marker(port)
        return "1.1.1.1 near " + rng.choice([m[:-1], m[1:], m.lower(), m.replace(" AUTO", "  AUTO"), m.replace(" AUTO", "AUTO"),
                                             m.replace("-%d" % port, "- %d" % port), m.replace("%d" % port, "%d0" % port) if port else m[:-2],
                                             "# sshuttle-firewall- AUTOCREATED", "#sshuttle-firewall-%d AUTOCREATED" % port])
    if k < 0.86:
        return "# " + "L" * rng.choice([200, 5000, 20000]) + rng.choice(["", " " + marker(port)])
    if k < 0.93:
        return rng.choice(["# café 日本語", "10.0.0.1 hôte", " x", "#   sep"])
    return "127.0.0.1 localhost" + rng.choice(["", " ", " \t", "\x0b"])


def gen_content(rng, port):
    k = rng.random()
    if k < 0.04:
        return None
    if k < 0.08:
        return b""
    if k < 0.12:
        return rng.choice([b"\n", b"\n\n\n", b" ", b" \t\n \n", b"\r\n", b"\r", b"\x0c\n"])
    n = rng.choice([1, 1, 2, 3, 5, 9, 20])
    lines = [gen_line(rng, port) for _ in range(n)]
    if rng.random() < 0.05:
        lines = [l for l in lines if marker(port) in l] or [marker(port)]      # only own lines
    term = rng.choice(["\n", "\n", "\n", "\r\n", "\r"])
    mixed = rng.random() < 0.1
    s = ""
    for i, l in enumerate(lines):
        s += l
        if i < len(lines) - 1:
            s += rng.choice(["\n", "\r\n", "\r"]) if mixed else term
    s += rng.choice(["", term, term, term * 3, term + " \t" + term, " ", term + "\x0c"])
    return s.encode("utf-8")


RAW_LINES = [
    "# Caf\xe9 printer, added by J\xf6rg (Latin-1 editor)".encode("latin-1"),      # Latin-1 text on a UTF-8 system
    b"10.1.1.1 h\xf4te.example  # h\xf4te",
    b"\x80", b"\xbf lone continuation", b"\xc3", b"10.0.0.7 cut\xe2\x82", b"\xc0\x80 overlong", b"\xe0\x80\x80", b"\xed\xa0\x80 surrogate",
    b"\xf4\x90\x80\x80 too high", b"\xf5\x80\x80\x80", b"\xfe\xff", b"\xff", b"\xc3\x28", b"ok \xc3\xa9 then \xe9",
    "10.0.0.8 wide".encode("utf-16-le"),                                              # NULs, and FF FE with a BOM
    b"\xff\xfe1\x000\x00", b"10.0.0.9 a\x00b", b"\x00", b"\x00\x00\x00 # nul", b"1.2.3.4 x\x00",
    "\ufeff127.0.0.1 bom".encode("utf-8"), "10.2.2.2 caf\xe9 \u65e5\u672c\u8a9e \U0001f600".encode("utf-8"),
    b"# \x1b[31m escape \x07 \x7f", b"\x01\x02\x03", b"tab\there \x0b\x0c",
]


def gen_raw_line(rng, port):
    k = rng.random()
    if k < 0.45:
        return rng.choice(RAW_LINES)
    if k < 0.65:
        return bytes(rng.choice([c for c in range(256) if c != 10]) for _ in range(rng.choice([1, 2, 3, 8, 40])))   # any byte but LF (CR, NUL included)
    if k < 0.72:
        return b"# " + b"L" * rng.choice([5000, 70000]) + rng.choice([b"", b"\xe9", b" \xc3\xa9", b"\x00"])            # very long line
    if k < 0.80:
        return b"a\rb " + rng.choice([b"", b"\xe9", b"\r", b"\r\r c"])                                                  # CR inside a line
    other = rng.choice([q for q in (port * 10, port // 10, port + 1, 12300, 1230) if q != port])
    if k < 0.90:
        return ("%-30s %s" % ("10.3.3.3 ot\xe9", marker(other))).encode("latin-1")                                       # another port's line, undecodable
    if k < 0.95:
        return ("%-30s %s" % ("10.4.4.4 st\xe9", marker(port))).encode("latin-1")                                        # a stale own line, undecodable
    return rng.choice(["1.2.3.4 nbsp\xa0", "\u2003", "\x85", "x\u2028y", "\u3000 \xa0"]).encode("utf-8")                   # Unicode white space (decodes)


def gen_bytes_content(rng, port):
    """foreign file contents of arbitrary bytes: not valid UTF-8, NUL, CR, very long lines, no final newline, ..."""
    n = rng.choice([1, 1, 2, 3, 5, 9])
    lines = []
    for _ in range(n):
        lines.append(gen_raw_line(rng, port) if rng.random() < 0.5 else gen_line(rng, port).encode("utf-8"))
    if not any(not decodes(l) or b"\x00" in l or b"\r" in l or len(l) > 4000 for l in lines):
        lines[rng.randrange(len(lines))] = rng.choice(RAW_LINES)
    term = rng.choice([b"\n", b"\n", b"\n", b"\r\n", b"\r"])
    out = term.join(lines)
    return out + rng.choice([b"", b"", term, term, term * 3, b" ", term + b" \t" + term])


# ----------------------------------------------------------------------------
# A. single calls: trace + final directory, model vs real; oracle = spec_rewrite

def run_single(ctx, fw, cases):
    lines, impl, meta = [], [], []
    for (content, port, hm, bak, lnk, uid, gid, mode, restore) in cases:
        w = World(content, uid, gid, mode, bak, lnk)
        try:
            snap0 = w.snapshot()
            with Patched(fw, w):
                status, ev = call_impl(fw, w, port, hm, restore)
            snap = w.snapshot()
            impl.append((status, ev, canon_snapshot(snap, w.ino_h0, w.ino_b0), snap.get("hosts", (None,))[0], snap == snap0))
            lines.append("%s %d %s %s" % ("RSD" if restore else "RWD", port, hm_tokens(hm), w.fs_tokens()))
            meta.append((content, port, hm, bak, lnk, restore))
        finally:
            w.close()
    out = ctx.run_driver(lines)
    for ln, (status, ev, fs, newhosts, untouched), o, (content, port, hm, bak, lnk, restore) in zip(lines, impl, out, meta):
        parts = [x.strip() for x in o.split("|")]
        mpc, mtr, mfs = parts
        if restore:
            mpc = "crash" if mpc == "1" else "done"
        und = not decodes(content)
        mfs_c = canon_model_fs(mfs, content is not None, bak is not None)
        desc = ("single", content, port, tuple(sorted(hm.items())), bak, lnk, restore)
        ctx.case(desc, nontrivial=bool(content) or bool(hm),
                 sample={"kind": "restore" if restore else "rewrite", "port": port,
                         "old": None if content is None else content[:120].decode("utf-8", "replace"),
                         "map": dict(list(hm.items())[:3]), "primitives": ev[:4] + ["..."] + ev[-3:],
                         "new": (newhosts or b"")[:200].decode("utf-8", "replace")})
        ok = (status.split(":")[0] == mpc and ev == canon_model_trace(mtr) and fs == mfs_c) or not in_model(content)
        # the property oracle on the implementation alone
        if restore and not hm:
            want = content
        else:
            want = spec_rewrite(content, port, {} if restore else hm)
        holds = (newhosts == want)
        if und and not (restore and not hm):
            # bytes that do not decode: the call may give up, but then NOTHING may have been touched (hosts file
            # byte-identical and the same inode, no backup, no temporary); or it completes and every line is copied
            # byte for byte (c14_rewrite_any_bytes)
            ctx.count("single_call_on_undecodable_content")
            holds = (status.startswith("crash:") and untouched) or (status == "done" and newhosts == want)
            if not holds:
                ctx.violation("hosts file holding bytes that do not decode: a line that does not carry this port's marker was altered "
                              "(the file must be left untouched or every such line copied byte for byte)",
                              {"kind": "single", "content_hex": hx(content), "port": port, "map": dict(hm), "restore": restore,
                               "status": status, "got_hex": None if newhosts is None else hx(newhosts), "want_hex": hx(want),
                               "undecodable": True})
        if not ok:
            ctx.disagree("rewrite_etc_hosts trace/final state", ln[:600],
                         {"status": status, "events": ev[:40], "fs": fs[:600]},
                         {"pc": mpc, "events": canon_model_trace(mtr)[:40], "fs": mfs_c[:600]}, holds)
        if not holds and not und:
            ctx.violation("hosts file after one rewrite is not (old lines minus own marked lines) + own marked lines",
                          {"kind": "single", "content_hex": None if content is None else hx(content), "port": port,
                           "map": dict(hm), "restore": restore, "got_hex": None if newhosts is None else hx(newhosts),
                           "want_hex": hx(want) if want is not None else None})


# ----------------------------------------------------------------------------
# B. histories of several instances

def run_histories(ctx, fw, n):
    rng = ctx.rng
    lines, impl, meta = [], [], []
    for _ in range(n):
        ports = rng.sample(PORTS[:5], rng.choice([1, 2, 2, 3, 4]))
        content = gen_content(rng, ports[0])
        w = World(content, 0, 0, 0o644, None, True)
        maps = {p: {} for p in ports}
        alive = set(ports)
        hops, after = [], []
        try:
            with Patched(fw, w):
                for _ in range(rng.randint(1, 10)):
                    if not alive:
                        break
                    p = rng.choice(sorted(alive))
                    if rng.random() < 0.2:
                        # firewall.main, finally block
                        st, _ = call_impl(fw, w, p, maps[p], restore=True)
                        maps[p] = {}
                        alive.discard(p)
                        hops.append(("E", p))
                    else:
                        name = rng.choice(sorted(maps[p])) if maps[p] and rng.random() < 0.25 else gen_name(rng)
                        ip = gen_ip(rng)
                        maps[p][name] = ip                          # firewall.main: hostmap[name] = ip
                        st, _ = call_impl(fw, w, p, maps[p])
                        hops.append(("H", p, name, ip))
                    after.append((w.hosts_bytes(), {q: dict(m) for q, m in maps.items()}, set(alive), st))
            impl.append(after)
            lines.append("HI %s %s" % (w.fs_tokens(), " ".join(
                "E:%d" % h[1] if h[0] == "E" else "H:%d:%s:%s" % (h[1], hx(h[2].encode()), hx(h[3].encode())) for h in hops)))
            meta.append((content, ports, hops))
        finally:
            w.close()
    out = ctx.run_driver(lines)
    for ln, after, o, (content, ports, hops) in zip(lines, impl, out, meta):
        model = o.split(";") if o else []
        got = [hx(a[0]) if a[0] is not None else "MISSING" for a in after]
        ctx.case(("hist", content, tuple(hops)), nontrivial=len(hops) > 1,
                 sample={"kind": "history", "ports": ports, "hops": [list(h) for h in hops][:6],
                         "final": (after[-1][0] or b"")[:200].decode("utf-8", "replace")} if len(hops) > 2 else None)
        ctx.count("history_len_%d" % len(hops))
        holds = True
        b0 = base_lines(content, ports)
        for k, (data, maps, alive, st) in enumerate(after):
            if st != "done":
                holds = False
                break
            if base_lines(data, ports) != b0:
                holds = False
            ls = spec_norm_lines(data)
            for p in ports:
                mine = [l for l in ls if marker(p) in l]
                started = any(h[0] == "H" and h[1] == p for h in hops[:k + 1])
                if started and mine != spec_marked(p, maps[p]):
                    holds = False
            if not holds:
                ctx.violation("serial history: base lines changed or an instance's marked lines differ from its map",
                              {"kind": "history", "content_hex": None if content is None else hx(content),
                               "hops": [list(h) for h in hops[:k + 1]], "got_hex": hx(data) if data is not None else None})
                break
        if got != model:
            ctx.disagree("serial history", ln[:800], got[:12], model[:12], holds)


# ----------------------------------------------------------------------------
# C. crash points: child process exits at the k-th primitive, for every k

def run_crashes(ctx, fw, cases):
    lines, impl, meta = [], [], []
    for (content, port, hm, bak, lnk) in cases:
        # reference run: how many primitives, and the complete next version
        w = World(content, 0, 0, 0o644, bak, lnk)
        with Patched(fw, w):
            status, ev = call_impl(fw, w, port, hm)
        full = w.hosts_bytes()
        w.close()
        for k in range(len(ev) + 1):
            w = World(content, 0, 0, 0o644, bak, lnk)
            try:
                sys.stdout.flush()
                sys.stderr.flush()
                pid = os.fork()
                if pid == 0:
                    try:
                        def gate(rec, idx, name, k=k):
                            if idx >= k:
                                os._exit(0)
                        with Patched(fw, w):
                            call_impl(fw, w, port, hm, gate=gate)
                    finally:
                        os._exit(0 if k == len(ev) else 3)
                _, rc = os.waitpid(pid, 0)
                snap = w.snapshot()
                impl.append((snap, w.ino_h0, w.ino_b0, rc))
                lines.append("CR %d %d %s %s" % (k, port, hm_tokens(hm), w.fs_tokens()))
                meta.append((content, port, hm, bak, lnk, k, full, ev))
            finally:
                w.close()
        ctx.count("crash_cases")
    out = ctx.run_driver(lines)
    for ln, (snap, h0, b0, rc), o, (content, port, hm, bak, lnk, k, full, ev) in zip(lines, impl, out, meta):
        mpc, mtr, mfs = [x.strip() for x in o.split("|")]
        msnap = parse_model_fs(mfs)
        ctx.case(("crash", content, port, tuple(sorted(hm.items())), bak, lnk, k), nontrivial=True,
                 sample={"kind": "crash", "k": k, "of": len(ev), "before": ev[k] if k < len(ev) else "(end)",
                         "hosts": (snap.get("hosts", (b"",))[0] or b"")[:80].decode("utf-8", "replace"),
                         "paths": sorted(snap)} if k in (len(ev) - 1,) else None)
        ctx.count("crash_points")
        # buffered writes: the real temporary holds a prefix of what the model has written
        tmpn = "tmp%d" % port
        ok = sorted(snap) == sorted(msnap) and rc == 0
        if ok and tmpn in snap:
            ok = msnap[tmpn][0].startswith(snap[tmpn][0]) and snap[tmpn][1:4] == msnap[tmpn][1:4]
            snap = dict(snap)
            msnap = dict(msnap)
            snap[tmpn] = (b"",) + snap[tmpn][1:]
            msnap[tmpn] = (b"",) + msnap[tmpn][1:]
        ok = ok and canon_snapshot(snap, h0, b0) == canon_snapshot(msnap, 1 if content is not None else None, 0 if bak is not None else None)
        hosts_now = snap.get("hosts", (None,))[0]
        holds = hosts_now in (content, full) and all(n in ("hosts", "bak", tmpn) for n in snap)
        if not ok:
            ctx.disagree("state at crash point", ln[:600], canon_snapshot(snap, h0, b0)[:600],
                         canon_snapshot(msnap, 1 if content is not None else None, 0 if bak is not None else None)[:600], holds)
        if not holds:
            ctx.violation("a crash between two primitives leaves neither the previous nor the next complete hosts file",
                          {"kind": "crash", "content_hex": None if content is None else hx(content), "port": port,
                           "map": dict(hm), "k": k, "bak_hex": None if bak is None else hx(bak), "link_ok": lnk,
                           "got_hex": None if hosts_now is None else hx(hosts_now)})


# ----------------------------------------------------------------------------
# F. what an earlier crashed call left behind: a call of one port stops at every primitive (child process), or a
#    temporary of arbitrary content simply exists already; THEN complete rewrites / restores by the same or
#    another port (optionally after the administrator has edited the hosts file).  Oracle on the implementation
#    alone: every complete call installs spec_rewrite(hosts file it found) and leaves no temporary of its own,
#    whatever scratch files were there.  The model runs the same histories (driver command ST).

def op_token(op):
    k = op[0]
    if k == "T":
        return "T/%d/%s/%d/%d/%d" % (op[1], hx(op[2]), op[3], op[4], op[5])
    if k == "A":
        return "A/%s" % hx(op[1])
    if k == "C":
        return "C/%d/%d/%s" % (op[1], op[2], hm_tokens(op[3]))
    return "%s/%d/%s" % (k, op[1], hm_tokens(op[2]))


def op_json(op):
    return [x.hex() if isinstance(x, bytes) else x for x in op]


def op_from_json(j):
    j = list(j)
    if j[0] == "T":
        j[2] = bytes.fromhex(j[2])
    elif j[0] == "A":
        j[1] = bytes.fromhex(j[1])
    return tuple(j)


def crash_child(fw, w, port, hm, k):
    """the real call in a child process that exits (no flush, no clean-up) just before its k-th primitive"""
    sys.stdout.flush()
    sys.stderr.flush()
    pid = os.fork()
    if pid == 0:
        try:
            def gate(rec, idx, name):
                if idx >= k:
                    os._exit(0)
            with Patched(fw, w):
                call_impl(fw, w, port, hm, gate=gate)
        finally:
            os._exit(0)
    _, rc = os.waitpid(pid, 0)
    return rc


def apply_op(fw, w, op):
    """perform one op of a stale-temporary history on the real code / the scratch directory; -> status"""
    k = op[0]
    if k == "T":
        _, port, data, uid, gid, mode = op
        with _real_open(w.tmp(port), "wb") as f:
            f.write(data)
        os.chown(w.tmp(port), uid, gid)
        os.chmod(w.tmp(port), mode)
        return "done"
    if k == "A":
        # the administrator saves an edited hosts file (write beside + rename, owner and mode kept)
        try:
            st = _real_stat(w.hosts)
            meta = (st.st_uid, st.st_gid, st.st_mode & 0o7777)
        except FileNotFoundError:
            meta = (0, 0, 0o644)
        side = os.path.join(w.dir, "keep", "edit")
        with _real_open(side, "wb") as f:
            f.write(op[1])
        os.chown(side, meta[0], meta[1])
        os.chmod(side, meta[2])
        os.rename(side, w.hosts)
        return "done"
    if k == "C":
        rc = crash_child(fw, w, op[2], op[3], op[1])
        return "done" if rc == 0 else "child:%d" % rc
    with Patched(fw, w):
        st, _ = call_impl(fw, w, op[1], op[2], restore=(k == "S"))
    return st


def judge_stale_step(w, op, before, after, status, names_after):
    """property oracle for one op, on the implementation's behaviour alone; -> None or text"""
    k = op[0]
    if status != "done":
        return "call ended with %s" % status
    if k in ("T", "A"):
        return None
    if k == "C":
        port, hm = op[2], op[3]
        if after not in (before, spec_rewrite(before, port, hm)):
            return "a crash between two primitives leaves neither the previous nor the next complete hosts file"
        return None
    port, hm = op[1], op[2]
    if k == "S" and not hm:
        want = before
    else:
        want = spec_rewrite(before, port, {} if k == "S" else hm)
    if after != want:
        return "hosts file after a complete call is not (lines it found minus own marked lines) + own marked lines"
    if not (k == "S" and not hm) and ("tmp%d" % port) in names_after:
        return "a complete call left its temporary behind"
    return None


def run_stale_history(fw, content, bak, lnk, ops):
    """-> (per-op records [(before, after, status, verdict)], final snapshot, world ids, fs tokens, sizes)"""
    w = World(content, 0, 0, 0o644, bak, lnk)
    recs = []
    longer = None
    try:
        for op in ops:
            before = w.hosts_bytes()
            if op[0] == "R" and longer is None:
                try:
                    longer = os.path.getsize(w.tmp(op[1])) - len(spec_rewrite(before, op[1], op[2]))
                except OSError:
                    pass
            st = apply_op(fw, w, op)
            after = w.hosts_bytes()
            names = set(w.snapshot())
            recs.append((before, after, st, judge_stale_step(w, op, before, after, st, names)))
        return recs, w.snapshot(), (w.ino_h0, w.ino_b0), w.fs_tokens(), longer
    finally:
        w.close()


def stale_tails(rng, content, port, hm):
    """what follows the crashed / planted state: [(ops...)], aiming at next versions shorter AND longer than the stale temporary"""
    other = rng.choice([p for p in PORTS[:5] if p != port])
    small = dict(list(hm.items())[:1]) or {"n": "10.9.9.9"}
    small2 = {gen_name(rng, 3): gen_ip(rng)}
    big = dict(hm)
    for _ in range(3):
        big[gen_name(rng)] = gen_ip(rng)
    lines = spec_norm_lines(content)
    fewer = ("\n".join(l for i, l in enumerate(lines) if i % 3 == 0 and marker(port) not in l) + "\n").encode("utf-8")
    more = ((content or b"").rstrip(b"\r\n \t") + b"\n10.20.30.40 added.by.admin admin\n# note\n")
    try:
        more.decode("utf-8")
    except UnicodeDecodeError:
        more = b"10.20.30.40 added.by.admin admin\n"
    tails = [
        [("R", port, small2)],                                                    # next session, same port, fewer hosts: shorter
        [("A", fewer), ("R", port, small2), ("S", port, small2)],                 # administrator deleted lines in between; session ends
        [("R", port, big), ("R", port, small), ("S", port, small)],                # longer, then shorter
        [("A", more), ("R", port, big)],                                          # longer
        [("R", other, small2), ("R", port, small2), ("S", other, small2), ("S", port, small2)],   # another port first
        [("S", port, hm or small), ("R", port, {})],                              # restore of the dead session's map; empty rewrite
    ]
    return tails


def stale_junk(rng, content, port, hm_next):
    """contents for a pre-existing temporary, sized around the next version (shorter / equal / longer) and holding what
    must never get into the hosts file: a line fragment, deleted foreign lines, marked lines of this and another port"""
    nxt = spec_rewrite(content, port, hm_next)
    tail = ("8 printer.example.org printer\n10.0.0.9 decommissioned-a.example.org olda\n%-30s %s\n%-30s %s\n"
            % ("192.168.1.1 alpha", marker(port), "192.168.1.2 beta", marker(1230 if port != 1230 else 12300))).encode()
    out = [nxt + tail, nxt + b"X", nxt[:-1] if nxt else b"", nxt, b"", tail * rng.choice([1, 3, 40]),
           b"Z" * (len(nxt) + rng.choice([1, 2, 8191, 8192, 8193, 70000])), nxt + b"no newline at the end",
           (nxt + tail)[1:], b"\x00" * (len(nxt) + 5)]
    return out


def run_stale(ctx, fw, n_crash, n_plant):
    rng = ctx.rng
    hist = []           # (content, bak, lnk, ops, kind)
    fixed = [(b"127.0.0.1 localhost\n10.0.0.8 printer.example.org printer\n10.0.0.9 decommissioned-a.example.org olda\n"
              b"10.0.0.10 decommissioned-b.example.org oldb\n", 12300, {"alpha": "192.168.1.1", "beta": "192.168.1.2", "gamma": "192.168.1.3"}, None, True),
             (b"127.0.0.1 localhost\n", 12300, {"a": "1.1.1.1"}, None, False),
             (None, 1230, {"a": "1.1.1.1", "bb": "2.2.2.2"}, None, True),
             (b"L" * 9000 + b"\nkeep\n", 12300, {"a": "1.1.1.1"}, b"bak\n", True)]
    ccases = list(fixed)
    for _ in range(n_crash):
        port = rng.choice(PORTS[:5])
        ccases.append((gen_content(rng, port), port, gen_map(rng, rng.choice([1, 2, 4, 8])), rng.choice([None, None, b"bak\n"]), rng.random() < 0.7))
    for ci, (content, port, hm, bak, lnk) in enumerate(ccases):
        # reference run: the primitives of the call that is going to crash
        w = World(content, 0, 0, 0o644, bak, lnk)
        with Patched(fw, w):
            _, ev = call_impl(fw, w, port, hm)
        w.close()
        tails = stale_tails(rng, content, port, hm)
        if ci >= len(fixed):
            tails = rng.sample(tails, 2)
        for k in range(len(ev) + 1):
            for t in (tails if (ci < len(fixed) or k >= len(ev) - 4) else tails[:1]):
                hist.append((content, bak, lnk, [("C", k, port, hm)] + t, "crash_then_complete"))
        ctx.count("stale_crash_cases")
    for _ in range(n_plant):
        port = rng.choice(PORTS[:5])
        content = gen_content(rng, port)
        hm = gen_map(rng, rng.choice([0, 1, 2, 5]))
        junk = stale_junk(rng, content, port, hm)
        for data in (junk if _ < 4 else rng.sample(junk, 3)):
            uid, gid, mode = rng.choice([(0, 0, 0o644), (0, 0, 0o600), (1000, 50, 0o400), (0, 0, 0o666)])
            ops = [("T", port, data, uid, gid, mode)]
            if rng.random() < 0.3:
                q = rng.choice([p for p in PORTS[:5] if p != port])
                ops.append(("T", q, rng.choice(junk), 0, 0, 0o644))
            ops.append(("R", port, hm))
            if rng.random() < 0.6:
                ops += rng.choice(stale_tails(rng, content, port, hm))
            hist.append((content, rng.choice([None, None, b"bak\n"]), rng.random() < 0.8, ops, "planted_then_complete"))
    lines, impl = [], []
    for content, bak, lnk, ops, kind in hist:
        recs, snap, ids, fstok, longer = run_stale_history(fw, content, bak, lnk, ops)
        impl.append((recs, snap, ids))
        lines.append("ST %s %s" % (fstok, " ".join(op_token(o) for o in ops)))
        ctx.count("stale_" + kind)
        if longer is not None:
            ctx.count("stale_temporary_%s_than_next_version" % ("longer" if longer > 0 else "shorter" if longer < 0 else "as_long"))
    out = ctx.run_driver(lines)
    for (content, bak, lnk, ops, kind), (recs, snap, (h0, b0)), ln, o in zip(hist, impl, lines, out):
        ctx.case(("stale", content, bak, lnk, tuple(op_token(x) for x in ops)), nontrivial=True,
                 sample={"kind": kind, "ops": [op_token(x)[:60] for x in ops][:5],
                         "final_hosts": (recs[-1][1] or b"")[:160].decode("utf-8", "replace")}
                 if (ops[0][0] == "C" and ops[0][1] >= 9 and len(ops) == 4) else None)
        bad = [(i, r) for i, r in enumerate(recs) if r[3] is not None]
        holds = not bad
        # --- model vs implementation: hosts after every op, final directory
        try:
            mh, mfs = [x.strip() for x in o.split("|")]
        except ValueError:
            mh, mfs = o, ""
        got = ";".join(hx(r[1]) if r[1] is not None else "MISSING" for r in recs)
        ok = (got == mh)
        if ok:
            msnap = parse_model_fs(mfs)
            rsnap = dict(snap)
            crashed_port = ops[0][2] if ops[0][0] == "C" else None
            ok = sorted(rsnap) == sorted(msnap)
            tn = "tmp%s" % crashed_port
            if ok and tn in rsnap and not any(x[0] in ("R", "S") and x[1] == crashed_port and not (x[0] == "S" and not x[2]) for x in ops[1:]):
                # buffered writes: the real temporary of the crashed call holds a prefix of what the model has written
                ok = msnap[tn][0].startswith(rsnap[tn][0])
                rsnap[tn] = (b"",) + rsnap[tn][1:]
                msnap[tn] = (b"",) + msnap[tn][1:]
            ok = ok and canon_snapshot(rsnap, h0, b0) == canon_snapshot(msnap, 1 if content is not None else None, 0 if bak is not None else None)
        if not ok:
            ctx.disagree("history after a crashed call / over a pre-existing temporary", ln[:700],
                         {"hosts": got[:400], "fs": canon_snapshot(snap, h0, b0)[:500]}, {"hosts": mh[:400], "fs": mfs[:500]}, holds)
        if bad:
            i, (before, after, st, why) = bad[0]
            ctx.violation(("after a call that crashed between two primitives: " if ops[0][0] == "C" else "over a pre-existing temporary: ") + why,
                          {"kind": "stale", "content_hex": None if content is None else hx(content), "bak_hex": None if bak is None else hx(bak),
                           "link_ok": lnk, "ops": [op_json(x) for x in ops[:i + 1]], "failed_op": i,
                           "found_hex": None if before is None else hx(before), "got_hex": None if after is None else hx(after)})


# ----------------------------------------------------------------------------
# D. interleavings of two instances: threads gated at every primitive

SHARED = ("read", "stat", "exists", "link", "copy", "rename")


class Sched:
    """runs two real calls in two threads; `choose(avail)` picks who executes its next primitive"""

    def __init__(self, fw, world, jobs):
        self.fw, self.world, self.jobs = fw, world, jobs
        self.cv = threading.Condition()
        self.turn = None
        self.waiting = {}       # who -> name of the primitive it is about to perform
        self.finished = {}
        self.order = []         # (who, name) in execution order

    def _gate_for(self, who):
        def gate(rec, idx, name):
            with self.cv:
                self.waiting[who] = name
                self.cv.notify_all()
                while self.turn != who:
                    self.cv.wait()
                self.turn = None
                del self.waiting[who]
                self.order.append((who, name))
        return gate

    def _worker(self, who):
        port, hm, restore = self.jobs[who]
        st, ev = call_impl(self.fw, self.world, port, hm, restore, gate=self._gate_for(who))
        with self.cv:
            self.finished[who] = (st, ev)
            self.cv.notify_all()

    def run(self, choose):
        """choose(avail: dict who->next primitive name) -> who"""
        ths = [threading.Thread(target=self._worker, args=(w,), daemon=True) for w in (0, 1)]
        for t in ths:
            t.start()
        while True:
            with self.cv:
                while len(self.waiting) + len(self.finished) < 2 or self.turn is not None:
                    if not self.cv.wait(timeout=20):
                        raise RuntimeError("scheduler stuck: waiting=%r finished=%r" % (self.waiting, list(self.finished)))
                if len(self.finished) == 2:
                    break
                who = choose(dict(self.waiting))
                self.turn = who
                self.cv.notify_all()
        for t in ths:
            t.join(5)
        return self.order, self.finished


def run_one_schedule(fw, case, decisions):
    """decisions: list of 0/1 consumed at each point where both instances are at a SHARED primitive or
    must be moved there; private primitives (tmp open/write/close/chown/chmod) run eagerly.
    Returns (order, finished, snapshot, world-ids, n_alternatives per decision)"""
    content, ja, jb, bak, lnk = case
    w = World(content, 0, 0, 0o644, bak, lnk)
    alts = []
    dec = list(decisions)

    def choose(avail):
        # run private primitives eagerly (they commute with everything of the other instance)
        for who in sorted(avail):
            if avail[who].split(":")[0] not in SHARED:
                return who
        if len(avail) == 1:
            return next(iter(avail))
        alts.append(2)
        return dec.pop(0) if dec else 0
    try:
        with Patched(fw, w):
            order, fin = Sched(fw, w, {0: ja, 1: jb}).run(choose)
        snap = w.snapshot()
        return order, fin, snap, (w.ino_h0, w.ino_b0), len(alts), w.fs_tokens()
    finally:
        w.close()


def all_schedules(fw, case, limit=None, rng=None):
    """stateless depth-first enumeration of every decision sequence"""
    stack = [[]]
    n = 0
    while stack:
        prefix = stack.pop()
        res = run_one_schedule(fw, case, prefix)
        nalt = res[4]
        # extend: positions beyond the prefix defaulted to 0; schedule alternatives 1 there
        for pos in range(len(prefix), nalt):
            stack.append(prefix + [0] * (pos - len(prefix)) + [1])
        yield prefix + [0] * (nalt - len(prefix)), res
        n += 1
        if limit and n >= limit:
            return


def check_interleaving(ctx, case, decisions, res, lines, pend):
    content, ja, jb, bak, lnk = case
    order, fin, snap, (h0, b0), nalt, fstok = res
    bits = "".join(str(w) for w, _ in order)
    lines.append("SC %s %d %s %d %s %s" % (bits, ja[0], hm_tokens({} if ja[2] else ja[1]), jb[0],
                                           hm_tokens({} if jb[2] else jb[1]), fstok))
    pend.append((case, decisions, order, fin, snap, h0, b0))


def judge_interleavings(ctx, lines, pend, f8_seen):
    out = ctx.run_driver(lines)
    for ln, o, (case, decisions, order, fin, snap, h0, b0) in zip(lines, out, pend):
        content, ja, jb, bak, lnk = case
        pcs, mtr, mfs = [x.strip() for x in o.split("|")]
        st = "%s %s" % (fin[0][0].split(":")[0], fin[1][0].split(":")[0])
        ev = [("A." if w == 0 else "B.") + nm for w, nm in order]
        # outcomes of stat/exists are amended after the gate; take them from the per-instance logs
        per = {0: list(fin[0][1]), 1: list(fin[1][1])}
        ev = [("A." if w == 0 else "B.") + per[w].pop(0) for w, _ in order]
        real_fs = canon_snapshot(snap, h0, b0)
        model_fs = canon_model_fs(mfs, content is not None, bak is not None)
        ok = (st == pcs and ev == canon_model_trace(mtr, who=True) and real_fs == model_fs)
        ctx.case(("sched", content, ja[0], tuple(sorted(ja[1].items())), ja[2], jb[0], tuple(sorted(jb[1].items())), jb[2],
                  bak, lnk, tuple(w for w, _ in order)), nontrivial=True,
                 sample={"kind": "interleaving", "order": ev[:30], "final_hosts": (snap.get("hosts", (b"",))[0] or b"")[:200].decode("utf-8", "replace")}
                 if len(ev) > 8 and decisions and sum(decisions) == 3 else None)
        ctx.count("interleavings")
        # oracle on the implementation: what any serial order would give for the marked lines, base preserved
        data = snap.get("hosts", (None,))[0]
        ports = [ja[0], jb[0]]
        crashed = "crash" in st
        base_ok = base_lines(data, ports) == base_lines(content, ports)
        ls = spec_norm_lines(data)
        lost = []
        for (port, hm, restore) in (ja, jb):
            mine = [l for l in ls if marker(port) in l]
            want = [] if restore else spec_marked(port, hm)
            if mine != want:
                lost.append(port)
        complete = data is not None and data.endswith(b"\n")
        holds = base_ok and complete and not lost and not crashed
        if not ok:
            ctx.disagree("interleaving", ln[:700], {"status": st, "events": ev[:50], "fs": real_fs[:500]},
                         {"status": pcs, "events": canon_model_trace(mtr, who=True)[:50], "fs": model_fs[:500]}, holds)
        if not base_ok or not complete:
            ctx.violation("interleaving: a base line was lost or altered, or an incomplete file was installed",
                          {"kind": "sched", "case": case_json(case), "bits": "".join(str(w) for w, _ in order),
                           "got_hex": hx(data or b"")})
        elif lost or crashed:
            f8_seen.append((case, decisions, ev, data, lost, st))
            ctx.count("interleavings_with_lost_update" if lost else "interleavings_with_SameFileError")
            ctx.violation("lost update / resurrection between concurrent instances (no locking around read-modify-rename)",
                          {"kind": "sched", "finding_id": "F8", "case": case_json(case),
                           "bits": "".join(str(w) for w, _ in order),
                           "order": ev, "status": st, "ports_with_wrong_lines": lost, "got_hex": hx(data or b"")})


def case_json(case):
    content, ja, jb, bak, lnk = case
    return {"content_hex": None if content is None else hx(content), "a": [ja[0], dict(ja[1]), ja[2]],
            "b": [jb[0], dict(jb[1]), jb[2]], "bak_hex": None if bak is None else hx(bak), "link_ok": lnk}


def case_from_json(j):
    def b(x):
        return None if x is None else (b"" if x == "-" else bytes.fromhex(x))
    return (b(j["content_hex"]), (j["a"][0], dict(j["a"][1]), j["a"][2]), (j["b"][0], dict(j["b"][1]), j["b"][2]),
            b(j["bak_hex"]), j["link_ok"])


F8_WITNESS = (b"127.0.0.1 localhost\n", (12300, {"a": "10.0.0.1"}, False), (12301, {"b": "10.0.0.2"}, False), None, True)   # = f8_s0, f8_ma, f8_mb of the Coq witness
F8_RESURRECT = (("127.0.0.1 localhost\n%-30s %s\n" % ("10.0.0.1 a", marker(12300))).encode(),
                (12300, {"a": "10.0.0.1"}, True), (12301, {"b": "10.0.0.2"}, False), None, True)              # = f8_s1


def f8_schedule(first_reader):
    """other instance's read happens before `first_reader`'s rename: lost update"""
    state = {"phase": 0}

    def choose(avail):
        # let B read first, then A run to completion, then B
        if 1 in avail and avail[1].split(":")[0] == "read":
            return 1
        if 0 in avail:
            return 0
        return 1
    return choose


def run_f8_witness(ctx, fw, case):
    """the schedule of the Coq witness (read-B, whole call of A, rest of B) on the real code, and the
    model on the bits actually executed"""
    content, ja, jb, bak, lnk = case
    w = World(content, 0, 0, 0o644, bak, lnk)
    try:
        with Patched(fw, w):
            order, fin = Sched(fw, w, {0: ja, 1: jb}).run(f8_schedule(1))
        data = w.hosts_bytes()
        real_fs = canon_snapshot(w.snapshot(), w.ino_h0, w.ino_b0)
        bits = "".join(str(x) for x, _ in order)
        o = ctx.run_driver(["SC %s %d %s %d %s %s" % (bits, ja[0], hm_tokens({} if ja[2] else ja[1]), jb[0],
                                                      hm_tokens({} if jb[2] else jb[1]), w.fs_tokens())])[0]
        mfs = canon_model_fs(o.split("|")[2].strip(), content is not None, bak is not None)
        if mfs != real_fs:
            ctx.disagree("F8 witness schedule", bits, real_fs[:600], mfs[:600], None)
        return order, fin, data
    finally:
        w.close()


# ----------------------------------------------------------------------------
# E. what the real code does outside the model: undecodable bytes, Unicode white space

def run_outside_model(ctx, fw):
    notes = []
    for content, what in ((b"127.0.0.1 localhost\n# caf\xe9 latin-1\n", "non-UTF-8 byte"),
                          (b"\xff\xfe", "non-UTF-8 only"),
                          (b"1.2.3.4 a\n\xc2\xa0\n", "trailing U+00A0"),
                          (b"1.2.3.4 a\xe2\x80\x83\n", "trailing U+2003 on last line"),
                          (b"1.2.3.4 a\xc2\x85", "trailing U+0085")):
        w = World(content, 0, 0, 0o644, None, True)
        try:
            with Patched(fw, w):
                st, ev = call_impl(fw, w, 12300, {"h": "1.1.1.1"})
            after = w.hosts_bytes()
            snap = w.snapshot()
            m = ctx.run_driver(["NEW 12300 %s %s" % (hm_tokens({"h": "1.1.1.1"}), hx(content))])[0]
            model_new = b"" if m == "-" else bytes.fromhex(m)
            ctx.count("outside_model_stream")
            if not decodes(content):
                untouched = (after == content and sorted(snap) == ["hosts"] and snap["hosts"][4] == w.ino_h0)
                want = spec_rewrite(content, 12300, {"h": "1.1.1.1"})
                notes.append("%s: the real code %s; hosts file untouched=%s, no temporary/backup created=%s%s"
                             % (what, "raises %s at the read" % st.split(":")[1] if st.startswith("crash") else "completes",
                                after == content, sorted(snap) == ["hosts"],
                                "; the HOST loop of firewall.main ends with that error: the helper undoes the packet-filter rules and exits, "
                                "no host name is ever added (the client then fails at its next HOST line / at clean-up)" if st.startswith("crash") else ""))
                if not ((st.startswith("crash") and untouched) or (st == "done" and after == want)):
                    ctx.violation("hosts file holding bytes that do not decode: a line that does not carry this port's marker was altered "
                                  "(the file must be left untouched or every such line copied byte for byte)",
                                  {"kind": "single", "content_hex": hx(content), "port": 12300, "map": {"h": "1.1.1.1"}, "restore": False,
                                   "status": st, "got_hex": hx(after or b""), "want_hex": hx(want), "undecodable": True})
            elif st.startswith("crash"):
                ctx.violation("rewrite_etc_hosts ended with %s on a hosts file that decodes" % st,
                              {"kind": "single", "content_hex": hx(content), "port": 12300, "map": {"h": "1.1.1.1"}, "restore": False,
                               "status": st, "got_hex": hx(after or b""), "want_hex": hx(spec_rewrite(content, 12300, {"h": "1.1.1.1"}))})
            else:
                notes.append("%s: real result %s the ASCII-white-space model (real %r)" %
                             (what, "equals" if after == model_new else "differs from", after[:60]))
                # safety still must hold: every non-blank old line is still there
                old = [l for l in content.decode("utf-8").split("\n") if l.strip()]
                new = after.decode("utf-8")
                if not all(l.strip() in new for l in old):
                    ctx.violation("Unicode white space: a non-blank line vanished", {"kind": "unicode_ws", "content_hex": hx(content), "got_hex": hx(after)})
        finally:
            w.close()
    ctx.notes += notes


# ----------------------------------------------------------------------------
# G. the file system refuses: the hosts file cannot be read (firewall.py:33-37), the rename is refused (61-67)

def run_refused(ctx, fw, n):
    import io
    import random
    rng = random.Random("C14-refused-%d" % ctx.seed)        # own stream: the other sections keep their cases
    real_rename = os.rename
    for i in range(n):
        port = rng.choice(PORTS)
        content = gen_content(rng, port)
        while content is None:
            content = gen_content(rng, port)
        hm = gen_map(rng, rng.choice([0, 1, 2, 5]))
        restore = rng.random() < 0.25 and bool(hm)
        bak = rng.choice([None, b"bak\n"])
        uid, gid, mode = rng.choice([(0, 0, 0o644), (1000, 1000, 0o600), (0, 4, 0o664)])
        kind = "unreadable" if i % 3 == 0 else "rename"
        err = rng.choice([errno.EACCES, errno.EIO, errno.EISDIR, errno.EPERM]) if kind == "unreadable" else \
            rng.choice([errno.EBUSY, errno.EBUSY, errno.EPERM, errno.EACCES, errno.EXDEV])
        w = World(content, uid, gid, mode, bak, rng.random() < 0.8)
        old_err = sys.stderr
        try:
            sys.stderr = io.StringIO()
            with Patched(fw, w):
                try:
                    if kind == "unreadable":
                        def failing_open(path, mode="r", *a, **k):
                            if path == w.hosts and mode == "r":
                                raise OSError(err, os.strerror(err), path)
                            return _fw_open(path, mode, *a, **k)
                        fw.open = failing_open
                    else:
                        def refusing(src, dst, *a, **k):
                            if dst == w.hosts:
                                raise OSError(err, os.strerror(err), src, None, dst)
                            return real_rename(src, dst, *a, **k)
                        os.rename = refusing
                    status, ev = call_impl(fw, w, port, hm, restore)
                finally:
                    os.rename = real_rename
            warned = "non-atomic" in sys.stderr.getvalue()
        finally:
            sys.stderr = old_err
        after = w.hosts_bytes()
        snap = w.snapshot()
        w.close()
        ctx.count("refused_%s_errno_%s" % (kind, errno.errorcode[err]))
        ctx.case(("refused", kind, err, content, port, tuple(sorted(hm.items())), restore), nontrivial=True,
                 sample={"kind": "refused-" + kind, "errno": errno.errorcode[err], "status": status,
                         "new": (after or b"")[:160].decode("utf-8", "replace")} if i < 2 else None)
        rp = {"kind": "refused", "what": kind, "errno": err, "content_hex": hx(content), "port": port, "map": dict(hm),
              "restore": restore, "got_hex": None if after is None else hx(after)}
        if kind == "unreadable":
            untouched = (after == content and not any(k.startswith("tmp") for k in snap)
                         and snap.get("hosts", (None,) * 5)[1:4] == (uid, gid, mode) and ("bak" in snap) == (bak is not None))
            if not untouched:
                ctx.violation("a hosts file that could not be read was replaced or a temporary / backup was left beside it", rp)
            elif not status.startswith("crash:"):
                ctx.disagree("rewrite_etc_hosts on an unreadable hosts file", errno.errorcode[err], status, "the error propagates (firewall.py:37)")
        else:
            want = spec_rewrite(content, port, {} if restore else hm)
            if after != want:
                ctx.violation("rename refused: the hosts file after the documented non-atomic fallback is not (old lines minus own marked "
                              "lines) + own marked lines", dict(rp, want_hex=hx(want), status=status))
            else:
                left = sorted(k for k in snap if k.startswith("tmp"))
                meta = snap["hosts"][1:4]
                if status != "done" or left or meta != (uid, gid, mode) or not warned:
                    ctx.disagree("rename refused: fallback status / left-over temporary / owner+mode / warning",
                                 {"errno": errno.errorcode[err], "port": port},
                                 {"status": status, "left": left, "owner_mode": meta, "warned": warned},
                                 {"status": "done", "left": [], "owner_mode": (uid, gid, mode), "warned": True}, True)


# ----------------------------------------------------------------------------
# H. update histories through the REAL firewall.main: every helper is the real main() in its own thread, its control
#    channel (stdin) is fed line by line by the scheduler here - ROUTES .. GO, then HOST lines in which names repeat with the
#    same / another address, interleaved with other names and with the HOST lines of other helpers (other ports), then
#    end of input.  Each time a helper comes back for its next line the scratch directory is looked at.  Only
#    setup_daemon (needs root, detaches), get_method (no packet filter here) and flush_systemd_dns_cache are replaced;
#    rewrite_etc_hosts is wrapped to see the map main() hands over (compared with the model's hm_after).
#    Oracle, from the property text and Props/C14.v (c14_session_last_address, c14_map_last_address), on the files alone:
#    lines without a marker of the scenario's ports never change; a running instance that has been sent HOST lines has
#    exactly one marked line per distinct name, at the address of the name's LAST update, sorted; an ended instance has
#    none; starting a helper and ending one that never got a HOST line do not touch the file.  A hosts file that does
#    not decode may make the helper give up - then nothing at all may have been touched (c14_rewrite_any_bytes).

class FakeMethod:
    name = "fake"

    def is_supported(self):
        return True

    def setup_firewall(self, *a):
        pass

    def restore_firewall(self, *a):
        pass

    def wait_for_firewall_ready(self, *a):
        raise NotImplementedError()

    def firewall_command(self, line):
        return False


class _Sink:
    def __init__(self):
        self.data = b""

    def write(self, b):
        self.data += b
        return len(b)

    def flush(self):
        pass


class Helper(threading.Thread):
    """one real firewall.main(); the scheduler feeds its control channel one line at a time"""

    def __init__(self, fw, pv6, pv4):
        threading.Thread.__init__(self, daemon=True)
        import queue
        self.fw, self.pv6, self.pv4 = fw, pv6, pv4
        self.port = pv6 or pv4
        self.events = queue.Queue()
        self.lines = queue.Queue()
        self.stdout = _Sink()
        self.maps_seen = []          # (items of the map in dict order, port) at every call of rewrite_etc_hosts
        self.status = None
        self.upd = []                # HOST updates sent so far

    # -- the helper's side (its stdin)
    def readline(self, *a):
        self.events.put("ask")
        return self.lines.get()

    def run(self):
        _tls.helper = self
        try:
            try:
                self.fw.main("fake", False)
                st = "return"
            except BaseException as e:        # noqa: Fatal, UnicodeDecodeError, SystemExit ...
                st = "crash:" + type(e).__name__
        finally:
            _tls.helper = None
        self.status = st
        self.events.put("end")

    # -- the scheduler's side
    def wait(self):
        ev = self.events.get(timeout=60)
        if ev == "end":
            self.join(10)
        return ev

    def feed(self, line):
        self.lines.put(line)
        return self.wait()


class MainPatched:
    """the three replacements firewall.main needs to run here + the observing wrapper around rewrite_etc_hosts"""

    def __init__(self, fw):
        self.fw = fw

    def __enter__(self):
        fw = self.fw
        self.old = (fw.setup_daemon, fw.get_method, fw.flush_systemd_dns_cache, fw.rewrite_etc_hosts, fw.sshuttle_pid)
        real = fw.rewrite_etc_hosts

        def spy(hostmap, port):
            h = getattr(_tls, "helper", None)
            if h is not None:
                h.maps_seen.append((list(hostmap.items()), port))
            return real(hostmap, port)

        def daemon():
            h = _tls.helper
            return (h, h.stdout)
        fw.setup_daemon = daemon
        fw.get_method = lambda name: FakeMethod()
        fw.flush_systemd_dns_cache = lambda: None
        fw.rewrite_etc_hosts = spy
        return self

    def __exit__(self, *a):
        fw = self.fw
        fw.setup_daemon, fw.get_method, fw.flush_systemd_dns_cache, fw.rewrite_etc_hosts, fw.sshuttle_pid = self.old


def preamble(pv6, pv4):
    import socket
    return [b"ROUTES\n", b"%d,24,0,10.77.0.0,0,0\n" % socket.AF_INET, b"NSLIST\n",
            b"PORTS %d,%d,0,0\n" % (pv6, pv4), b"GO 0 - - 0x01 %d\n" % os.getpid()]


def run_main_scenario(fw, content, lnk, ops, logenv=None):
    """ops: ["S", i, port_v6, port_v4] start helper i | ["H", i, name, ip] one HOST line | ["E", i] end of its input |
            ["D", port, name, ip] hostmap[name] = ip; rewrite_etc_hosts called directly | ["X", port] restore_etc_hosts directly.
    logenv: a LogEnv (section H-log) - sys.stdout / sys.stderr of the process are then its failing streams and
            helpers.verbose its verbosity for the whole scenario (the helpers run one at a time, so the operation
            count is deterministic).
    -> (records per op [(status, hosts bytes, snapshot)], initial snapshot, {i: maps_seen}, world ids, fs tokens)"""
    w = World(content, 0, 0, 0o644, None, lnk)
    helpers, recs, direct = {}, [], {}
    if logenv is not None:
        logenv.install()
    try:
        snap0 = w.snapshot()
        with Patched(fw, w), MainPatched(fw):
            try:
                for op in ops:
                    k = op[0]
                    if logenv is not None:
                        logenv.step = len(recs)
                    if k == "S":
                        h = helpers[op[1]] = Helper(fw, op[2], op[3])
                        h.start()
                        st = h.wait()
                        for ln in preamble(op[2], op[3]):
                            if st != "ask":
                                break
                            st = h.feed(ln)
                        st = "ask" if st == "ask" and h.stdout.data.endswith(b"STARTED\n") else (h.status or "no STARTED")
                    elif k == "H":
                        h = helpers[op[1]]
                        if h.status is not None:
                            st = "gone"
                        else:
                            h.upd.append((op[2], op[3]))
                            st = h.feed(("HOST %s,%s\n" % (op[2], op[3])).encode("ascii"))
                            st = "ask" if st == "ask" else h.status
                    elif k == "E":
                        h = helpers[op[1]]
                        if h.status is not None:
                            st = "gone"
                        else:
                            h.feed(b"")
                            st = h.status or "still running after end of input"
                    elif k == "D":
                        hm = direct.setdefault(op[1], {})
                        hm[op[2]] = op[3]                         # what firewall.main does (firewall.py:383)
                        st, _ = call_impl(fw, w, op[1], hm)
                    else:
                        st, _ = call_impl(fw, w, op[1], direct.get(op[1], {}), restore=True)
                        direct[op[1]] = {}
                    recs.append((st, w.hosts_bytes(), w.snapshot()))
                    if logenv is not None:
                        logenv.marks.append((logenv.ops, logenv.ops_all))
            finally:
                if logenv is not None:
                    logenv.step = None
                for h in helpers.values():          # nobody is left waiting
                    if h.status is None:
                        h.lines.put(b"")
                        h.join(10)
        return recs, snap0, {i: h.maps_seen for i, h in helpers.items()}, (w.ino_h0, w.ino_b0), w.fs_tokens()
    finally:
        if logenv is not None:
            logenv.remove()
        w.close()


def judge_main_scenario(content, ops, recs, snap0):
    """the oracle, on the scratch directory alone; -> None or (index of the op, what)"""
    und = not decodes(content)
    port_of = {}                 # helper -> port
    upd = {}                     # port -> update history of the session of that port that is running (None: no session)
    ever = set()                 # ports whose own marked lines of the initial file have been replaced by a session
    gone = set()                 # helpers that gave up (tolerated only on an undecodable file)
    ports = sorted({(op[2] or op[3]) if op[0] == "S" else op[1] for op in ops if op[0] in ("S", "D", "X")})
    prev = snap0
    for k, (op, (st, data, snap)) in enumerate(zip(ops, recs)):
        kind = op[0]
        touched = snap != prev
        if kind in ("H", "E") and op[1] in gone:
            if touched:
                return k, "nothing was asked of any helper, yet the hosts directory changed"
            prev = snap
            continue
        crashed = st.startswith("crash:") or st in ("no STARTED",)
        if crashed:
            if not (und and st == "crash:UnicodeDecodeError"):
                return k, "firewall.main / rewrite_etc_hosts ended with %s on %s" % (
                    st, "a hosts file that decodes" if not und else "a hosts file holding bytes that do not decode")
            if touched:
                return k, ("hosts file holding bytes that do not decode: the helper gave up, but not before touching the "
                           "hosts directory (must be untouched: same bytes, same inode, no backup, no temporary)")
            if kind in ("S", "H", "E"):
                gone.add(op[1])
                if kind != "S" and port_of.get(op[1]) is not None:
                    upd[port_of[op[1]]] = None
            prev = snap
            continue
        if kind == "S":
            port_of[op[1]] = op[2] or op[3]
            upd[port_of[op[1]]] = []
            if st != "ask":
                return k, "helper did not report STARTED (%s)" % st
            if touched:
                return k, "starting a session changed the hosts directory before any host was discovered"
        elif kind in ("H", "D"):
            p = port_of[op[1]] if kind == "H" else op[1]
            if upd.get(p) is None:
                upd[p] = []
            upd[p].append((op[2], op[3]))
            ever.add(p)
            if (kind == "H" and st != "ask") or (kind == "D" and st != "done"):
                return k, "HOST line not processed (%s)" % st
        else:
            p = port_of[op[1]] if kind == "E" else op[1]
            had = bool(upd.get(p))
            upd[p] = None
            if (kind == "E" and st != "return") or (kind == "X" and st != "done"):
                return k, "session end: %s" % st
            if not had and touched:
                return k, "ending a session that never added a host changed the hosts directory"
        prev = snap
        if any(n.startswith("tmp") or n.startswith("OTHER") for n in snap):
            return k, "a complete call left a temporary behind"
        if base_lines(data, ports) != base_lines(content, ports):
            return k, "update history: a line without any session's marker was altered, lost or moved%s" % (
                " (hosts file holding bytes that do not decode: it must be left untouched or every such line copied byte for byte)" if und else "")
        ls = spec_norm_lines(data)
        for p in ports:
            mine = [l for l in ls if marker(p) in l]
            if upd.get(p):
                want = spec_marked(p, spec_last(upd[p]))
                if mine != want:
                    names = [n for n, _ in upd[p]]
                    rep = len(names) != len(set(names))
                    return k, ("update history%s: the running instance's marked lines are not one line per discovered host "
                               "at the address of the host's LAST update" % (" with a repeated name" if rep else ""))
            elif p in ever:
                if mine:
                    return k, "session end: marked lines of the ended session are still in the hosts file"
            elif mine != [l for l in spec_norm_lines(content) if marker(p) in l]:
                return k, "lines left by an earlier session of this port changed before this session discovered any host"
    return None


IP_POOL = ["10.0.0.1", "10.0.0.2", "10.0.0.3", "192.168.1.1", "192.168.100.200", "1.1.1.1", "255.255.255.255"]


def gen_main_scenario(rng, arb, direct=False):
    hports = [12300, 1230, 2300, 12299, 1, 65535, 12301]        # what PORTS can carry: 0..65535
    nh = rng.choice([1, 1, 1, 2, 2, 3])
    ports = rng.sample(hports, nh)
    content = gen_bytes_content(rng, ports[0]) if arb else gen_content(rng, ports[0])
    pool = [gen_name(rng, rng.choice([1, 3, 5, 8, 19])) for _ in range(rng.choice([1, 2, 3, 4]))]
    pool += [pool[0].upper() or "A", pool[0] + "x", pool[0][:-1] or "p"]       # other keys: case, extension, prefix
    ops, alive, cur = [], [], {}
    pend = list(range(nh))
    pv = {}
    nsteps = rng.choice([2, 3, 4, 6, 9, 14])
    nxt = nh
    for _ in range(nsteps + nh):
        r = rng.random()
        if pend and (not alive or r < 0.3):
            i = pend.pop(0)
            p = ports[i] if i < nh else pv[i]
            v6 = rng.random() < 0.3
            q = rng.choice([0, 0, 4000 + i])
            if not direct:
                ops.append(["S", i, p if v6 else 0, q if v6 else p])
            alive.append((i, p))
            cur[i] = {}
            continue
        if not alive:
            break
        i, p = rng.choice(alive)
        if r > 0.9:
            ops.append(["X", p] if direct else ["E", i])
            alive.remove((i, p))
            if rng.random() < 0.5:              # a later session on the port just freed
                pv[nxt] = p
                pend.append(nxt)
                nxt += 1
            continue
        known = sorted(cur[i])
        if known and rng.random() < 0.55:
            name = rng.choice(known)           # a name this instance already recorded ...
            t = rng.random()
            if t < 0.3:
                ip = cur[i][name]              # ... reported again with the same address
            elif t < 0.5 and len(set(cur[i].values())) > 1:
                ip = rng.choice(sorted(set(cur[i].values()) - {cur[i][name]}))   # ... now at the address of another host
            else:
                ip = rng.choice(IP_POOL + [gen_ip(rng)])                        # ... moved (maybe back to an earlier address)
        else:
            name = rng.choice(pool) if rng.random() < 0.8 else gen_name(rng)
            ip = rng.choice(IP_POOL + [gen_ip(rng)])
        cur[i][name] = ip
        ops.append(["D", p, name, ip] if direct else ["H", i, name, ip])
    for i, p in alive:
        ops.append(["X", p] if direct else ["E", i])
    return content, rng.random() < 0.8, ops


MAIN_FIXED = [
    # the address of a host changes while the session runs
    (b"127.0.0.1 localhost\n# a comment line\n192.168.7.7 printer   # sshuttle-firewall-4711 AUTOCREATED\n10.9.9.9 fileserver\n", True,
     [["S", 0, 0, 12300], ["H", 0, "alpha", "10.0.0.1"], ["H", 0, "beta", "10.0.0.2"], ["H", 0, "alpha", "10.0.0.3"], ["E", 0]]),
    (b"127.0.0.1 localhost\n", True,
     [["S", 0, 0, 12300], ["H", 0, "a", "10.0.0.1"], ["H", 0, "a", "10.0.0.1"], ["H", 0, "a", "10.0.0.2"], ["H", 0, "a", "10.0.0.1"], ["E", 0]]),
    (b"127.0.0.1 localhost\n", False,
     [["S", 0, 12300, 4000], ["S", 1, 0, 1230], ["H", 0, "a", "10.0.0.1"], ["H", 1, "a", "10.0.0.9"], ["H", 0, "b", "10.0.0.2"],
      ["H", 1, "a", "10.0.0.1"], ["H", 0, "a", "10.0.0.2"], ["E", 0], ["H", 1, "b", "10.0.0.1"], ["S", 2, 0, 12300], ["H", 2, "a", "10.0.0.7"],
      ["E", 1], ["E", 2]]),
    (None, True, [["S", 0, 0, 12300], ["E", 0], ["S", 1, 0, 12300], ["H", 1, "x", "1.1.1.1"], ["H", 1, "X", "1.1.1.2"], ["H", 1, "x", "1.1.1.3"], ["E", 1]]),
    (b"127.0.0.1 localhost\n", True, [["D", 12300, "alpha", "10.0.0.1"], ["D", 12300, "beta", "10.0.0.2"], ["D", 12300, "alpha", "10.0.0.3"], ["X", 12300]]),
    # a Latin-1 comment on a UTF-8 system
    (b"127.0.0.1 localhost\n# Caf\xe9 printer, added by J\xf6rg (Latin-1 editor)\n192.168.7.20 printer\n", True,
     [["S", 0, 0, 12300], ["H", 0, "web-1", "10.1.2.3"], ["H", 0, "web-2", "10.1.2.4"], ["E", 0]]),
    (b"\xff\xfe1\x002\x00", True, [["S", 0, 0, 12300], ["S", 1, 0, 1230], ["H", 1, "a", "1.1.1.1"], ["H", 0, "a", "1.1.1.1"], ["E", 0], ["E", 1]]),
    (b"10.0.0.9 a\x00b\r\n# no final newline, CRLF, NUL", True, [["S", 0, 0, 12300], ["H", 0, "n", "1.1.1.1"], ["H", 0, "n", "1.1.1.2"], ["E", 0]]),
]


def run_main_sessions(ctx, fw, n):
    import random
    rng = random.Random("C14-main-%d" % ctx.seed)          # own stream: the other sections keep their cases
    scen = [(c, l, o, "fixed") for c, l, o in MAIN_FIXED]
    for k in range(n):
        arb = k % 4 == 3
        direct = k % 5 == 4
        c, l, o = gen_main_scenario(rng, arb, direct)
        scen.append((c, l, o, "direct" if direct else "main"))
    hi_lines, hi_meta, hm_lines, hm_meta = [], [], [], []
    for content, lnk, ops, kind in scen:
        recs, snap0, seen, ids, fstok = run_main_scenario(fw, content, lnk, ops)
        verdict = judge_main_scenario(content, ops, recs, snap0)
        und = not decodes(content)
        upds = {}
        for op in ops:
            if op[0] in ("H", "D"):
                upds.setdefault(op[1], []).append((op[2], op[3]))
        rep_same = rep_diff = 0
        for u in upds.values():
            last = {}
            for nm, ip in u:
                if nm in last:
                    if last[nm] == ip:
                        rep_same += 1
                    else:
                        rep_diff += 1
                last[nm] = ip
        ctx.count("main_scenarios_%s" % kind)
        ctx.count("main_host_lines", sum(len(u) for u in upds.values()))
        ctx.count("main_host_lines_repeating_a_name_same_address", rep_same)
        ctx.count("main_host_lines_repeating_a_name_other_address", rep_diff)
        if und:
            ctx.count("main_scenarios_on_undecodable_hosts_file")
            if any(r[0] == "crash:UnicodeDecodeError" for r in recs):
                ctx.count("main_helper_gave_up_on_undecodable_hosts_file")
        elif content is not None and (b"\x00" in content or b"\r" in content or not content.endswith(b"\n") or max(map(len, content.split(b"\n"))) > 4000):
            ctx.count("main_scenarios_on_odd_but_decodable_hosts_file")
        ctx.case(("main", content, lnk, repr(ops)), nontrivial=bool(upds),
                 sample={"kind": "firewall.main update history", "ops": [" ".join(str(x) for x in o) for o in ops][:8],
                         "hosts_after_each": [(r[1] or b"")[-120:].decode("utf-8", "replace") for r in recs][:8]}
                 if kind == "fixed" and len(ctx.samples) < 6 and ops[0][0] == "S" and len(ops) == 5 else None)
        if verdict is not None:
            k, why = verdict
            ctx.violation(("firewall.main control channel: " if kind != "direct" and ops[0][0] != "D" else "rewrite_etc_hosts called as firewall.main does: ") + why,
                          {"kind": "main", "content_hex": None if content is None else hx(content), "link_ok": lnk,
                           "ops": ops[:k + 1], "failed_op": k, "status": recs[k][0],
                           "got_hex": None if recs[k][1] is None else hx(recs[k][1])})
        # --- model: hosts file after every hop (HI), the helper's map (HM)
        if not und and in_model(content):
            port_of = {op[1]: (op[2] or op[3]) for op in ops if op[0] == "S"}
            hops, got = [], []
            for op, r in zip(ops, recs):
                if op[0] in ("H", "D"):
                    hops.append("H:%d:%s:%s" % (port_of[op[1]] if op[0] == "H" else op[1], hx(op[2].encode()), hx(op[3].encode())))
                elif op[0] in ("E", "X"):
                    hops.append("E:%d" % (port_of[op[1]] if op[0] == "E" else op[1]))
                else:
                    continue
                got.append(hx(r[1]) if r[1] is not None else "MISSING")
            if hops:
                hi_lines.append("HI %s %s" % (fstok, " ".join(hops)))
                hi_meta.append((ops, got, verdict is None))
        for i, calls in seen.items():
            u = upds.get(i, [])
            if u and not und:
                hm_lines.append("HM %s" % hm_tokens(u))
                hm_meta.append((ops, i, u, [c for c in calls if c[0]]))
    for ln, o, (ops, got, holds) in zip(hi_lines, ctx.run_driver(hi_lines), hi_meta):
        if got != (o.split(";") if o else []):
            ctx.disagree("update history through firewall.main vs hop_step", ln[:700], got[:12], o.split(";")[:12], holds)
    for ln, o, (ops, i, u, calls) in zip(hm_lines, ctx.run_driver(hm_lines), hm_meta):
        m_map, m_last = [x.strip() for x in o.split("|")]
        real_map = hm_tokens(calls[-1][0]) if calls else "(rewrite_etc_hosts never called with a map)"
        spec = hm_tokens(list(spec_last(u).items()))
        if real_map != m_map or spec != m_last:
            ctx.disagree("the map firewall.main hands to rewrite_etc_hosts vs hm_after / last_addr", ln[:500],
                         {"main": real_map[:300], "spec_last": spec[:300]}, {"hm_after": m_map[:300], "last_addr": m_last[:300]},
                         sorted(bytes.fromhex(x.split(":")[0]) for x in real_map.split(",") if ":" in x) == sorted(n.encode() for n in spec_last(u)))


# ----------------------------------------------------------------------------
# H-log. section H under a LOGGING ENVIRONMENT (the dimension C04 has, harness/props/c04.py log_dimension): the same
#    real firewall.main sessions, with helpers.verbose 0/1/2/3 and sys.stdout / sys.stderr of the helper replaced by
#    C04's stream stand-ins (c04.LogStream, c04.make_exc) whose k-th operation (write or flush) raises OSError(EIO)
#    (a terminal that was hung up: the helper ignores SIGHUP precisely to clean up), BrokenPipeError (the reader of a
#    pipe went away) or ValueError (closed file), once or from then on; stderr alone or sys.stdout.flush() as well.
#    sys.stdout is NOT the channel to the client here (setup_daemon is replaced: the protocol lines READY / STARTED go
#    to the helper's own _Sink), so the only user of both streams is helpers.log (stdout.flush, stderr.write.., stderr.flush)
#    and every such fault is a pure logging fault.
#    Oracle, from the property text, ON THE HOSTS FILE ALONE (how firewall.main ended is used only to know that the session
#    is over): "While sessions run, the hosts file consists of the lines that were there before, unchanged and in order,
#    plus one marked line per discovered host of each running instance; when a session ends its marked lines, and only
#    those, are gone" - under EVERY such environment, for sessions that added HOST lines.  Model side: helpers.log
#    returns for every OSError / ValueError of its streams (theorem c04_log_total, coq/Props/C04.v; tied to the real
#    helpers.log by C04's log_correspondence), so in the model a logging fault is invisible to the session and the C14
#    theorems about update histories (c14_session_last_address, c14_serial_histories) apply unchanged: no new Coq.

LOG_CLASSES = ["OSError", "BrokenPipeError", "ValueError"]          # OSError is made with errno EIO by c04.make_exc
LOG_CLASS_TEXT = {"OSError": "OSError(EIO) (terminal hung up)", "BrokenPipeError": "BrokenPipeError (EPIPE, reader of the pipe gone)",
                  "ValueError": "ValueError (I/O operation on closed file)"}


def _c04():
    """C04's stream stand-ins are reused, not copied (importing c04 runs nothing and loads no sshuttle module)"""
    here = os.path.dirname(os.path.abspath(__file__))
    if here not in sys.path:
        sys.path.insert(0, here)
    import c04
    return c04


class LogEnv:
    """the `world` behind c04.LogStream for a whole section-H scenario.
    log = {"v": verbosity, "k": index of the first failing operation (absent/None = none), "mode": "once"|"from",
           "cls": class name, "both": sys.stdout.flush() counts and fails as well (else only sys.stderr operations count)}"""

    def __init__(self, log):
        self.log = dict(log or {})
        self.ops = 0              # operations the fault index counts
        self.ops_all = 0
        self.step = None          # index of the scenario op being played
        self.marks = []           # (ops, ops_all) after each scenario op
        self.fired = []           # (counted index, scenario op index, stream, operation) of every injected exception
        self.anomaly = None
        self.old = None

    def install(self):
        import sshuttle.helpers as helpers
        c04 = _c04()
        self.old = (sys.stdout, sys.stderr, helpers.verbose)
        sys.stdout, sys.stderr = c04.LogStream(self, "out"), c04.LogStream(self, "err")
        helpers.verbose = int(self.log.get("v", 0))

    def remove(self):
        import sshuttle.helpers as helpers
        if self.old is not None:
            sys.stdout, sys.stderr, helpers.verbose = self.old
            self.old = None

    def logop(self, kind, what):          # called by c04.LogStream.write / flush
        self.ops_all += 1
        if kind == "out" and what != "flush":
            self.anomaly = "write to sys.stdout (not the client channel here)"
            return
        if kind == "out" and not self.log.get("both"):
            return
        idx = self.ops
        self.ops += 1
        k = self.log.get("k")
        if k is None:
            return
        if idx == k or (idx > k and self.log.get("mode") == "from"):
            self.fired.append((idx, self.step, kind, what))
            raise _c04().make_exc(self.log["cls"])


def log_env_text(log, env=None, ops=None):
    if log.get("k") is None:
        return "helpers.verbose=%d, working log streams" % log.get("v", 0)
    t = "helpers.verbose=%d, %s raising %s %s" % (
        log.get("v", 0), "sys.stderr write/flush and sys.stdout.flush" if log.get("both") else "sys.stderr write/flush",
        LOG_CLASS_TEXT.get(log["cls"], log["cls"]),
        ("from its operation %d on" % log["k"]) if log["mode"] == "from" else ("at its operation %d only" % log["k"]))
    if env is not None and env.fired:
        idx, step, kind, what = env.fired[0]
        during = "after the last line" if step is None or ops is None or step >= len(ops) else \
            "while the helper handled step %d '%s'" % (step, " ".join(str(x) for x in ops[step]))
        t += " (first hit: sys.%s.%s, %s; %d operation(s) failed)" % ("stdout" if kind == "out" else "stderr", what, during, len(env.fired))
    return t


def judge_main_files(content, ops, recs, snap0):
    """the C14 oracle on the hosts file alone, for S/H/E scenarios on a hosts file that decodes.  A helper that came
    back for its next line ('ask') is a running session; anything else (return, any exception out of firewall.main) means
    the session has ENDED, whatever the reason.  -> None or (index of the op, what is wrong with the file)"""
    ports = sorted({(op[2] or op[3]) for op in ops if op[0] == "S"})
    port_of, running, upd = {}, {}, {}
    written = set()              # ports for which some session of the scenario has had a HOST line processed
    orig = {p: [l for l in spec_norm_lines(content) if marker(p) in l] for p in ports}
    prev = snap0
    for k, (op, (st, data, snap)) in enumerate(zip(ops, recs)):
        kind, i = op[0], op[1]
        touched = snap != prev
        how = None                # how the session of this op ended, if it did
        p = None
        if kind == "S":
            p = port_of[i] = op[2] or op[3]
            upd[p] = []
            running[i] = st == "ask"
            if touched:
                return k, "starting a session changed the hosts directory before any host was discovered"
            if st != "ask":
                how = "the helper ended before STARTED (%s)" % st
        elif not running.get(i):
            if touched:
                return k, "nothing was asked of a running helper, yet the hosts directory changed"
        elif kind == "H":
            p = port_of[i]
            if st == "ask":
                upd[p].append((op[2], op[3]))
                written.add(p)
            else:
                running[i] = False
                how = "firewall.main ended with %s while handling 'HOST %s,%s'" % (st[6:] if st.startswith("crash:") else st, op[2], op[3])
        elif kind == "E":
            p = port_of[i]
            running[i] = False
            how = "end of input on the control channel; firewall.main %s" % (
                "returned" if st == "return" else "ended with " + (st[6:] if st.startswith("crash:") else st))
            if not upd[p] and touched:
                return k, "ending a session that never added a host changed the hosts directory"
        prev = snap
        left = sorted(n for n in snap if n.startswith("tmp") or n.startswith("OTHER"))
        if left:
            return k, "a temporary file was left behind in the hosts directory (%s)" % ", ".join(left)
        if base_lines(data, ports) != base_lines(content, ports):
            return k, "a line without any session's marker was altered, lost or moved: hosts file now %r" % (data,)
        ls = spec_norm_lines(data)
        for q in ports:
            mine = [l for l in ls if marker(q) in l]
            live = [j for j, r in running.items() if r and port_of[j] == q]
            if live and upd.get(q):
                want = spec_marked(q, spec_last(upd[q]))
                if mine != want:
                    return k, ("the running session of port %d does not have exactly one marked line per discovered host (at the "
                               "address of the host's last update): want %r, hosts file has %r" % (q, want, mine))
            elif live:
                if mine != ([] if q in written else orig[q]):
                    return k, "marked lines of port %d changed before its running session discovered any host: %r" % (q, mine)
            elif q in written:
                if mine:
                    return k, ("session of port %d has ended (%s) but its marked line(s) are still in the hosts file: %r"
                               % (q, how if q == p and how else "earlier", mine))
            elif mine not in ([], orig[q]):
                return k, "marked lines of port %d changed though no session of it ever processed a HOST line: %r" % (q, mine)
    return None


def gen_log_scenarios(rng, n):
    """S/H/E scenarios on hosts files that decode, every session is sent at least one HOST line before it ends"""
    out = [(c, l, o) for c, l, o in MAIN_FIXED[:4]]
    tries = 0
    while len(out) < 4 + n and tries < 50 * (n + 1):
        tries += 1
        c, l, o = gen_main_scenario(rng, False, False)
        sent = {}
        for op in o:
            if op[0] == "S":
                sent[op[1]] = 0
            elif op[0] == "H":
                sent[op[1]] += 1
        if sent and all(sent.values()) and decodes(c) and len(o) <= 12:
            out.append((c, l, o))
    return out


def log_plan(rng, quick, si, base):
    """the logging environments one scenario is run under.  base: {v: (ops counted stderr-only, ops counted with stdout,
    marks)} of the fault-free runs.  Always: the hang-up points (stream dead from the first operation after each
    control-channel line was handled, i.e. also after the last HOST line and before end of input) and, for the first
    scenarios or in the thorough tier, EVERY operation index; plus random environments."""
    plans = []
    for v in (0, 1, 2, 3):
        n_err, n_all, marks = base[v]
        if n_all == 0:
            # nothing is logged at this verbosity: one run with dead streams shows just that
            plans.append({"v": v, "k": 0, "mode": "from", "cls": LOG_CLASSES[(si + v) % 3], "both": True})
            continue
        full = (not quick) or (si == 0 and v == 2)
        ks = set()
        for m_err, m_all in marks:             # between two control-channel lines
            ks.add(m_err)
        if full:
            ks.update(range(n_err))
        else:
            # tear-down operations (after the last line was read) and a sample of the rest
            last = marks[-2][0] if len(marks) > 1 else 0
            td = list(range(last, n_err))
            ks.update(rng.sample(td, min(3 if v >= 2 else 1, len(td))))
            ks.update(rng.sample(range(n_err), min(2, n_err)))
        ks = sorted(x for x in ks if x < n_err)
        if quick and not full and v != 2:
            ks = sorted(rng.sample(ks, min(4, len(ks))))
        for j, k in enumerate(ks):
            if full:
                combos = [(c, "from") for c in LOG_CLASSES] + [(LOG_CLASSES[(j + si) % 3], "once")]
                if not quick:
                    combos += [(c, "once") for c in LOG_CLASSES if (c, "once") not in combos]
            else:
                combos = [(LOG_CLASSES[(j + si + v) % 3], "from")]
                if rng.random() < 0.3:
                    combos.append((rng.choice(LOG_CLASSES), "once"))
            for cls, mode in combos:
                plans.append({"v": v, "k": k, "mode": mode, "cls": cls, "both": False})
        for _ in range(2 if quick else 12):     # sys.stdout.flush() counted and failing as well
            plans.append({"v": v, "k": rng.randrange(n_all), "mode": rng.choice(["from", "from", "once"]),
                          "cls": rng.choice(LOG_CLASSES), "both": True})
    return plans


def run_main_log_case(fw, content, lnk, ops, log):
    """one scenario under one logging environment -> (verdict of the file oracle, verdict of section H's oracle, recs, env)"""
    env = LogEnv(log)
    recs, snap0, seen, ids, fstok = run_main_scenario(fw, content, lnk, ops, logenv=env)
    return judge_main_files(content, ops, recs, snap0), judge_main_scenario(content, ops, recs, snap0), recs, env


def main_log_what(ops, log, env, why):
    return ("real firewall.main with a failing log stream: %s -- logging environment: %s -- property: 'when a session ends its "
            "marked lines, and only those, are gone' / 'the lines that were there before ... plus one marked line per discovered "
            "host of each running instance'; helpers.log returns for every OSError/ValueError of its streams (theorem "
            "c04_log_total), so a logging fault must not change what happens to the hosts file" % (why, log_env_text(log, env, ops)))


def run_main_log_sessions(ctx, fw, n):
    import json
    import random
    import re
    rng = random.Random("C14-main-log-%d" % ctx.seed)          # own stream: the other sections keep their cases
    quick = ctx.quick()
    worst = {}                    # (class, mode, kind of the failing step, kind of failure) -> (size, what, replay, count)
    for si, (content, lnk, ops) in enumerate(gen_log_scenarios(rng, n)):
        base, ok = {}, True
        for v in (0, 1, 2, 3):
            log = {"v": v}
            fverdict, sverdict, recs, env = run_main_log_case(fw, content, lnk, ops, log)
            ctx.case(("main-log", content, lnk, repr(ops), repr(log)), nontrivial=True)
            ctx.count("mainlog_runs_fault_free")
            ctx.count("mainlog_log_operations_verbose_%d" % v, env.ops_all)
            if env.anomaly:
                ctx.disagree("section H-log: log stream used outside helpers.log", repr(ops)[:300], env.anomaly, "only helpers.log touches sys.stdout / sys.stderr")
            if fverdict is not None or sverdict is not None or any(r[0] not in ("ask", "return") for r in recs):
                # not a session that adds HOST lines and ends in good order even with working streams: section H's business
                ok = False
                if fverdict is not None and base:         # in good order at a lower verbosity: the verbosity alone did it
                    k, why = fverdict
                    ctx.violation(main_log_what(ops, log, env, why),
                                  {"kind": "main-log", "content_hex": None if content is None else hx(content), "link_ok": lnk,
                                   "ops": ops[:k + 1], "failed_op": k, "log": log, "status": recs[k][0],
                                   "got_hex": None if recs[k][1] is None else hx(recs[k][1])})
                break
            with_out = LogEnv({"v": v, "both": True})
            run_main_scenario(fw, content, lnk, ops, logenv=with_out)
            base[v] = (env.ops, with_out.ops, env.marks)
            if with_out.ops != env.ops_all or [m[1] for m in env.marks] != [m[0] for m in with_out.marks]:
                ctx.disagree("section H-log: operation count of two fault-free runs", repr(ops)[:300], (env.ops_all, env.marks), (with_out.ops, with_out.marks))
        if not ok:
            ctx.count("mainlog_scenarios_skipped_not_in_good_order_without_faults")
            continue
        ctx.count("mainlog_scenarios")
        ctx.count("mainlog_scenarios_with_%d_helpers" % len([o for o in ops if o[0] == "S"]))
        # the marks must show log operations between the last HOST line and the end of the tear-down at -v and above
        if base[2][0] <= (base[2][2][-2][0] if len(base[2][2]) > 1 else 0):
            ctx.disagree("section H-log: no log operation during tear-down at verbosity 2", repr(ops)[:300], base[2], "debug1('undoing changes.') at least")
        for log in log_plan(rng, quick, si, base):
            fverdict, sverdict, recs, env = run_main_log_case(fw, content, lnk, ops, log)
            ctx.case(("main-log", content, lnk, repr(ops), repr(sorted(log.items()))), nontrivial=True)
            ctx.count("mainlog_runs_with_fault")
            ctx.count("mainlog_verbose_%d" % log["v"])
            ctx.count("mainlog_class_%s" % log["cls"])
            ctx.count("mainlog_mode_%s%s" % (log["mode"], "_stdout_too" if log["both"] else ""))
            if env.fired:
                step = env.fired[0][1]
                ctx.count("mainlog_fault_first_fired_%s" % (
                    "after_the_last_line" if step is None or step >= len(ops) else
                    {"S": "during_start_ROUTES_to_STARTED", "H": "while_handling_a_HOST_line", "E": "during_tear_down_after_end_of_input"}[ops[step][0]]))
                if step is not None and step < len(ops) and ops[step][0] == "E" and any(o[0] == "H" and o[1] == ops[step][1] for o in ops[:step]):
                    ctx.count("mainlog_fault_in_tear_down_of_a_session_that_added_hosts")
            else:
                ctx.count("mainlog_fault_beyond_last_operation" if base[log["v"]][1] else "mainlog_nothing_logged_at_this_verbosity")
            if fverdict is not None:
                k, why = fverdict
                what = main_log_what(ops, log, env, why)
                rep = {"kind": "main-log", "content_hex": None if content is None else hx(content), "link_ok": lnk,
                       "ops": ops[:k + 1], "failed_op": k, "log": log, "status": recs[k][0],
                       "statuses": [r[0] for r in recs[:k + 1]],
                       "first_failed_operation": list(env.fired[0]) if env.fired else None,
                       "got_hex": None if recs[k][1] is None else hx(recs[k][1])}
                key = (log["cls"], log["mode"], ops[k][0], re.sub(r"\d+", "N", why.split("(")[0].split(":")[0]))
                size = (len(rep["ops"]), bool(log["both"]), log["v"], len(json.dumps(rep)))       # plainest witness first
                if key not in worst or size < worst[key][0]:
                    worst[key] = (size, what, rep, worst.get(key, (0, 0, 0, 0))[3] + 1)
                else:
                    worst[key] = worst[key][:3] + (worst[key][3] + 1,)
            elif sverdict is not None or [r[0] for r in recs] != [("ask" if o[0] != "E" else "return") for o in ops]:
                # the file is as the property says, but the run is not the fault-free run: not a C14 failure, but log() is
                # total (c04_log_total) and swallows these classes, so nothing but the log text may differ
                ctx.disagree("section H-log: firewall.main under a failing log stream vs the same session with working streams "
                             "(hosts file correct at every step; c04_log_total: helpers.log returns)",
                             {"ops": ops, "log": log, "env": log_env_text(log, env, ops)}, [r[0] for r in recs],
                             [("ask" if o[0] != "E" else "return") for o in ops], True)
    # one violation per (class, mode, kind of the failing step, kind of failure): the smallest witness, with its concrete numbers in the text
    for key in sorted(worst, key=lambda x: (worst[x][0], repr(x))):
        size, what, rep, cnt = worst[key]
        rep["failing_cases_of_this_kind"] = cnt
        ctx.violation(what, rep)


# ----------------------------------------------------------------------------

# ----------------------------------------------------------------------------
# H-sig: a REAL signal reaches the helper while it touches the hosts file (firewall.py:77-104 firewall_exit relays it to
#    the client with os.kill(sshuttle_pid, ...)).  The real firewall.main runs in a forked child (signals are delivered
#    to the main thread only), the REAL setup_daemon installs the dispositions (SIGTERM/SIGINT -> firewall_exit, SIGHUP
#    ignored; its stdin/stdout are then replaced by the scripted channel), the session is preamble + >= 1 HOST line +
#    end of input.  Before the k-th hosts-file primitive of the whole session (the ones Rec sees: stat, exists, link /
#    copy, read, open/write/close of the temporary file, chown, chmod, rename - of every HOST update and of the final
#    rewrite) signal.raise_signal(sig) is called; os.kill toward the client pid (and only that) is answered by the
#    environment: delivered / ESRCH (client gone) / EPERM (other session, other console group) / EINVAL (what Windows
#    answers CTRL_C_EVENT for a vanished process).  Oracle, from the property text ("when a session ends its marked
#    lines, and only those, are gone"; the temporary file is the instance's own): whatever the signal, the primitive and
#    the answer, once the session has ended (main returned, raised or the process exited) the hosts file has no line
#    with this port's marker, every other line is as before and no hosts.<port>.tmp is left.

SIG_CLIENT_PID = 3999999            # never signalled for real: os.kill toward it is answered by the environment
SIG_ANSWERS = ["ok", "ESRCH", "EPERM", "EINVAL"]
SIG_NAMES = ["SIGTERM", "SIGINT", "SIGHUP"]


class _SigChannel:
    """the scripted control channel of the helper in the child (its stdin) + what MainPatched's spy wants"""

    def __init__(self, lines):
        self.lines = list(lines)
        self.stdout = _Sink()
        self.maps_seen = []

    def readline(self, *a):
        return self.lines.pop(0) if self.lines else b""


def sig_child(fw, w, port, hosts, signame, k, answer, wfd):
    """in the forked child: the whole session; writes a JSON record to wfd and _exits"""
    import signal
    out = {"status": "?", "events": [], "starts": [], "kills": [], "fired": None}
    try:
        real_kill = os.kill

        def kill(pid, sig):
            if pid != SIG_CLIENT_PID:
                return real_kill(pid, sig)
            out["kills"].append(int(sig))
            if answer == "ok":
                return None
            raise OSError(getattr(errno, answer), os.strerror(getattr(errno, answer)))
        os.kill = kill

        def gate(rec, idx, name):
            if idx == k and out["fired"] is None:             # once: a primitive the handler aborted is not counted
                out["fired"] = name
                out["fired_in"] = out["starts"][-1][1] if out["starts"] else None
                signal.raise_signal(getattr(signal, signame))     # the interpreter runs the installed handler here
        rec = Rec(w, port, gate)
        ch = _SigChannel([l.replace(b"%d\n" % os.getpid(), b"%d\n" % SIG_CLIENT_PID) if l.startswith(b"GO ") else l
                          for l in preamble(0, port)] + [("HOST %s,%s\n" % (n, ip)).encode("ascii") for n, ip in hosts])
        with Patched(fw, w), MainPatched(fw) as mp:
            real_daemon = mp.old[0]

            def daemon():
                real_daemon()                 # the real one: signal dispositions, setsid (needs root)
                return ch, ch.stdout
            fw.setup_daemon = daemon
            spy = fw.rewrite_etc_hosts

            def spy2(hostmap, p):
                out["starts"].append([len(rec.events), len(hostmap)])
                return spy(hostmap, p)
            fw.rewrite_etc_hosts = spy2
            _tls.helper = ch
            _tls.rec = rec
            try:
                fw.main("fake", False)
                out["status"] = "return"
            except SystemExit as e:
                out["status"] = "exit:%r" % (e.code,)
            except BaseException as e:        # noqa
                out["status"] = "crash:%s:%s" % (type(e).__name__, str(e)[:80])
            finally:
                _tls.rec = None
        out["events"] = rec.events
        out["started"] = ch.stdout.data.endswith(b"STARTED\n")
    except BaseException as e:                # noqa
        out["status"] = "harness:%s:%s" % (type(e).__name__, str(e)[:200])
    try:
        os.write(wfd, json.dumps(out).encode())
    finally:
        os._exit(0)


def run_sig_session(fw, content, lnk, port, hosts, signame, k, answer):
    """-> (record of the child, snapshot before, snapshot after the session has ended)"""
    import select
    w = World(content, 0, 0, 0o644, None, lnk)
    try:
        snap0 = w.snapshot()
        rfd, wfd = os.pipe()
        sys.stdout.flush()
        sys.stderr.flush()
        pid = os.fork()
        if pid == 0:
            os.close(rfd)
            try:
                devnull = os.open(os.devnull, os.O_WRONLY)
                os.dup2(devnull, 2)
            except OSError:
                pass
            sig_child(fw, w, port, hosts, signame, k, answer, wfd)
            os._exit(0)
        os.close(wfd)
        data = b""
        t_end = time.time() + 30
        while True:
            r, _, _ = select.select([rfd], [], [], max(0.0, t_end - time.time()))
            if not r:
                os.kill(pid, 9)
                break
            chunk = os.read(rfd, 65536)
            if not chunk:
                break
            data += chunk
        os.close(rfd)
        _, wst = os.waitpid(pid, 0)
        if not data:
            rec = {"status": "process ended, wait status %d" % wst, "events": [], "starts": [], "kills": [], "fired": None}
        else:
            rec = json.loads(data.decode())
        return rec, snap0, w.snapshot()
    finally:
        w.close()


def judge_sig_session(content, port, snap0, snap):
    """the oracle on the scratch directory after the session has ended; -> list of what is wrong"""
    bad = []
    data = snap.get("hosts", (None,))[0]
    if data is None:
        return ["the hosts file is gone"]
    mine = [l for l in spec_norm_lines(data) if marker(port) in l]
    if mine:
        bad.append("%d marked line(s) of the ended session still in the hosts file (%r)" % (len(mine), mine[0]))
    if base_lines(data, [port]) != base_lines(content, [port]):
        bad.append("lines that are not the session's were changed")
    tmps = sorted(n for n in snap if n.startswith("tmp") or n.startswith("OTHER:"))
    if tmps:
        bad.append("%s left" % ", ".join("hosts.%s.tmp" % n[3:] if n.startswith("tmp") else n[6:] for n in tmps))
    return bad


def sig_where(rec, k):
    """which rewrite the k-th primitive belongs to"""
    if rec.get("fired") is None or rec.get("fired_in") is None:
        return "outside the hosts-file rewrites"
    return "the final hosts-file rewrite" if rec["fired_in"] == 0 else "a HOST update"


def sig_what(rec, port, signame, k, answer, bad):
    relay = {"ok": "was relayed to the client", "ESRCH": "could not be relayed, the client is gone (ESRCH)",
             "EPERM": "could not be relayed, os.kill toward the client failed with EPERM",
             "EINVAL": "could not be relayed, os.kill toward the client failed with EINVAL"}[answer]
    return ("%s reached the firewall helper during %s (before primitive #%d '%s') and %s: the session ended (%s) with %s"
            % (signame, sig_where(rec, k), k, (rec.get("fired") or "-").split(":")[0], relay, rec["status"], "; ".join(bad)))


SIG_CONTENTS = [
    b"127.0.0.1 localhost\n10.9.9.9 other.example   # sshuttle-firewall-12299 AUTOCREATED\n::1 ip6-localhost\n",
    b"127.0.0.1 localhost",
    b"# only a comment\r\n192.168.1.1\tgw gw.lan\r\n\r\n",
]


def run_main_signals(ctx, fw, budget):
    """budget: number of sessions beyond the exhaustive first scenario"""
    import random
    if os.geteuid() != 0:
        ctx.notes.append("H-sig skipped: the real setup_daemon needs root")
        return
    rng = random.Random("C14-sig-%d" % ctx.seed)
    port = 12300
    failures = []

    def one(content, lnk, hosts, signame, k, answer):
        rec, snap0, snap = run_sig_session(fw, content, lnk, port, hosts, signame, k, answer)
        if rec["status"].startswith("harness:") or (k < 0 and not rec.get("started")):
            raise RuntimeError("H-sig: the session did not run: %s" % rec["status"])
        where = sig_where(rec, k) if k >= 0 else "no signal"
        ctx.case(("sig", content, lnk, tuple(hosts), signame, k, answer), nontrivial=True)
        ctx.count("H-sig session: %s, %s, relay answered %s" % (where, signame, answer))
        if k >= 0 and rec.get("fired") is not None and signame != "SIGHUP" and len(rec["kills"]) != 1:
            ctx.disagree("H-sig: the real handler did not run exactly once", (signame, k, answer), rec["kills"], "1 relay")
        bad = judge_sig_session(content, port, snap0, snap)
        if bad:
            ctx.count("H-sig sessions that ended with marked lines / a temporary file left")
            failures.append((sig_what(rec, port, signame, k, answer, bad),
                             {"kind": "main-signal", "content_hex": hx(content), "link_ok": lnk, "port": port,
                              "hosts": [list(h) for h in hosts], "signal": signame, "k": k, "answer": answer,
                              "primitive": rec.get("fired"), "during": where, "status": rec["status"]}))
        return rec

    def hosts_for(n):
        hm = gen_map(rng, n)
        return sorted(hm.items())

    # scenario 1, exhaustively: one HOST line, every primitive of the HOST update and of the final rewrite (+ one beyond)
    scen = [(SIG_CONTENTS[0], True, [("build.internal", "10.1.2.3")])]
    scen.append((SIG_CONTENTS[1 + rng.randrange(2)], rng.random() < 0.5, hosts_for(2)))
    lens = []
    for content, lnk, hosts in scen:
        dry = one(content, lnk, hosts, "SIGTERM", -1, "ok")
        if len(dry["starts"]) != len(hosts) + 1 or dry["starts"][-1][1] != 0:
            raise RuntimeError("H-sig: expected %d rewrites ending with the empty map, saw %r" % (len(hosts) + 1, dry["starts"]))
        lens.append(len(dry["events"]))
        ctx.extra.setdefault("sig_primitives", []).append([e.split(":")[0] for e in dry["events"]])
    content, lnk, hosts = scen[0]
    for k in range(lens[0] + 1):
        for signame in SIG_NAMES:
            for answer in (SIG_ANSWERS if signame != "SIGHUP" else ["ok", "EINVAL"]):
                one(content, lnk, hosts, signame, k, answer)
    # further sessions: other file shapes, copy instead of link, two names; primitive, signal and answer drawn
    for i in range(budget):
        j = 1 if i % 2 == 0 else 0
        content, lnk, hosts = scen[j]
        if j == 0:
            content, lnk = SIG_CONTENTS[rng.randrange(3)], False
        one(content, lnk, hosts, rng.choice(SIG_NAMES[:2]), rng.randrange(lens[j] + 1), rng.choice(SIG_ANSWERS))
    if failures:
        # the final rewrite first (the session's last chance to remove its lines), then the smallest primitive index
        failures.sort(key=lambda f: (f[1]["during"] != "the final hosts-file rewrite", f[1]["k"]))
        what, rp = failures[0]
        rp["failing_inputs_found"] = len(failures)
        ctx.violation(what, rp)


def correspondence(ctx):
    fw = load()
    rng = ctx.rng
    quick = ctx.quick()
    try:
        # marker text: generated constant vs the real formatting
        mk = ctx.run_driver(["MK %d" % p for p in PORTS])
        for p, m in zip(PORTS, mk):
            ctx.case(("marker", p), nontrivial=True)
            if bytes.fromhex(m).decode() != marker(p):
                ctx.disagree("marker text", p, marker(p), m)

        # the text-mode read of the code decodes with the locale encoding: the runs below take it to be UTF-8
        import locale
        enc = locale.getpreferredencoding(False).lower().replace("-", "").replace("_", "")
        ctx.extra["locale_encoding"] = enc
        if enc != "utf8":
            raise RuntimeError("locale encoding is %s, the hosts-file checks assume UTF-8" % enc)
        # utf8_ok of the model = CPython's strict decoder: every lead byte class x continuation bytes at the range borders
        import itertools
        import random
        brng = random.Random("C14-bytes-%d" % ctx.seed)
        leads = list(range(0x80, 0x100)) if not quick else [0x80, 0xbf, 0xc0, 0xc1, 0xc2, 0xdf, 0xe0, 0xe1, 0xec, 0xed, 0xee, 0xef,
                                                            0xf0, 0xf1, 0xf3, 0xf4, 0xf5, 0xf8, 0xff]
        conts = [0x00, 0x7f, 0x80, 0x8f, 0x90, 0x9f, 0xa0, 0xbf, 0xc0, 0xff]
        u8 = [b"", b"a", b"\x00", b"\x7f"] + [bytes([l]) for l in leads]
        for n in (1, 2, 3):
            for l in leads:
                for cs in itertools.product(conts, repeat=n):
                    u8.append(bytes((l,) + cs))
        for _ in range(500 if quick else 20000):
            u8.append(b"ok " + bytes(brng.choice(range(256)) for _ in range(brng.randint(1, 6))) + b" ok")
            u8.append(gen_raw_line(brng, 12300))
        for b, o in zip(u8, ctx.run_driver(["U8 %s" % hx(b) for b in u8])):
            ctx.case(("utf8_ok", b), nontrivial=len(b) > 1)
            if o != ("1" if decodes(b) else "0"):
                ctx.disagree("utf8_ok vs CPython's UTF-8 decoder", hx(b), decodes(b), o)
        ctx.count("utf8_validity_cases", len(u8))

        # ---- A: single calls
        cases = []
        fixed = [None, b"", b"\n", b"a", b"a\n", b"a\n\n\n", b"a \n \n", b"a\r\nb\r\n", b"a\rb", b"# c\n1.2.3.4 x\n",
                 ("1.1.1.1 o # sshuttle-firewall-1230 AUTOCREATED\n2.2.2.2 t # sshuttle-firewall-12300 AUTOCREATED\n"
                  "3.3.3.3 h # sshuttle-firewall-123000 AUTOCREATED\n").encode(),
                 ("x " + marker(12300) + " y\nkeep\n").encode(), (marker(12300) + "\n").encode(), b"L" * 70000 + b"\n"]
        for c in fixed:
            for hm in ({}, {"myhost": "1.2.3.4", "myotherhost": "1.2.3.5"}):
                for lnk in (True, False):
                    cases.append((c, 12300, hm, None, lnk, 0, 0, 0o644, False))
            cases.append((c, 1230, {"h": "9.9.9.9"}, b"old backup\n", True, 1000, 50, 0o600, False))
            cases.append((c, 12300, {"h": "9.9.9.9"}, None, True, 0, 0, 0o644, True))
            cases.append((c, 12300, {}, None, True, 0, 0, 0o644, True))
        n = 1500 if quick else 30000
        for _ in range(n):
            port = rng.choice(PORTS)
            c = gen_content(rng, port)
            hm = gen_map(rng)
            bak = rng.choice([None, None, b"bak\n"])
            uid, gid, mode = rng.choice([(0, 0, 0o644), (0, 0, 0o644), (1000, 1000, 0o600), (1, 2, 0o664), (0, 4, 0o444)])
            restore = rng.random() < 0.15
            cases.append((c, port, hm, bak, rng.random() < 0.8, uid, gid, mode, restore))
            ctx.count("content_" + ("missing" if c is None else "empty" if c == b"" else "crlf" if b"\r" in c else
                                    "no_trailing_newline" if not c.endswith(b"\n") else "trailing_blank" if c.endswith(b"\n\n") else "plain"))
            ctx.count("map_size_%s" % (len(hm) if len(hm) < 4 else "4+"))
            if c and any(marker(q).encode() in c for q in PORTS if q != port):
                ctx.count("content_with_other_ports_marker")
            if c and marker(port).encode() in c:
                ctx.count("content_with_own_marker")
            if any(len(i) + 1 + len(nm) > 30 for nm, i in hm.items()):
                ctx.count("map_with_entry_wider_than_30")
        # foreign file contents of arbitrary bytes (not valid UTF-8, NUL, CR, very long lines, no final newline); own stream
        fixed_b = [b"127.0.0.1 localhost\n# Caf\xe9 printer, added by J\xf6rg (Latin-1 editor)\n192.168.7.20 printer\n", b"\xff\xfe", b"\xe9",
                   b"a\n\xc3", b"\x00\n", b"10.0.0.9 a\x00b", b"a\rb\r\xe9\r", ("x %s \xe9\n" % marker(12300)).encode("latin-1"),
                   b"L" * 70000 + b"\xe9\nkeep", "\ufeff1.1.1.1 bom\n".encode("utf-8")]
        bcases = []
        for c in fixed_b:
            for hm in ({}, {"myhost": "1.2.3.4", "myotherhost": "1.2.3.5"}):
                bcases.append((c, 12300, hm, None, True, 0, 0, 0o644, False))
            bcases.append((c, 12300, {"h": "9.9.9.9"}, None, False, 1000, 50, 0o600, True))
            bcases.append((c, 1230, {"h": "9.9.9.9"}, b"old backup\n", True, 0, 0, 0o644, False))
        for _ in range(300 if quick else 6000):
            port = brng.choice(PORTS)
            c = gen_bytes_content(brng, port)
            bcases.append((c, port, gen_map(brng), brng.choice([None, None, b"bak\n"]), brng.random() < 0.8) +
                          brng.choice([(0, 0, 0o644), (1000, 1000, 0o600)]) + (brng.random() < 0.15,))
            ctx.count("bytes_content_" + ("undecodable" if not decodes(c) else "decodable_outside_model" if not in_model(c) else "decodable"))
            if b"\x00" in c:
                ctx.count("bytes_content_with_NUL")
            if not c.endswith((b"\n", b"\r")):
                ctx.count("bytes_content_no_final_newline")
        run_single(ctx, fw, cases + bcases)

        # ---- B: histories
        run_histories(ctx, fw, 400 if quick else 8000)

        # ---- C: crash points
        ccases = [(b"127.0.0.1 localhost\n# c\n\n", 12300, {"a": "1.1.1.1", "b": "2.2.2.2"}, None, True),
                  (b"127.0.0.1 localhost\n", 12300, {"a": "1.1.1.1"}, None, False),
                  (None, 12300, {"a": "1.1.1.1"}, None, True),
                  (("l\n%-30s %s\n" % ("1.1.1.1 a", marker(12300))).encode(), 12300, {}, b"l\n", True)]
        for _ in range(30 if quick else 600):
            port = rng.choice(PORTS)
            ccases.append((gen_content(rng, port), port, gen_map(rng, rng.choice([0, 1, 2, 4])), rng.choice([None, b"bak\n"]), rng.random() < 0.7))
        run_crashes(ctx, fw, ccases)

        # ---- F: crash of one call at every primitive / pre-existing temporaries, then complete calls
        run_stale(ctx, fw, 6 if quick else 150, 40 if quick else 1500)

        # ---- D: interleavings
        f8_seen = []
        icases = [F8_WITNESS, F8_RESURRECT,
                  (b"127.0.0.1 localhost\n", (12300, {"a": "10.0.0.1"}, False), (1230, {"b": "10.0.0.2"}, False), None, True),
                  (b"base\n", (12300, {"a": "10.0.0.1"}, False), (1230, {"b": "10.0.0.2"}, False), None, False)]
        if not quick:
            icases += [(None, (12300, {"a": "10.0.0.1"}, False), (1230, {"b": "10.0.0.2"}, False), None, True),
                       (("base  \n%-30s %s\n\n" % ("10.0.0.2 b", marker(1230))).encode(),
                        (12300, {"a": "10.0.0.1", "c": "10.0.0.3"}, False), (1230, {"b": "10.0.0.2"}, True), None, True)]
            for _ in range(14):
                pa, pb = rng.sample(PORTS[:4], 2)
                icases.append((gen_content(rng, pa), (pa, gen_map(rng, rng.choice([1, 2])), rng.random() < 0.3),
                               (pb, gen_map(rng, rng.choice([1, 2])), False), rng.choice([None, b"bak\n"]), rng.random() < 0.7))
        lines, pend = [], []
        total = 0
        for ci, case in enumerate(icases):
            lim = None if (not quick or ci < 3) else 200
            k = 0
            for decisions, res in all_schedules(fw, case, limit=lim):
                check_interleaving(ctx, case, decisions, res, lines, pend)
                k += 1
            ctx.count("interleaving_cases")
            total += k
            if lim is None:
                ctx.extra["exhaustive"] = True
        ctx.extra["interleavings_enumerated"] = total
        # full-granularity random schedules (private primitives interleaved too)
        for _ in range(300 if quick else 6000):
            case = rng.choice(icases)
            seq = [rng.randint(0, 1) for _ in range(80)]
            content, ja, jb, bak, lnk = case
            w = World(content, 0, 0, 0o644, bak, lnk)
            try:
                def choose(avail, seq=seq):
                    if len(avail) == 1:
                        return next(iter(avail))
                    return seq.pop(0) if seq else 0
                with Patched(fw, w):
                    order, fin = Sched(fw, w, {0: ja, 1: jb}).run(choose)
                res = (order, fin, w.snapshot(), (w.ino_h0, w.ino_b0), 0, w.fs_tokens())
            finally:
                w.close()
            check_interleaving(ctx, case, [], res, lines, pend)
            ctx.count("interleavings_full_granularity")
        judge_interleavings(ctx, lines, pend, f8_seen)

        # the F8 witnesses, replayed on the real code on every run
        order, fin, data = run_f8_witness(ctx, fw, F8_WITNESS)
        lost_a = marker(12300).encode() not in (data or b"")
        order2, fin2, data2 = run_f8_witness(ctx, fw, F8_RESURRECT)
        resurrected = marker(12300).encode() in (data2 or b"")
        ctx.case(("f8", "lost"), nontrivial=True)
        ctx.case(("f8", "resurrected"), nontrivial=True)
        if lost_a or resurrected or f8_seen:
            ctx.known("F8", "concurrent firewall helpers: read-B, [whole rewrite A], rename-B %s; %d of %d enumerated interleavings "
                      "lose or resurrect marked lines (no locking around read-modify-rename of the hosts file)"
                      % ("loses A's lines" + (" and resurrects restored lines" if resurrected else ""), len(f8_seen), len(lines)))
        ctx.extra["f8_lost_update_reproduced"] = bool(lost_a)
        ctx.extra["f8_resurrection_reproduced"] = bool(resurrected)
        if not lost_a and not resurrected and not f8_seen:
            ctx.notes.append("F8 no longer reproduces: c14_interleaved_refuted's witness does not fail on the real code (locking added?) — model must be updated")
            ctx.disagree("F8 witness", "F8_WITNESS", "no lost update on the real code", "model: lost update", True)

        # ---- G: the file system refuses (unreadable hosts file; rename refused -> non-atomic fallback)
        run_refused(ctx, fw, 150 if quick else 3000)

        # ---- H: update histories through the real firewall.main (names repeating, several helpers, arbitrary-bytes files)
        run_main_sessions(ctx, fw, 400 if quick else 8000)

        # ---- H-log: the same through the real firewall.main with failing log streams (verbosity x operation x class x mode)
        run_main_log_sessions(ctx, fw, 5 if quick else 30)

        # ---- H-sig: real signals at every hosts-file primitive of a whole session x the answer to the relay
        run_main_signals(ctx, fw, 40 if quick else 1500)

        # ---- E: outside the model
        run_outside_model(ctx, fw)
        ctx.notes.append("restore_etc_hosts does nothing when this instance never added a host (firewall.py:72): marked lines left behind "
                         "by an earlier, crashed session on the same port are then NOT removed at session end (they are removed by the "
                         "first rewrite of a later session on that port); modelled as is (hop_step/HEnd), c14_serial_histories claims "
                         "an instance's lines only once it has added a host")
        ctx.programs = ctx.evaluations
    finally:
        cleanup_base()


def replay(ctx, rp):
    """re-run a stored failing input against the real code; returns True if it still fails"""
    fw = load()
    r = rp.get("replay", {})

    def b(x):
        return None if x is None else (b"" if x == "-" else bytes.fromhex(x))
    try:
        if r.get("kind") == "single":
            w = World(b(r["content_hex"]), 0, 0, 0o644, None, True)
            snap0 = w.snapshot()
            with Patched(fw, w):
                st, _ = call_impl(fw, w, r["port"], r["map"], r.get("restore", False))
            got = w.hosts_bytes()
            same = w.snapshot() == snap0
            w.close()
            want = b(r["want_hex"])
            print("status", st, "got", got, "want", want, "directory untouched:", same)
            if r.get("undecodable"):
                return not ((st.startswith("crash") and same) or (st == "done" and got == want))
            return got != want
        if r.get("kind") == "main":
            content = b(r["content_hex"])
            ops = r["ops"]
            recs, snap0, seen, ids, fstok = run_main_scenario(fw, content, r.get("link_ok", True), ops)
            verdict = judge_main_scenario(content, ops, recs, snap0)
            for op, (st, data, snap) in zip(ops, recs):
                print(" ".join(str(x) for x in op), "->", st, "| hosts:", data)
            print("verdict:", verdict)
            return verdict is not None
        if r.get("kind") == "main-log":
            content = b(r["content_hex"])
            ops, log = r["ops"], r["log"]
            fverdict, sverdict, recs, env = run_main_log_case(fw, content, r.get("link_ok", True), ops, log)
            print("logging environment:", log_env_text(log, env, ops))
            for op, (st, data, snap) in zip(ops, recs):
                print(" ".join(str(x) for x in op), "->", st, "| hosts:", data)
            print("verdict (hosts file alone):", fverdict)
            print("verdict (section H, statuses included):", sverdict)
            return fverdict is not None
        if r.get("kind") == "refused":
            import io
            content = b(r["content_hex"])
            w = World(content, 0, 0, 0o644, None, True)
            real_rename = os.rename
            old_err, sys.stderr = sys.stderr, io.StringIO()
            try:
                with Patched(fw, w):
                    try:
                        if r["what"] == "unreadable":
                            def failing_open(path, mode="r", *a, **k):
                                if path == w.hosts and mode == "r":
                                    raise OSError(r["errno"], os.strerror(r["errno"]), path)
                                return _fw_open(path, mode, *a, **k)
                            fw.open = failing_open
                        else:
                            def refusing(src, dst, *a, **k):
                                if dst == w.hosts:
                                    raise OSError(r["errno"], os.strerror(r["errno"]))
                                return real_rename(src, dst, *a, **k)
                            os.rename = refusing
                        status, _ = call_impl(fw, w, r["port"], r["map"], r.get("restore", False))
                    finally:
                        os.rename = real_rename
            finally:
                sys.stderr = old_err
            got = w.hosts_bytes()
            left = [k for k in w.snapshot() if k.startswith("tmp")]
            w.close()
            want = content if r["what"] == "unreadable" else b(r["want_hex"])
            print("status", status, "got", got, "want", want, "left", left)
            return got != want or (r["what"] == "unreadable" and bool(left))
        if r.get("kind") == "sched":
            case = case_from_json(r["case"])
            bits = [int(x) for x in r.get("bits", "")]
            w = World(case[0], 0, 0, 0o644, case[3], case[4])

            def choose(avail):
                # follow the recorded order primitive by primitive
                while bits and bits[0] not in avail:
                    bits.pop(0)
                return bits.pop(0) if bits else sorted(avail)[0]
            with Patched(fw, w):
                order, fin = Sched(fw, w, {0: case[1], 1: case[2]}).run(choose)
            data = w.hosts_bytes()
            w.close()
            print("order:", " ".join(("A." if x == 0 else "B.") + n.split(":")[0] for x, n in order))
            ls = spec_norm_lines(data)
            bad = []
            for (port, hm, restore) in (case[1], case[2]):
                if [l for l in ls if marker(port) in l] != ([] if restore else spec_marked(port, hm)):
                    bad.append(port)
            print("final hosts:", data, "ports with wrong lines:", bad)
            return bool(bad) or base_lines(data, [case[1][0], case[2][0]]) != base_lines(case[0], [case[1][0], case[2][0]])
        if r.get("kind") == "stale":
            ops = [op_from_json(x) for x in r["ops"]]
            recs, snap, ids, fstok, longer = run_stale_history(fw, b(r["content_hex"]), b(r.get("bak_hex")), r.get("link_ok", True), ops)
            for op, (before, after, st, why) in zip(ops, recs):
                print(op_token(op)[:100], "->", st, "hosts:", after, "" if why is None else "  <-- " + why)
            return any(x[3] is not None for x in recs)
        if r.get("kind") == "crash":
            content = b(r["content_hex"])
            w = World(content, 0, 0, 0o644, b(r.get("bak_hex")), r.get("link_ok", True))
            with Patched(fw, w):
                call_impl(fw, w, r["port"], r["map"])
            full = w.hosts_bytes()
            w.close()
            w = World(content, 0, 0, 0o644, b(r.get("bak_hex")), r.get("link_ok", True))
            pid = os.fork()
            if pid == 0:
                def gate(rec, idx, name):
                    if idx >= r["k"]:
                        os._exit(0)
                with Patched(fw, w):
                    call_impl(fw, w, r["port"], r["map"], gate=gate)
                os._exit(0)
            os.waitpid(pid, 0)
            got = w.hosts_bytes()
            w.close()
            print("hosts at crash:", got)
            return got not in (content, full)
        if r.get("kind") == "main-signal":
            content = b(r["content_hex"])
            hosts = [tuple(h) for h in r["hosts"]]
            rec, snap0, snap = run_sig_session(fw, content, r.get("link_ok", True), r["port"], hosts, r["signal"], r["k"], r["answer"])
            bad = judge_sig_session(content, r["port"], snap0, snap)
            print("hosts file before:", content)
            print("HOST lines:", hosts, "| signal", r["signal"], "before primitive #%d" % r["k"], rec.get("fired"),
                  "(%s)" % sig_where(rec, r["k"]), "| os.kill toward the client answers", r["answer"])
            print("primitives of the session:", ",".join(e.split(":")[0] for e in rec["events"]), "| relays:", rec["kills"])
            print("session ended:", rec["status"], "| hosts file after:", snap.get("hosts", (None,))[0],
                  "| directory:", sorted(snap))
            print("verdict:", bad or None)
            return bool(bad)
        print("nothing replayable in", r.get("kind"))
        return False
    finally:
        cleanup_base()


if __name__ == "__main__":
    sys.path.insert(0, os.path.join(os.path.dirname(os.path.abspath(__file__)), ".."))
    import framework
    sys.exit(framework.main(sys.modules[__name__]))
