"""C10 — DNS queries are relayed verbatim, matched to their asker, at most once.

Correspondence (shared with C11, see dgram_common.py): the real client functions ondns / dns_done /
onaccept_udp / udp_done / onaccept_tcp / expire_connections on a real ssnet.Mux, and the real
server.main loop (real runonce, DnsProxy, UdpProxy, dns_req / udp_open / udp_req, sweeps) are run on
event scripts with a virtual clock and scripted sockets; the extracted Coq model (coq/Model/Dgram.v)
is run on the same scripts and every step (outputs + tables) is compared.
Composed system (Props/C10.v c10_no_cross_composed): the real client functions and the real server.main loop are
also run TOGETHER over two FIFO links on random system schedules (accept / server iteration / deliver) with unique
query and answer payloads; oracle on the real code alone: an answer received on the resolver socket that carried
query X is never handed to an asker other than X's — unless the run violates the stated system hypothesis
(no_stale_alloc), which the harness evaluates on the run itself; the stale-reuse witness is replayed.
The composition itself (coq/Model/DgramSys.v ystep) is extracted and compared with SystemRun step by step on the
same schedules, DNS-only and DNS/UDP/TCP mixed (see c11.py).
Name-server choice (dgram_common.run_c10_resolv): histories of ONE server process during which the remote host's /etc/resolv.conf
is rewritten - between two queries and between the attempts of one query - run through the real server.main, DnsProxy.try_send AND
the real helpers.get_random_nameserver / resolvconf_nameservers (only `open` as the helpers module sees it is scripted); oracle on
the real code alone: every attempt goes to port 53 of a server the file names AT THAT MOMENT (127.0.0.1 when it names none), or to
the configured resolver whatever the file says (Props/C10.v c10_attempt_target_current states the same of Model/DgramNs.v).
Attempt budget (dgram_common.attempt_oracle): the fake environment keeps a trace of every DNS_REQ frame the real Mux hands to the real
server.main and of every connect / send / recv on a resolver socket; oracle on the real code alone, over the WHOLE life of a query (any number
of loop iterations): no query leads to more than 3 attempts (connects on a fresh resolver socket), whatever mixture of connect, send and
receive errors (Props/C10.v c10_attempt_budget_whole_life: every run of try_send keeps tries <= 3 and tries counts the attempts so far;
c10_target_attempts + c10_target_retry state the budget 3 - tries for every run of try_send, first or re-entered)."""
import os
import sys

sys.path.insert(0, os.path.dirname(os.path.abspath(__file__)))
import dgram_common as dc  # noqa: E402

PROP = "C10"
RULE = ("event scripts: mostly-valid life cycles (query->reply, query->error->retry->reply, duplicate/late replies, "
        "expiry at t-1/t/t+1 around the 30 s horizon, interleaved sources and destinations, UDP_CLOSE racing with data, "
        "ssnet.MAX_CHANNEL 1..8 forcing exhaustion and wrap-around; TCP connections accepted AND FINISHED (real MuxWrapper noread + "
        "nowrite: the Mux keeps their identifiers as None-valued keys) between the queries / datagrams, so that after the cursor has "
        "wrapped only identifiers of finished TCP flows are free - every captured datagram must then still be forwarded) x payloads (empty, commas, NULs, 4096/4097 bytes) "
        "plus a malformed stream (bad headers, frames for foreign channels, re-opened channels); server crashes are "
        "judged by the script-level classification of c10_server_crash_classified; composed client+server runs on "
        "random schedules with MAX_CHANNEL in {65535, 8, 2, 1}; a script is "
        "non-trivial when it delivers a datagram or runs more than two steps; distinct by content hash of the script; "
        "resolv.conf histories: 11 handmade (rewritten between two queries / between attempt 1 and 2 of one query after a refused connect or send / "
        "while a query waits and its receive error triggers the retry; list becoming empty, file disappearing, empty or absent becoming non-empty; "
        "IPv4 -> IPv6; comment, malformed, mixed-case, tab-separated, CRLF lines; configured resolver) + 150 random (3000 thorough) server-process "
        "histories of 2-5 iterations with 0-2 queries each, up to 3 attempts per query, replies and receive errors, 1-3 name servers per file "
        "version out of 12 IPv4/IPv6 addresses, decoy addresses in comment/malformed lines; non-trivial when at least one attempt was made; "
        "attempt-budget scripts (compared with the model step by step like every server script): 4 handmade (receive errors only, refused 3 times and "
        "again on the sockets a 4th / 5th attempt would open; send error + 2 receive errors + an answer on a would-be 4th socket; 2 connect errors at "
        "dispatch + receive errors; two queries with interleaved refusals) + 150 random (3000 thorough) scripts of 3-10 iterations with 1-3 queries, "
        "each pursued with connect / send errors at dispatch (p 0, 0.2 or 0.5) and receive errors (85 % of the visits; NET_ERRS 9:1 other errnos) on the "
        "socket it currently waits on, well past three errors in total, the sockets of attempts beyond the budget offered as ready with an error too; "
        "every server script of the run (handmade, random, attempt-budget) is judged by the per-query attempt count; "
        "reply source (dgram_common.run_c10_reply_source): for EVERY module of sshuttle.methods whose Method overrides send_udp (found by introspection; "
        "ipfw and tproxy today) 3 handmade + 150 random (2000 thorough) client sessions of the real ondns / dns_done with 2-6 queries of 1-3 askers to 2-3 "
        "distinct name servers (IPv4, every fourth session IPv6), answers interleaved with later captures in any order; oracle on what leaves the fake "
        "kernel socket alone: the answer to a forwarded query leaves from the address the query was sent to and goes to the asker")
TRUSTED_BASE = [
    "the client's channel table is compared in identifier order, without the None-valued keys finished TCP flows leave behind (the code "
    "never iterates over mux.channels and reads it only through .get(): None and absent are the same to it - Model/Dgram.v tcp_end)",
    "the tproxy listener answers recvmsg() like Linux put_cmsg (control message cut to the buffer offered, MSG_CTRUNC; compared with the "
    "running kernel by ./check C05)",
    "modelled, not verified: CPython dict insertion order, bytes %-formatting of ints, bytes.split(b',', 2), struct.pack range checks",
    "the fake listener / sender / resolver sockets, pipe files, select() and clock of harness/props/dgram_common.py stand for the kernel",
    "OverflowError of socket.sendto for ports > 65535 is emulated by the fake socket",
    "reply source: socket.socket as the method module sees it is dgram_common.reply_source_run's KSock (a bound socket keeps its address, a second bind "
    "is EINVAL, any call on a closed socket is EBADF, sendto of an unbound socket autobinds to the wildcard address); the listener's control message is the "
    "one the method's option yields (BSD IP_RECVDSTADDR in_addr for a module that defines that constant, Linux IP(V6)_ORIGDSTADDR sockaddr otherwise); "
    "sockets left open are not judged; method modules that cannot be imported here (windivert without pydivert) are listed in the evidence, not run",
    "resolv.conf histories: the file boundary is `open` in the namespace of sshuttle.helpers (what tests/client/test_helpers.py patches too) serving "
    "the scripted current text of /etc/resolv.conf (FileNotFoundError when scripted absent); the file changes only at scripted points (before an "
    "iteration, right after an attempt's connect), never between get_random_nameserver's read and the connect that follows it; random.shuffle is the "
    "real one, seeded per history (the oracle is membership); the harness's own reading of resolv.conf(5) (dgram_common.spec_nameservers) is the spec side",
    "attempt budget: an attempt is attributed to a query at the boundary only - a connect on a resolver socket belongs to the DNS_REQ frame the real "
    "Mux dispatched last before it (observer wrapped around mux.got_dns_req, the Mux -> server.main interface) or, when a recv on a resolver socket came "
    "in between, to the query that socket was opened for; connects that follow neither in the same iteration are not counted",
    "resolv.conf histories are judged on the real code only: Model/DgramNs.v try_send_ns (per-attempt lists) is proved (c10_attempt_target_current) and "
    "proved equal to the extracted, compared try_send when no rewrite is scripted (c10_try_send_ns_conservative), but is not itself extracted / compared step by step",
]
ASSUMPTIONS = [
    "'a system name server of the remote host' is read as: named by a `nameserver` line of /etc/resolv.conf as it reads at the moment of the attempt "
    "(127.0.0.1 if none) - the non-Windows branch of helpers.get_random_nameserver; the Windows branch (powershell Get-DnsClientServerAddress, cached "
    "per process by the unchanged code) is not exercised; a history models one server process (the module's name-server cache is cleared at its start only)",
    "port fields put on the wire by the peer are plain ASCII digit strings (Python's int() also accepts signs, blanks and '_'; not modelled)",
    "socket.socket() itself and getaddrinfo() of the configured name server do not fail (EMFILE / gaierror are outside the model)",
    "same address-family constants on both ends (the UDP path passes listener.family through int())",
    "virtual time is integral seconds; client and server clocks are independent non-decreasing inputs",
    "c10_no_cross / c10_no_cross_composed hold under NoStaleReuse (stated in Props/C10.v; at system level once, as no_stale_alloc): an identifier is not put on the wire for a new DNS query while a DNS_REQ, a server DnsProxy or a DNS_RESPONSE of its previous incarnation is still in flight; c10_stale_reuse_example shows the cross delivery without it (needs the allocator to wrap around within one link latency: 65535 allocations with the default MAX_CHANNEL)",
    "whole-server no-crash theorems take the wire format for granted (16-bit identifiers) and, for 'never raises', a conforming peer (no DNS_REQ/UDP_OPEN on an open identifier, well-formed UDP bodies) and recvfrom peers of address size; for arbitrary scripts the possible exceptions are classified (c10_server_crash_classified)",
]


def correspondence(ctx):
    dc.run_check(ctx, PROP)


def replay(ctx, rp):
    return dc.replay(ctx, rp, PROP)


if __name__ == "__main__":
    sys.path.insert(0, os.path.join(os.path.dirname(os.path.abspath(__file__)), ".."))
    import framework
    sys.exit(framework.main(sys.modules[__name__]))
