"""C08 — stream core (see stream_common.py and coq/Model/Stream.v) plus the datagram flows of the real code
(DNS / UDP: see dgram_common.py, run_c08_dgram)."""
import os
import sys
sys.path.insert(0, os.path.dirname(os.path.abspath(__file__)))
import stream_common as sc  # noqa: E402
import dgram_common as dc  # noqa: E402

PROP = "C08"
DRIVER_PROP = "C01"
RULE = ("real ssnet.runonce on both tunnel ends over fake sockets, every micro-step replayed on the extracted model and the full "
        "state of both ends compared after every iteration; cases: connect refused/unreachable/timeout, reset or EPIPE on send/recv at a random operation index, failing shutdown, on either end, next to healthy flows; a case is non-trivial when at least one flow was "
        "accepted; distinct by case seed; PLUS datagram flows: the REAL server.main loop with a conforming peer, a healthy UDP association and DNS query next to 1-3 victim flows whose connect/send/recv/sendto/recvfrom fail with every errno of a 22-element set, persistently (every attempt) or transiently, probes on the healthy flows and a new query afterwards; the real client functions with the delivery of one source's replies failing at bind/sendto, persistently or once")
TRUSTED_BASE = sc.STREAM_TB + ["datagram part: the fake listener / reply / resolver sockets, select() and the two clocks (time.time and time.monotonic, different epochs) of harness/props/dgram_common.py stand for the kernel; it is an oracle on the real code only (the model comparison of the same code is done by ./check C10 and C11)"]
ASSUMPTIONS = sc.STREAM_ASSUMPTIONS
PROFILES = ["fault","fault","wrap","close"]


def correspondence(ctx):
    sc.stream_check(ctx, PROP, PROFILES, 120, 2500)
    # socket faults of DNS / UDP flows on both ends (server.py DnsProxy / UdpProxy, client.py dns_done / udp_done)
    dc.run_c08_dgram(ctx)
    ctx.programs = ctx.evaluations


def replay(ctx, rp):
    if rp.get("replay", {}).get("script"):
        return bool(dc.replay_c08_dgram(rp))
    return sc.stream_replay(ctx, rp, PROP)


if __name__ == "__main__":
    sys.path.insert(0, os.path.join(os.path.dirname(os.path.abspath(__file__)), ".."))
    import framework
    sys.exit(framework.main(sys.modules[__name__]))
