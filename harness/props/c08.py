"""C08 — stream core (see stream_common.py and coq/Model/Stream.v) plus the datagram flows of the real code
(DNS / UDP: see dgram_common.py, run_c08_dgram)."""
import os
import sys
sys.path.insert(0, os.path.dirname(os.path.abspath(__file__)))
import stream_common as sc  # noqa: E402
import dgram_common as dc  # noqa: E402

PROP = "C08"
DRIVER_PROP = "C01"
RULE = ("real ssnet.runonce on both tunnel ends over fake sockets, every micro-step replayed on the extracted model and the full "
        "state of both ends compared after every iteration; cases: connect refused/unreachable/timeout, reset or EPIPE on send/recv at a random operation index, failing shutdown, on either end, next to healthy flows (whose C01 oracles are reported here when they fail); a pending connect answered by EALREADY, by EINVAL + SO_ERROR (BSD) or the Windows way (simulated platform), an errno never heard of, a connection reset right after accept (no peer name), and the tunnel itself ending under open flows (end-of-stream, read error, EXIT message: implementation-side oracle on how the loops end); accept() failing with ECONNABORTED (real onaccept_tcp, scripted listener); a case is non-trivial when at least one flow was "
        "accepted; distinct by case seed; PLUS datagram flows: the REAL server.main loop with a conforming peer, a healthy UDP association and DNS query next to 1-3 victim flows whose connect/send/recv/sendto/recvfrom fail with every errno of a 22-element set, persistently (every attempt) or transiently, probes on the healthy flows and a new query afterwards; the real client functions with the delivery of one source's replies failing at bind/sendto, persistently or once")
TRUSTED_BASE = sc.STREAM_TB + ["datagram part: the fake listener / reply / resolver sockets, select() and the two clocks (time.time and time.monotonic, different epochs) of harness/props/dgram_common.py stand for the kernel; it is an oracle on the real code only (the model comparison of the same code is done by ./check C10 and C11)"]
ASSUMPTIONS = sc.STREAM_ASSUMPTIONS
PROFILES = ["fault","fault","wrap","close","tunnel"]


def fd_exhaustion(ctx):
    """descriptor-table exhaustion at accept(): the real client.onaccept_tcp against a simulated descriptor table
    (accept / open need a free slot, close frees one).  Implementation-only oracle: the connection that cannot be
    served is shed, nothing is raised, and the spare descriptor is held again afterwards."""
    import errno
    import socket
    import sshuttle.client as client
    real_os = client.os

    class Table(object):
        def __init__(self, free):
            self.free = free
            self.next = 1000
            self.open_fds = set()

        def take(self, err):
            if self.free <= 0:
                raise OSError(err, os.strerror(err))
            self.free -= 1
            self.next += 1
            self.open_fds.add(self.next)
            return self.next

        def give(self, fd):
            if fd in self.open_fds:
                self.open_fds.discard(fd)
                self.free += 1

    for err in (errno.EMFILE, errno.ENFILE):
        for pending in (1, 2, 5):
            for other_free_later in (False, True):
                t = Table(0)

                class FakeSock(object):
                    def __init__(self):
                        self.fd = t.take(err)
                        self.closed = False

                    def close(self):
                        if not self.closed:
                            self.closed = True
                            t.give(self.fd)

                class Listener(object):
                    def __init__(self):
                        self.accepted = []

                    def accept(self):
                        s_ = FakeSock()          # raises EMFILE/ENFILE when the table is full
                        self.accepted.append(s_)
                        return s_, ("10.0.0.9", 40000 + len(self.accepted))

                class OsProxy(object):
                    def __getattr__(self, k):
                        return getattr(real_os, k)

                    @staticmethod
                    def close(fd):
                        t.give(fd)

                    @staticmethod
                    def open(path, flags, *a):
                        return t.take(errno.EMFILE)

                t.free = 1
                spare = t.take(err)              # the spare descriptor the module keeps for this situation
                old = (client.os, client._extra_fd)
                client.os, client._extra_fd = OsProxy(), spare
                lst = Listener()
                what = None
                try:
                    for k in range(pending):
                        try:
                            client.onaccept_tcp(lst, None, None, [])
                        except BaseException as e:          # noqa
                            what = "onaccept_tcp raised %s while the descriptor table was full" % type(e).__name__
                            break
                        if client._extra_fd not in t.open_fds:
                            what = "the spare descriptor is not held any more after a connection was shed"
                            break
                        if other_free_later and k == 0:
                            pass
                    if what is None and (len(lst.accepted) != pending or not all(x.closed for x in lst.accepted)):
                        what = "a connection that could not be served was not accepted and closed"
                finally:
                    client.os, client._extra_fd = old
                ctx.case(("fdx", err, pending, other_free_later), nontrivial=True)
                ctx.count("fd_exhaustion_cases")
                if what:
                    ctx.violation(what, {"fd_exhaustion": {"errno": errno.errorcode[err], "pending_connections": pending}})


ACCEPT_SCRIPTS = [["abort"], ["ok", "abort", "ok"], ["abort", "abort", "ok"], ["ok", "ok", "abort"],
                  ["abort", "ok", "abort", "ok", "ok"]]


def run_accept_script(script):
    """the real client.onaccept_tcp on a real Mux; the listener's accept() answers per script: "ok" = a healthy
    connection, "abort" = the application reset its connection while it was waiting in the listen queue, which
    accept() reports as ECONNABORTED (POSIX; FreeBSD / macOS tcp_usr_accept).  Returns None or what went wrong."""
    import errno
    import socket
    import sshuttle.client as client
    import sshuttle.ssnet as ssnet

    class F(object):
        def fileno(self):
            return 7

        def read(self, n):
            return None

        def write(self, b):
            return len(b)

    class Sock(object):
        family = socket.AF_INET
        closed = False

        def __init__(self, n):
            self.n = n

        def fileno(self):
            return 100 + self.n

        def getsockname(self):
            return ("127.0.0.1", 12300)

        def getpeername(self):
            return ("10.1.1.%d" % self.n, 40000)

        def setblocking(self, x):
            pass

        def close(self):
            self.closed = True

    class Listener(object):
        def __init__(self):
            self.todo = list(script)
            self.accepted = []

        def accept(self):
            k = self.todo.pop(0)
            if k == "abort":
                raise OSError(errno.ECONNABORTED, os.strerror(errno.ECONNABORTED))
            s_ = Sock(len(self.accepted) + 1)
            self.accepted.append(s_)
            return s_, ("10.1.1.%d" % s_.n, 40000)

    class Method(object):
        @staticmethod
        def get_tcp_dstip(sock):
            return ("192.0.2.1", 80)

    mux = ssnet.Mux(F(), F())
    handlers = [mux]
    lst = Listener()
    for i, k in enumerate(script):
        try:
            client.onaccept_tcp(lst, Method, mux, handlers)
        except Exception as e:
            return ("connection %d of the script was reset while waiting to be accepted (accept() answers ECONNABORTED): "
                    "onaccept_tcp raised %s, which ends the client's main loop and with it every flow of the tunnel"
                    % (i + 1, type(e).__name__)) if k == "abort" else "onaccept_tcp raised %s on a healthy connection" % type(e).__name__
    want = script.count("ok")
    flows = [h for h in handlers if isinstance(h, ssnet.Proxy)]
    if len(flows) != want or any(x.closed for x in lst.accepted):
        return "%d healthy connections arrived next to the reset ones, %d were given a flow" % (want, len(flows))
    return None


def accept_abort(ctx):
    """a reset 'at any moment' includes the moment before the client accepts the connection"""
    for script in ACCEPT_SCRIPTS:
        what = run_accept_script(script)
        ctx.case(("accept_abort", tuple(script)), nontrivial=True)
        ctx.count("accept_abort_scripts")
        if what:
            ctx.violation("a connection reset before accept() takes the client down" if "reset while waiting" in what else what,
                          {"accept_script": script, "detail": what})


def correspondence(ctx):
    fd_exhaustion(ctx)
    accept_abort(ctx)
    sc.stream_check(ctx, PROP, PROFILES, 120, 2500)
    # socket faults of DNS / UDP flows on both ends (server.py DnsProxy / UdpProxy, client.py dns_done / udp_done)
    dc.run_c08_dgram(ctx)
    ctx.programs = ctx.evaluations


def replay(ctx, rp):
    if rp.get("replay", {}).get("fd_exhaustion"):
        n = len(ctx.violations)
        fd_exhaustion(ctx)
        return len(ctx.violations) > n
    if rp.get("replay", {}).get("accept_script"):
        r = run_accept_script(rp["replay"]["accept_script"])
        print("accept script:", rp["replay"]["accept_script"], "->", r)
        return bool(r)
    if rp.get("replay", {}).get("script"):
        return bool(dc.replay_c08_dgram(rp))
    return sc.stream_replay(ctx, rp, PROP)


if __name__ == "__main__":
    sys.path.insert(0, os.path.join(os.path.dirname(os.path.abspath(__file__)), ".."))
    import framework
    sys.exit(framework.main(sys.modules[__name__]))
