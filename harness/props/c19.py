"""C19 — remote host names cannot corrupt the hosts file nor get lost in transit.

Correspondence (real code from $VERIF_REPO against the extracted coq/Model/Hosts.v):
  scanner   real hostwatch.found_host / read_host_cache / _check_etc_hosts, sys.stdout captured,
            module state reset per case, CACHEFILE and '/etc/hosts' redirected to scratch files;
  scanner loop
            the real hostwatch.hw_main in generated "remote machines" (seed names, hosts file present / absent, cache
            present / absent / unreadable / unwritable, netstat output or no netstat, forward and reverse DNS tables with
            every failure class, the machine's own name); its stdin (select + os.read), clock, stdout, resolver and
            Popen are replaced from outside; oracles on the real code alone: nothing it meets ends it, nothing written
            is left unflushed when it goes to sleep; its output is compared with the model's found_host on the calls made;
  scanner process
            the real server.start_hostwatch: fork, socket pair as the child's stdin/stdout, real hw_main with real
            buffering; the records must arrive at the server's end and the child must leave with status 0;
  server loop
            the real server.main loop with a scanner attached (os.waitpid as seen by server.py scripted): it must poll
            the child without blocking, keep relaying while it lives, and leave with status 99 once it is gone;
  server    the real hostwatch_ready closure, reached by running the real server.main with a
            scripted hostwatch socket (server.start_hostwatch, server.io and ssnet.runonce replaced);
  client    the real onhostlist closure, reached by running the real client._main up to its main
            loop, with the real FirewallClient.sethostip writing into a buffer;
  helper    the real firewall.main fed the HOST lines the client wrote (a recording BytesIO as its stdin:
            the limit it passes to readline is observed there and handed to the model), real
            rewrite_etc_hosts on a scratch hosts file (firewall.HOSTSFILE);
  local file
            the same client -> helper -> rewrite_etc_hosts pipeline over LOCAL hosts files of arbitrary bytes (Latin-1 text,
            malformed UTF-8, UTF-16, NUL, CR, 70000-byte lines, no final newline, stale own lines): every line that does
            not carry this session's marker is byte-identical and in order after every rewrite and after the session, or
            the file is untouched (implementation-side oracle; the model statement is C14's c14_rewrite_any_bytes)."""
import builtins
import io
import os
import re
import shutil
import sys
import tempfile

PROP = "C19"
RULE = ("names x addresses x cuttings: adversarial names (separators, '#', blanks, tabs, newlines, NUL, non-ASCII, "
        "leading dot, commas, 1..70000 characters) and digit/dot garbage addresses through the real scanner functions; "
        "every cutting of short scanner streams and random cuttings (reads of 1..4096 bytes) of long ones through the real "
        "hostwatch_ready; arbitrary host-list payloads through the real onhostlist/sethostip and the real helper, including well-formed "
        "names of 107..60000 characters (HOST lines across every plausible reader limit), all compared with the model reading with the "
        "limit observed at the real helper's stdin; the scanner's main loop in generated remote machines (names with NUL, "
        "labels IDNA refuses, non-UTF-8 reverse-DNS answers, missing / unreadable / unwritable files, netstat present or not), "
        "the scanner as a forked process, the server's loop with the scanner attached; local hosts files of arbitrary bytes "
        "(not valid UTF-8, NUL, CR, very long lines, no final newline) under the client -> helper pipeline; a case is "
        "non-trivial when at least one record is emitted / relayed / filtered; distinct by content hash")
TRUSTED_BASE = [
    "modelled, not verified: CPython str/bytes split/strip/partition/%-formatting, re on the 6 patterns of Appendix D "
    "(\\w, \\d, isspace above U+007F are tables: theorems hold for every table, the correspondence passes CPython's own "
    "classification of the code points of each case), text-mode universal newlines, UTF-8 as the remote locale encoding",
    "the scripted socket / file objects of harness/props/c19.py stand for the hostwatch socketpair, the ssh pipe and the helper's stdin",
    "hw_main runs: select/os.read on stdin, time.time, sys.stdout, socket.gethostbyname/gethostbyaddr/gethostname (tables; the argument "
    "conversion that precedes a real lookup - idna codec, NUL check - is CPython's and is compared with the real socket functions where "
    "they fail before any lookup), subprocess.Popen(['netstat','-n']) and open() are stand-ins installed from outside; the process-level "
    "run uses the real fork/socketpair/select/stdout",
]
ASSUMPTIONS = [
    "the helper reads its input with stdin.readline() WITHOUT a limit (Gen/Consts.fw_readline_limit = None, regenerated from "
    "firewall.py and observed again at the helper's stdin on every run): HOST lines of every length are covered; if the source reads "
    "with a limit again the unconditional theorems stop checking and only the `_any_limit`/`_asfound_partial` ones (every HOST line "
    "fits one read; as found readline(128): len(name)+len(address) <= 121, F5) remain",
    "every line written by the scanner is at most 61440 bytes (61439 + newline); a longer line makes the server's Mux.send assertion fail (F26)",
    "the remote locale encoding is UTF-8 (what sys.stdout of hostwatch writes and what its text-mode open() decodes); undecodable bytes are read as U+FFFD once pending_fixes/F24_F25.diff is applied (as found: UnicodeDecodeError, F24)",
    "order of lines inside the hosts file and the untouched foreign lines are C14's (rewrite_etc_hosts, Model/HostsFile.v); here the fields of each added "
    "line, and - implementation-side oracle, no model of the file content in Model/Hosts.v - that no line without this session's marker changes whatever "
    "bytes the local file holds; a local file that does not decode (UTF-8 locale) ends the helper at its first HOST line with the file untouched: tolerated "
    "(no sentence of the property is about it), recorded as an observation",
    "names that arrive as C strings (command line, gethostname(), gethostbyaddr()) contain no NUL; names read from the remote hosts file / cache may; "
    "the output of `netstat -n` is ASCII (non-ASCII bytes there end hostwatch: recorded as an observation, a socket path is not a host name)",
]

PORT = 12300
MARKER = b"# sshuttle-firewall-%d AUTOCREATED" % PORT
FOREIGN = "127.0.0.1 localhost\n# a comment\n10.9.8.7   somebody.else  # keep me\n"


def hx(b):
    return b.hex() if b else "-"


def u32(s):
    return s.encode("utf-32-be", "surrogatepass").hex() if s else "-"


def un_u32(h):
    return "" if h == "-" else bytes.fromhex(h).decode("utf-32-be", "surrogatepass")


def tables(*strs):
    cps = sorted(set(c for s in strs for c in s if ord(c) >= 128))
    w = "".join(c for c in cps if re.fullmatch(r"\w", c))
    s = "".join(c for c in cps if c.isspace())
    d = "".join(c for c in cps if re.fullmatch(r"\d", c))
    return "%s %s %s" % (u32(w), u32(s), u32(d))


class StopLoop(Exception):
    pass


def strict_stdout():
    """what sys.stdout is in the real hostwatch child (python3 -c ... with a pipe / socket as fd 1 under a UTF-8 locale):
    a real io.TextIOWrapper, UTF-8, errors='strict' - unlike io.StringIO it refuses lone surrogates at write()"""
    return io.TextIOWrapper(io.BytesIO(), encoding="utf-8", errors="strict", newline="\n")


def encodable(t):
    try:
        t.encode("utf-8")
        return True
    except UnicodeEncodeError:
        return False


def bad_line(raw):
    """the first line of a remote file that is not UTF-8 (or the start of the file)"""
    for l in re.split(rb"(?<=\n)", raw):
        try:
            l.decode("utf-8")
        except UnicodeDecodeError:
            return l
    return raw[:80]


UNDECODABLE = [b"\xe9", b"\xff", b"\xc3", b"\xe4\xb8", b"\xed\xa0\x80", b"\x80", b"\xfe", b"\xc0\xaf", b"\xf5\x80\x80\x80", b"\xa0"]


def spoil(rng, raw, ctx=None):
    """undecodable bytes (0x80-0xff not forming UTF-8) put into a remote hosts / cache file: inside a name, inside an
    address, inside a comment - or anywhere"""
    for _ in range(rng.choice([1, 1, 2, 3])):
        where = rng.choice(["name", "name", "addr", "comment", "any"])
        spots = []
        if where == "name":
            spots = [m.start() + rng.randint(0, len(m.group())) for m in re.finditer(rb"(?<=[ \t,])[^\s#,]+|^[^\s#,]+(?=,)", raw, re.M)]
        elif where == "addr":
            spots = [m.start() + rng.randint(0, len(m.group())) for m in re.finditer(rb"^[0-9a-fA-F.:]+(?=[ \t])|(?<=,)[^\s,]+$", raw, re.M)]
        elif where == "comment":
            spots = [m.start() + rng.randint(1, len(m.group())) for m in re.finditer(rb"#[^\n]*", raw)]
        if not spots:
            where = "any"
            spots = [rng.randint(0, len(raw))]
        j = rng.choice(spots)
        raw = raw[:j] + rng.choice(UNDECODABLE) + raw[j:]
        if ctx is not None:
            ctx.count("scanner_file_undecodable_in_" + where)
    return raw


# --------------------------------------------------------------------------
# scanner

class Scanner:
    def __init__(self, work):
        import sshuttle.hostwatch as hw
        self.hw = hw
        self.work = work
        self.cache = os.path.join(work, "cache.hosts")
        self.etc = os.path.join(work, "remote_etc_hosts")
        hw.CACHEFILE = self.cache
        etc = self.etc

        def fake_open(path, mode="r", *a, **k):
            # '/etc/hosts' of the "remote" machine is a scratch file; text files are UTF-8
            if path == "/etc/hosts":
                path = etc
            if "b" not in mode and "encoding" not in k:
                k["encoding"] = "utf-8"
            return builtins.open(path, mode, *a, **k)
        hw.open = fake_open
        hw.log = lambda s: None

    def reset(self):
        hw = self.hw
        hw.hostnames.clear()
        hw.queue.clear()
        hw.SHOULD_WRITE_CACHE = False
        hw.CACHE_WRITE_FAILED = False

    def _run(self, fn):
        """fn under a stdout as strict as the real child's (UTF-8, errors='strict', over a byte stream); whatever the
        code raises - any class, SystemExit included - is an outcome for the oracle, never a harness error"""
        so = sys.stdout
        sys.stdout = buf = strict_stdout()
        self.last_exc = None
        try:
            try:
                fn()
                st = "OK"
            except UnicodeEncodeError as e:
                st = "CRASH"
                self.last_exc = e
            except UnicodeDecodeError as e:
                st = "DECODE"
                self.last_exc = e
            except RecursionError as e:
                st = "FUEL"
                self.last_exc = e
            except KeyboardInterrupt:
                raise
            except BaseException as e:      # anything else is reported verbatim (the model has no such outcome)
                st = ("EXIT:" if isinstance(e, SystemExit) else "EXC:") + type(e).__name__
                self.last_exc = e
        finally:
            sys.stdout = so
        try:
            buf.flush()
        except Exception:
            pass
        return "%s %s" % (st, u32(buf.buffer.getvalue().decode("utf-8", "replace")))

    def found_hosts(self, calls):
        self.reset()

        def go():
            for n, i in calls:
                self.hw.found_host(n, i)
        return self._run(go)

    def read_host_cache(self, content):
        """content: the bytes of the remote cache file"""
        self.reset()
        with open(self.cache, "wb") as f:
            f.write(content)
        try:
            return self._run(self.hw.read_host_cache)
        finally:
            for fn in os.listdir(self.work):
                if fn.startswith("cache.hosts"):
                    os.unlink(os.path.join(self.work, fn))

    def check_etc_hosts(self, content):
        """content: the bytes of the remote /etc/hosts"""
        self.reset()
        with open(self.etc, "wb") as f:
            f.write(content)
        return self._run(self.hw._check_etc_hosts)


# --------------------------------------------------------------------------
# server: the real hostwatch_ready closure

class FakeFile:
    def __init__(self, fd):
        self.fd = fd
        self.wire = b""

    def fileno(self):
        return self.fd

    def read(self, n=-1):
        return b""

    def write(self, b):
        self.wire += bytes(b)
        return len(b)

    def flush(self):
        pass


class FakeSock:
    def __init__(self):
        self.next = b""

    def fileno(self):
        return 7

    def recv(self, n):
        assert n == 4096 and len(self.next) <= n, "scripted chunk larger than the recv size"
        return self.next

    def close(self):
        pass


def impl_hw(chunks):
    """run the real server.main; inside its first runonce drive the real hostwatch_ready"""
    import sshuttle.server as server
    import sshuttle.ssnet as ssnet
    import sshuttle.helpers as helpers
    sock = FakeSock()
    res = {}

    class IoShim:
        @staticmethod
        def FileIO(fd, mode="r"):
            return FakeFile(fd)

    def fake_runonce(handlers, mux):
        n0 = len(handlers)
        mux.outbuf = []
        mux.got_host_req(b"")              # real closure: starts the (fake) hostwatch, registers the handler
        assert len(handlers) == n0 + 1
        h = handlers[-1]
        hwobj = [c.cell_contents for c in h.callback.__closure__
                 if hasattr(c.cell_contents, "leftover")][0]
        payloads, st = [], "OK"
        for c in chunks:
            sock.next = c
            k = len(mux.outbuf)
            try:
                h.callback(sock)
            except AssertionError:
                st = "ASSERT"
                break
            except helpers.Fatal as e:
                st = "DIED" if "hostwatch process died" in str(e) else "FATAL:%s" % e
                break
            new = mux.outbuf[k:]
            assert len(new) == 1
            fr = bytes(new[0])
            assert fr[:2] == b"SS" and fr[2:4] == b"\0\0" and fr[4:6] == bytes([ssnet.CMD_HOST_LIST >> 8, ssnet.CMD_HOST_LIST & 255])
            assert int.from_bytes(fr[6:8], "big") == len(fr) - 8
            payloads.append(fr[8:])
        res["v"] = "%s %s | %s" % (st, ";".join(hx(p) for p in payloads), hx(bytes(hwobj.leftover)))
        res["payloads"] = payloads
        res["status"] = st
        res["leftover"] = bytes(hwobj.leftover)
        raise StopLoop()

    old = (server.io, server.start_hostwatch, ssnet.runonce, ssnet.set_non_blocking_io, server.log)
    so = sys.stdout
    sys.stdout = io.StringIO()
    try:
        server.io = IoShim
        server.start_hostwatch = lambda seed, auto: (4242, sock)
        ssnet.runonce = fake_runonce
        ssnet.set_non_blocking_io = lambda fd: None
        server.log = lambda s: None
        try:
            server.main(False, 32768, False, None, False)
        except StopLoop:
            pass
    finally:
        sys.stdout = so
        server.io, server.start_hostwatch, ssnet.runonce, ssnet.set_non_blocking_io, server.log = old
    return res


# --------------------------------------------------------------------------
# client: the real onhostlist closure + real sethostip

class PFile:
    def __init__(self):
        self.data = b""

    def write(self, b):
        self.data += bytes(b)

    def flush(self):
        pass


def with_client(fn):
    """run the real client._main up to its main loop, then call fn(got_host_list, pfile)"""
    import sshuttle.client as client
    import sshuttle.ssnet as ssnet
    import sshuttle.ssh as ssh
    import sshuttle.helpers as helpers

    class R:
        def __init__(self):
            self.data = b"\0\0SSHUTTLE0001"

        def fileno(self):
            return 0

        def read(self, n=-1):
            d, self.data = self.data[:n], self.data[n:]
            return d

    class Proc:
        pid = 4242

        def poll(self):
            return None

    class L:
        v4 = object()
        v6 = None

        def add_handler(self, *a):
            pass

    fw = object.__new__(client.FirewallClient)     # real class, real sethostip; no helper process
    fw.method = None
    fw.auto_nets = []
    fw.pfile = PFile()
    out = {}

    def fake_runonce(handlers, mux):
        out["v"] = fn(mux.got_host_list, fw.pfile)
        raise StopLoop()
    old = (ssh.connect, ssnet.runonce, helpers.log, client.log, ssnet.set_non_blocking_io)
    so = sys.stdout
    try:
        ssh.connect = lambda *a, **k: (Proc(), R(), FakeFile(1))
        ssnet.runonce = fake_runonce
        ssnet.set_non_blocking_io = lambda fd: None
        client.log = helpers.log = lambda s: None
        try:
            client._main(L(), None, fw, None, "remote", None, False, 0, None, None, False, False,
                         False, None, False, None)
        except StopLoop:
            pass
    finally:
        ssh.connect, ssnet.runonce, helpers.log, client.log, ssnet.set_non_blocking_io = old
        sys.stdout = so
    return out["v"]


def client_payloads(got_host_list, pfile, payloads):
    """feed payloads one after the other; stop at the first exception (the client dies)"""
    pfile.data = b""
    st = "OK"
    for p in payloads:
        try:
            got_host_list(p)
        except AssertionError:
            st = "AssertionError"
            break
        except ValueError:
            st = "ValueError"
            break
        except Exception as e:
            st = "EXC:" + type(e).__name__
            break
    return st, pfile.data


def split_lines(data):
    ls = data.split(b"\n")
    assert ls[-1] == b""
    return [l + b"\n" for l in ls[:-1]]


# --------------------------------------------------------------------------
# helper: the real firewall.main on a scratch hosts file

class FakeMethod:
    name = "fake"

    def is_supported(self):
        return True

    def setup_firewall(self, *a):
        pass

    def restore_firewall(self, *a):
        pass

    def wait_for_firewall_ready(self, *a):
        raise NotImplementedError()

    def firewall_command(self, line):
        return False


class RecStdin(io.BytesIO):
    """the helper's stdin: records the limit passed to every readline and what it returned"""

    def __init__(self, data):
        io.BytesIO.__init__(self, data)
        self.reads = []

    def readline(self, *a):
        r = io.BytesIO.readline(self, *a)
        lim = a[0] if a and a[0] is not None and a[0] >= 0 else None
        self.reads.append((lim, r))
        return r


def consts_readline_limit():
    """fw_readline_limit as regenerated into coq/Gen/Consts.v for this run: None or an int"""
    root = os.path.dirname(os.path.dirname(os.path.dirname(os.path.abspath(__file__))))
    txt = open(os.path.join(root, "coq", "Gen", "Consts.v")).read()
    m = re.search(r"Definition fw_readline_limit : option N := (None|Some (\d+))\.", txt)
    if not m:
        raise RuntimeError("fw_readline_limit not found in coq/Gen/Consts.v")
    return None if m.group(1) == "None" else int(m.group(2))


def sx_lines(data):
    """lines of a hosts file of ARBITRARY bytes (bytes <-> str one to one: a byte that does not decode becomes a lone
    surrogate), modulo what C14 documents as normalised: text-mode newline translation, white space at the very end"""
    s = data.decode("utf-8", "surrogateescape").replace("\r\n", "\n").replace("\r", "\n")
    return s.rstrip().split("\n")


def foreign_lines(data):
    """the lines that do not carry this session's marker"""
    mk = MARKER.decode()
    # (nothing at all - an empty file, a file of own lines only - is one empty line)
    return "\n".join(l for l in sx_lines(data) if mk not in l).rstrip().split("\n")


def decodes(data):
    try:
        data.decode("utf-8")
        return True
    except UnicodeDecodeError:
        return False


def impl_helper(work, host_bytes, foreign=None):
    import sshuttle.firewall as firewall
    import sshuttle.helpers as helpers
    hosts = os.path.join(work, "local_etc_hosts")
    fb = FOREIGN.encode() if foreign is None else foreign
    for fn in os.listdir(work):
        if fn.startswith("local_etc_hosts"):
            os.unlink(os.path.join(work, fn))
    with open(hosts, "wb") as f:
        f.write(fb)
    ino0 = os.stat(hosts).st_ino
    keep = os.path.join(work, "keep_inode")          # the inode number cannot be handed out again while this link exists
    if os.path.exists(keep):
        os.unlink(keep)
    os.link(hosts, keep)
    bak = hosts + ".sbak"
    every = []          # (hosts bytes, None | name of the exception) after EVERY call of rewrite_etc_hosts, restore included
    stdin = RecStdin(b"ROUTES\nNSLIST\nPORTS 0,%d,0,0\nGO 0 - - 0x01 4242\n" % PORT + host_bytes)
    stdout = io.BytesIO()
    snaps = []
    real_rewrite = firewall.rewrite_etc_hosts

    def rewrite(hostmap, port):
        exc = None
        try:
            real_rewrite(hostmap, port)
        except BaseException as e:        # noqa
            exc = type(e).__name__
            raise
        finally:
            every.append((open(hosts, "rb").read(), exc))
        if hostmap:
            snaps.append(open(hosts, "rb").read())
    old = (firewall.setup_daemon, firewall.get_method, firewall.flush_systemd_dns_cache, firewall.HOSTSFILE,
           firewall.rewrite_etc_hosts, helpers.log, firewall.sshuttle_pid)
    olds = getattr(firewall, "log", None)
    st = None
    try:
        firewall.setup_daemon = lambda: (stdin, stdout)
        firewall.get_method = lambda name: FakeMethod()
        firewall.flush_systemd_dns_cache = lambda: None
        firewall.HOSTSFILE = hosts
        firewall.rewrite_etc_hosts = rewrite
        helpers.log = lambda s: None
        try:
            firewall.main("fake", False)
            # main returned: at end of input (the helper of a live session would still be waiting) or on a blank read
            st = "RUNNING" if stdin.reads and stdin.reads[-1][1] == b"" else "RETURN"
        except helpers.Fatal:
            st = "FATAL"
        except ValueError as e:
            st = "CRASH " + type(e).__name__
        except Exception as e:
            st = "CRASH " + type(e).__name__
    finally:
        (firewall.setup_daemon, firewall.get_method, firewall.flush_systemd_dns_cache, firewall.HOSTSFILE,
         firewall.rewrite_etc_hosts, helpers.log, firewall.sshuttle_pid) = old
    final = open(hosts, "rb").read()
    last = snaps[-1] if snaps else fb
    if foreign is None:
        mine = [l for l in last.split(b"\n") if MARKER in l]
        other = b"\n".join(l for l in last.split(b"\n") if MARKER not in l)
        foreign_ok, restored = other == fb, final == fb
    else:
        mine = [l.encode("utf-8", "surrogateescape") for l in sx_lines(last) if MARKER.decode() in l] if snaps else []
        # every line that does not carry this session's marker is byte-identical and in order after every rewrite ...
        foreign_ok = all(d == fb or foreign_lines(d) == foreign_lines(fb) for d, _ in every)
        # ... and after the session (own lines gone once a host had been added), or the file is untouched
        restored = final == fb or (foreign_lines(final) == foreign_lines(fb) and (not snaps or MARKER not in final))
    left = sorted(fn for fn in os.listdir(work) if fn.startswith("local_etc_hosts") and fn != "local_etc_hosts")
    os.unlink(keep)
    return {"status": st, "lines": mine, "foreign_ok": foreign_ok,
            "restored": restored, "n_snaps": len(snaps), "every": every, "final": final,
            "untouched": final == fb and os.stat(hosts).st_ino == ino0 and not left, "left": left,
            "limits": sorted(set(l for l, _ in stdin.reads), key=lambda x: (x is not None, x or 0))}


def lim_str(lim):
    return "-" if lim is None else str(lim)


def delivery(ls, h):
    """(want, have): name -> address as forwarded by the client in HOST lines / as found in the hosts file"""
    want = {}
    for l in ls:
        if l.startswith(b"HOST ") and b"," in l:
            nm, ip = l[5:].rstrip(b"\n").split(b",", 1)
            want[nm] = ip
    have = {}
    for l in h["lines"]:
        f = l.split()
        if len(f) >= 2:
            have[f[1]] = f[0]
    return want, have


LINE_RE = re.compile(rb"(\d{1,3})\.(\d{1,3})\.(\d{1,3})\.(\d{1,3}) ([-A-Za-z0-9_.]+) *# sshuttle-firewall-\d+ AUTOCREATED\Z")


def line_ok(l):
    m = LINE_RE.match(l)
    return bool(m) and all(int(m.group(i)) <= 255 for i in (1, 2, 3, 4)) and l.split() == [l.split()[0], l.split()[1]] + MARKER.split()


# --------------------------------------------------------------------------
# generators

NAME_ALPHA = ["a", "b", "z", "A", "Q", "0", "7", "-", "_", ".", ".", ",", "#", " ", "\t", "\n", "\r", "\0", "!", "/", ":",
              "\x0b", "\x1c", "\x1f", "\x7f", "\x85", "\xa0", "\xf6", "\xe9", "\u4e2d", "\u0661", "\xb2", "\u2028",
              "\u200b", "\U0001d7d8", "\U0001f600"]
IP_ALPHA = list("0123456789") + ["."] * 4
FIXED_NAMES = ["bad!host", "h\xf6st", "h\xf6st.example.org", ".leading", "", ".", "..", "a.b\nc.d", "localhost", "localhost.localdomain",
               "x,y", "na me", "na\tme", "c#omment", "nul\0name", "good-name_1.example.com", "a" * 106, "a" * 107, "a" * 121,
               "UPPER.Case", "\u0661\u0662", "-", "_", "tr\xe9s.long." + "x" * 300, "\n", "a\n", "\r\n", "a\rb", "127.0.0.1"]
FIXED_IPS = ["1.2.3.4", "10.0.0.1", "255.255.255.255", "0.0.0.0", "12", "1..2", "", ".", "1.2.3", "1.2.3.4.5", "256.1.1.1", "1.2.3.256",
             "01.02.03.04", "1.2.3.4 ", "127.0.0.1", "127.1", "255.0.0.1", "1.2.3.4\n", "\u0661.\u0662.\u0663.\u0664", "9999.1.1.1",
             "1.2.3.0004", "1,2.3.4", "1.2.3.4#", "192.168.100.200"]


def rand_name(rng, big=False):
    r = rng.random()
    if r < 0.12:
        return rng.choice(FIXED_NAMES)
    if r < 0.5:      # mostly valid DNS-ish name
        labels = ["".join(rng.choice("abcxyzABC019-_") for _ in range(rng.randint(1, 8))) for _ in range(rng.randint(1, 4))]
        s = ".".join(labels)
        if rng.random() < 0.3:     # one adversarial character somewhere
            k = rng.randint(0, len(s))
            s = s[:k] + rng.choice(NAME_ALPHA) + s[k:]
        return s
    n = rng.choice([1, 2, 3, 5, 8, 13, 30, 64, 100, 106, 107, 121, 122, 127, 128, 255])
    if big and rng.random() < 0.3:
        n = rng.choice([4095, 4096, 4097, 61438, 65535, 70000])
        blk = "".join(rng.choice(NAME_ALPHA) for _ in range(53))
        return (blk * (n // 53 + 1))[:n]
    return "".join(rng.choice(NAME_ALPHA) for _ in range(n))


def rand_ip(rng):
    r = rng.random()
    if r < 0.25:
        return rng.choice(FIXED_IPS)
    if r < 0.65:
        return ".".join(str(rng.choice([0, 1, 9, 10, 99, 100, 127, 199, 200, 249, 250, 255, 256, 300, 999, rng.randint(0, 255)])) for _ in range(4))
    if r < 0.8:
        return ".".join(str(rng.randint(0, 255)) for _ in range(rng.choice([1, 2, 3, 5])))
    return "".join(rng.choice(IP_ALPHA) for _ in range(rng.randint(0, 18)))


def cuttings(n):
    for mask in range(1 << (n - 1)) if n > 0 else [0]:
        cuts = [0] + [i + 1 for i in range(n - 1) if mask >> i & 1] + [n]
        yield [(cuts[i], cuts[i + 1]) for i in range(len(cuts) - 1)]


def random_cut(rng, s, maxpieces=10):
    if not s:
        return []
    k = rng.randint(1, maxpieces)
    pts = sorted(set(rng.randint(1, len(s) - 1) for _ in range(k - 1))) if len(s) > 1 else []
    pts = [0] + pts + [len(s)]
    res = []
    for c in (s[pts[i]:pts[i + 1]] for i in range(len(pts) - 1)):
        while len(c) > 4096:
            k = rng.choice([4096, 4096, rng.randint(1, 4096)])
            res.append(c[:k])
            c = c[k:]
        if c:
            res.append(c)
    return res


def enc_chunk(c):
    return {"byte": c[0], "n": len(c)} if c == c[:1] * len(c) else hx(c)


def dec_chunk(e):
    return bytes([e["byte"]]) * e["n"] if isinstance(e, dict) else (bytes.fromhex(e) if e != "-" else b"")


def spec_relay(stream):
    """stream-level specification, computed independently of model and code"""
    k = stream.rfind(b"\n") + 1
    return stream[:k], stream[k:]


# --------------------------------------------------------------------------

def correspondence(ctx):
    rng = ctx.rng
    quick = ctx.quick()
    root = os.path.dirname(os.path.dirname(os.path.dirname(os.path.abspath(__file__))))
    work = os.path.join(root, ".work", "C19.%d" % os.getpid())
    os.makedirs(work, exist_ok=True)
    try:
        _correspondence(ctx, rng, quick, work)
    finally:
        shutil.rmtree(work, ignore_errors=True)


def check_dns_names(ctx, rng):
    """the scanner's name lookup: a name that cannot be represented as a DNS name is skipped, never ends the scanner.
    Real hostwatch._check_dns; gethostbyname is the real IDNA encoding step of CPython followed by a table lookup
    (no network): it raises exactly what the real call raises before any packet would be sent."""
    import socket as real_socket
    import sshuttle.hostwatch as hostwatch

    table = {"known.example": "10.1.2.3", "b\xfccher.example": "10.1.2.4"}

    class SockProxy(object):
        def __getattr__(self, k):
            return getattr(real_socket, k)

        @staticmethod
        def gethostbyname(name):
            resolver_arg(name)               # UnicodeError for empty / over-long labels and unencodable text, TypeError for NUL
            ip = table.get(name)
            if ip is None:
                raise real_socket.gaierror(-2, "Name or service not known")
            return ip

    names = ["nul\0name", "a\0", "known.example", "unknown.example", "a" * 63 + ".example", "a" * 64 + ".example", "a..b", ".", "..", "",
             "x." + "b" * 64, "\ufffd.example", "caf\xe9.example", "b\xfccher.example", "\udcff.example", "a" * 300,
             "xn--.example", "-.-", " lead.example", "tab\t.example", "\u2603.example", "a.b." + "c" * 70 + ".d"]
    names += ["".join(rng.choice("ab.-_\xe9\ufffd") for _ in range(rng.randint(1, 80))) for _ in range(60)]
    old = (hostwatch.socket, hostwatch.found_host, hostwatch.check_host)
    found = []
    hostwatch.socket = SockProxy()
    hostwatch.found_host = lambda n, ip: found.append((n, ip))
    hostwatch.check_host = lambda ip: None
    try:
        for n in names:
            ctx.case(("check_dns", n), nontrivial=True)
            ctx.count("scanner_lookup_names")
            try:
                hostwatch._check_dns(n)
            except BaseException as e:      # noqa
                ctx.violation(F110_WHAT if ("\0" in n and isinstance(e, TypeError)) else
                              "the scanner's lookup of a name that cannot be represented ended the scanner (%s)" % type(e).__name__,
                              {"stage": "check_dns", "name": repr(n)[:200]})
    finally:
        hostwatch.socket, hostwatch.found_host, hostwatch.check_host = old
    if ("known.example", "10.1.2.3") not in found:
        ctx.disagree("check_dns", "known.example", found[:3], "resolvable names are reported")


# --------------------------------------------------------------------------
# the scanner's main loop (hostwatch.hw_main), its process (server.start_hostwatch) and the server's watch over it

F110_WHAT = ("F110: a host name with a NUL byte in the remote hosts file ends the scanner process (gethostbyname refuses it with TypeError, "
             "which escapes _check_dns); the server then ends the session")


def resolver_arg(name):
    """What CPython does with the host argument of gethostbyname / gethostbyaddr BEFORE anything is looked up
    (format 'et' with the idna codec): UnicodeError for text IDNA refuses, TypeError for an embedded NUL."""
    b = name.encode("idna") if isinstance(name, str) else bytes(name)
    if b"\0" in b:
        raise TypeError("argument 1 must be encoded string without null bytes, not str")
    return b


class Shim(object):
    """module replacement: the listed attributes are overridden, everything else comes from the real module"""

    def __init__(self, real, **over):
        self.__dict__["_real"] = real
        self.__dict__.update(over)

    def __getattr__(self, k):
        return getattr(self._real, k)


def make_resolver(w):
    """hostwatch.socket replacement: gethostbyname / gethostbyaddr / gethostname answer from the world's tables
    (no network); the argument conversion that precedes every real lookup is the real one (resolver_arg)"""
    import socket as real_socket

    def gethostbyname(name):
        resolver_arg(name)
        v = w["dns"].get(name)
        if v is None or v == "gaierror":
            raise real_socket.gaierror(-2, "Name or service not known")
        return v

    def gethostbyaddr(ip):
        resolver_arg(ip)
        v = w["rev"].get(ip)
        if v is None or v == "herror":
            raise real_socket.herror(1, "Unknown host")
        if v == "gaierror":
            raise real_socket.gaierror(-2, "Name or service not known")
        if v == "oserror":
            raise OSError(22, "Invalid argument")
        if v == "decode":      # an h_name that is not UTF-8: PyUnicode_FromString fails
            raise UnicodeDecodeError("utf-8", b"\xe9t\xe9", 0, 1, "invalid continuation byte")
        return (v, [], [ip])
    return Shim(real_socket, gethostbyname=gethostbyname, gethostbyaddr=gethostbyaddr, gethostname=lambda: w["hostname"])


class ScanStop(BaseException):
    pass


class ScanOut:
    """the scanner's stdout: what was written and how much of it has been flushed"""

    def __init__(self, fail_flush_at=None):
        self.parts = []
        self.flushed = 0
        self.nflush = 0
        self.broken = False          # a flush has failed: the reader is gone
        self.fail_flush_at = fail_flush_at
        self.strict = strict_stdout()

    def write(self, s):
        self.strict.write(s)         # as strict as the real child's stdout: what UTF-8 cannot carry raises here
        self.strict.buffer.seek(0)
        self.strict.buffer.truncate()
        self.parts.append(s)
        return len(s)

    def flush(self):
        self.nflush += 1
        if self.fail_flush_at is not None and self.nflush >= self.fail_flush_at:
            self.broken = True
            raise IOError(32, "Broken pipe")
        self.flushed = len(self.parts)

    def unflushed(self):
        return "".join(self.parts[self.flushed:])

    def text(self):
        return "".join(self.parts)


def scan_files(work, w):
    """lay out the remote machine's files of world w; returns (CACHEFILE, path standing for /etc/hosts)"""
    d = os.path.join(work, "remote")
    shutil.rmtree(d, ignore_errors=True)
    os.makedirs(d)
    cache = os.path.join(d, "cache.hosts")
    etc = os.path.join(d, "etc_hosts")
    if w.get("cache") == "DIR":
        os.mkdir(cache)
    elif w.get("cache") is not None:
        with open(cache, "wb") as f:
            f.write(bytes.fromhex(w["cache"]))
    if w.get("etc") is not None:
        with open(etc, "wb") as f:
            f.write(bytes.fromhex(w["etc"]))
    return cache, etc


def install_scanner_world(hw, work, w):
    """replace, from outside, what hostwatch reaches of the remote machine: files, resolver, netstat.
    Returns a restore function.  (stdin / stdout / select / clock are NOT touched here.)"""
    import subprocess as real_subprocess
    cache, etc = scan_files(work, w)

    def fake_open(path, mode="r", *a, **k):
        if path == "/etc/hosts":
            path = etc
        if w.get("tmp_unwritable") and "w" in mode and str(path).endswith(".tmp"):
            raise OSError(13, "Permission denied", path)      # the remote home directory cannot be written
        if "b" not in mode and "encoding" not in k:
            k["encoding"] = "utf-8"
        return builtins.open(path, mode, *a, **k)

    class Popen:
        def __init__(self, argv, **kw):
            if argv[:1] != ["netstat"]:
                raise AssertionError("unexpected command %r" % (argv,))
            if w.get("netstat") is None:
                raise OSError(2, "No such file or directory", "netstat")
            self.stdout = io.BytesIO(bytes.fromhex(w["netstat"]))

        def wait(self):
            return w.get("netstat_rv", 0)

    old = (getattr(hw, "open", None), hw.CACHEFILE, hw.socket, hw.ssubprocess, hw.log)
    hw.open = fake_open
    hw.CACHEFILE = cache
    hw.socket = make_resolver(w)
    hw.ssubprocess = Shim(real_subprocess, Popen=Popen)
    hw.log = lambda s: None

    def restore():
        o, hw.CACHEFILE, hw.socket, hw.ssubprocess, hw.log = old
        if o is None:
            del hw.open
        else:
            hw.open = o
        hw.hostnames.clear()
        hw.queue.clear()
        hw.SHOULD_WRITE_CACHE = False
        hw.CACHE_WRITE_FAILED = False
    restore_state = restore
    hw.hostnames.clear()
    hw.queue.clear()
    hw.SHOULD_WRITE_CACHE = False
    hw.CACHE_WRITE_FAILED = False
    return restore_state


def run_hw_main(work, w):
    """the real hostwatch.hw_main, in this process, in world w.  stdin: from the w['eof_after']-th wait (select with a
    timeout) on - or from select call number w['eof_at_select'] on - the parent is gone (readable, read returns b'');
    select calls listed in w['data_at'] find stdin readable with a byte to read.  Every wait advances the clock by the
    next entry of w['dts']."""
    import select as real_select
    import time as real_time
    import sshuttle.hostwatch as hw
    import sshuttle.helpers as helpers
    out = ScanOut(w.get("fail_flush_at"))
    st = {"selects": 0, "waits": 0, "now": 1000000.0, "unflushed_at_wait": None, "readable": None, "calls": [], "depth": 0, "after_eof": 0}
    dts = w.get("dts") or [1]

    class In:
        @staticmethod
        def fileno():
            return 0

    def fake_select(r, wr, x, timeout=None):
        st["selects"] += 1
        if timeout:
            st["now"] += dts[st["waits"] % len(dts)]
            st["waits"] += 1
        if st["waits"] >= w["eof_after"] or (w.get("eof_at_select") and st["selects"] >= w["eof_at_select"]):
            st["after_eof"] += 1
            if st["after_eof"] > 8:
                raise ScanStop()          # the parent went away long ago and the scanner is still running
            st["readable"] = b""
            return (list(r), [], [])
        if st["selects"] in w.get("data_at", ()):
            st["readable"] = b"\n"
            return (list(r), [], [])
        if timeout and out.unflushed() and not out.broken and st["unflushed_at_wait"] is None:
            st["unflushed_at_wait"] = out.unflushed()      # the parent is there, nothing to read: this wait blocks
        return ([], [], [])

    def fake_read(fd, n):
        return st["readable"]

    real_found = hw.found_host

    def found_logged(name, ip):
        if st["depth"] == 0:
            st["calls"].append((name, ip))
        st["depth"] += 1
        try:
            return real_found(name, ip)
        finally:
            st["depth"] -= 1

    restore = install_scanner_world(hw, work, w)
    old = (hw.sys, hw.select, hw.os, hw.time, hw.found_host, helpers.logprefix)
    hw.sys = Shim(sys, stdout=out, stdin=In)
    hw.select = Shim(real_select, select=fake_select)
    hw.os = Shim(os, read=fake_read)
    hw.time = Shim(real_time, time=lambda: st["now"])
    hw.found_host = found_logged
    try:
        try:
            rv = hw.hw_main(list(w["seeds"]), w["auto"])
            status = "RETURN" if not rv else "RETURN %r" % (rv,)
        except ScanStop:
            status = "STILL-RUNNING"
        except RecursionError:
            status = "FUEL"
        except Exception as e:
            status = "EXC:" + type(e).__name__
    finally:
        hw.sys, hw.select, hw.os, hw.time, hw.found_host, helpers.logprefix = old
        restore()
    return {"status": status, "text": out.text(), "unflushed_at_wait": st["unflushed_at_wait"], "calls": st["calls"],
            "unflushed_at_end": out.unflushed(), "waits": st["waits"], "flushes": out.nflush}


def run_hostwatch_process(work, w, want_bytes, patience=6.0):
    """the real server.start_hostwatch: a forked child with the socket pair as its stdin and stdout runs the real
    hw_main (real select / read / clock / stdout buffering) in world w.  Reads what arrives on the server's end until
    `want_bytes` bytes are there (or patience runs out), then closes it (the scanner sees end of input) and reaps the child."""
    import select as real_select
    import time as real_time
    import sshuttle.server as server
    import sshuttle.hostwatch as hw
    import sshuttle.helpers as helpers
    restore = install_scanner_world(hw, work, w)
    oldlog, oldprefix = server.log, helpers.logprefix
    server.log = lambda s: None
    got = b""
    sys.stdout.flush()
    sys.stderr.flush()
    try:
        pid, sock = server.start_hostwatch(list(w["seeds"]), w["auto"])
        try:
            t_end = real_time.time() + patience
            while len(got) < want_bytes and real_time.time() < t_end:
                r, _, _ = real_select.select([sock], [], [], 0.25)
                if r:
                    c = sock.recv(4096)
                    if not c:
                        break
                    got += c
        finally:
            sock.close()
        t_end = real_time.time() + patience
        status = None
        while real_time.time() < t_end:
            rpid, rv = os.waitpid(pid, os.WNOHANG)
            if rpid:
                status = rv
                break
            real_time.sleep(0.02)
        if status is None:
            os.kill(pid, 9)
            os.waitpid(pid, 0)
            status = "no exit after its input ended"
    finally:
        server.log, helpers.logprefix = oldlog, oldprefix
        restore()
    return {"bytes": got, "exit": status}


def impl_server_watch(answers, chunks, seeds=b"alpha beta"):
    """the real server.main loop with a scanner attached: the first (scripted) runonce delivers the client's host request
    (real got_host_req -> start_hostwatch, replaced by a scripted socket with pid 4242); every later runonce lets the real
    hostwatch_ready read the next chunk.  os.waitpid, as seen by server.py, answers from `answers` and records how it was asked."""
    import sshuttle.server as server
    import sshuttle.ssnet as ssnet
    import sshuttle.helpers as helpers
    sock = FakeSock()
    res = {"waitpid": [], "payloads": [], "started": [], "runonce": 0, "exit": None, "relay": "OK"}
    todo = list(chunks)
    ans = list(answers)

    class IoShim:
        @staticmethod
        def FileIO(fd, mode="r"):
            return FakeFile(fd)

    def fake_waitpid(pid, options):
        res["waitpid"].append((pid, options))
        if not ans:
            raise StopLoop()
        return ans.pop(0)

    def fake_start(seed_hosts, auto_hosts):
        res["started"].append((list(seed_hosts), auto_hosts))
        return (4242, sock)

    def fake_runonce(handlers, mux):
        res["runonce"] += 1
        if res["runonce"] == 1:
            mux.outbuf = []
            mux.got_host_req(seeds)
            return
        if not todo:
            raise StopLoop()
        sock.next = todo.pop(0)
        k = len(mux.outbuf)
        handlers[-1].callback(sock)
        for fr in mux.outbuf[k:]:
            res["payloads"].append(bytes(fr)[8:])

    old = (server.io, server.start_hostwatch, ssnet.runonce, ssnet.set_non_blocking_io, server.log, server.os, helpers.logprefix)
    so = sys.stdout
    sys.stdout = io.StringIO()
    try:
        server.io = IoShim
        server.start_hostwatch = fake_start
        ssnet.runonce = fake_runonce
        ssnet.set_non_blocking_io = lambda fd: None
        server.log = lambda s: None
        server.os = Shim(os, waitpid=fake_waitpid)
        try:
            server.main(False, 32768, True, None, False)
            res["exit"] = "returned"
        except StopLoop:
            pass
        except SystemExit as e:
            res["exit"] = "exit %r" % (e.code,)
        except Exception as e:
            res["exit"] = "EXC:" + type(e).__name__
    finally:
        sys.stdout = so
        server.io, server.start_hostwatch, ssnet.runonce, ssnet.set_non_blocking_io, server.log, server.os, helpers.logprefix = old
    return res


def rand_world(rng, plain=False):
    """a remote machine for the scanner: seed names, hosts file, cache, netstat output, forward and reverse DNS.
    plain: ASCII names only (what is sent through a real pipe in the process-level runs)"""
    def nm():
        if plain:
            return ".".join("".join(rng.choice("abcxyzABC019-_") for _ in range(rng.randint(1, 8))) for _ in range(rng.randint(1, 3)))
        return rand_name(rng).replace("\0", "")      # C strings: the command line, gethostname(), gethostbyaddr()

    def file_nm():
        return nm() if plain else rand_name(rng)        # bytes of a file: anything

    def good_ip():
        return "%d.%d.%d.%d" % (rng.choice([1, 10, 192, 200]), rng.randint(0, 255), rng.randint(0, 255), rng.randint(1, 254))
    ips = [good_ip() for _ in range(rng.randint(1, 5))]
    names = [nm() for _ in range(rng.randint(1, 6))]
    w = {"seeds": [rng.choice(names + [nm(), rng.choice(ips)]) for _ in range(rng.randint(0, 3))],
         "auto": plain or rng.random() < 0.8, "hostname": nm() if rng.random() < 0.8 else "localhost",
         "dns": {}, "rev": {}, "eof_after": rng.choice([1, 2, 3, 5, 8]), "data_at": [], "dts": rng.choice([[1], [1, 31], [1, 901], [31, 1, 901, 5]])}
    for n in names:
        if rng.random() < 0.6:
            w["dns"][n] = rng.choice(ips) if rng.random() < 0.8 else (rand_ip(rng) if not plain else good_ip())
    for ip in ips:
        r = rng.random()
        w["rev"][ip] = nm() if r < 0.6 else rng.choice(["herror", "gaierror", "oserror", "decode"])
    r = rng.random()
    if r < 0.55:
        lines = []
        for _ in range(rng.randint(0, 4)):
            lines.append("%s %s\n" % (rng.choice(ips + [rand_ip(rng)]), " ".join(rng.choice(names + [file_nm()]) for _ in range(rng.randint(1, 3)))))
        raw = "".join(lines).encode("utf-8", "replace")
        if not plain and raw and rng.random() < 0.35:
            raw = spoil(rng, raw)
        w["etc"] = raw.hex()
    elif r < 0.7:
        w["etc"] = None
    else:
        w["etc"] = ("# nothing here\n%s localhost\n" % rng.choice(["127.0.0.1", "127.0.1.1"])).encode().hex()
    r = rng.random()
    if r < 0.4:
        w["cache"] = "".join("%s,%s\n" % (rng.choice(names + [file_nm()]), rng.choice(ips)) for _ in range(rng.randint(0, 4))).encode("utf-8", "replace").hex()
    elif r < 0.5:
        w["cache"] = "DIR"
    else:
        w["cache"] = None
    w["tmp_unwritable"] = rng.random() < 0.25
    r = rng.random()
    if r < 0.7:
        ls = ["Active Internet connections (w/o servers)\n", "Proto Recv-Q Send-Q Local Address           Foreign Address         State\n"]
        for _ in range(rng.randint(0, 5)):
            ls.append("tcp        0      0 %s:%d      %s:%d     ESTABLISHED\n"
                      % (rng.choice(ips), rng.randint(1, 65535), rng.choice(ips + [good_ip(), "999.1.1.1", "127.0.0.1"]), rng.randint(1, 65535)))
        ls.append("Active UNIX domain sockets (w/o servers)\nunix  3      [ ]         STREAM     CONNECTED     25161    /run/user/1000/bus\n")
        w["netstat"] = "".join(ls).encode().hex()
        w["netstat_rv"] = rng.choice([0, 0, 0, 1])
    else:
        w["netstat"] = None
    if rng.random() < 0.2:
        w["data_at"] = sorted(set(rng.randint(1, 12) for _ in range(2)))
    if rng.random() < 0.15:
        w["eof_at_select"] = rng.randint(1, 25)
    if rng.random() < 0.1:
        w["fail_flush_at"] = rng.randint(1, 6)
    return w


HANDMADE_WORLD = {
    "seeds": ["alpha.example", "10.1.1.1", "unknown.example"], "auto": True, "hostname": "thishost.example",
    "dns": {"alpha.example": "10.2.2.2", "thishost.example": "10.3.3.3", "gamma.example": "10.4.4.4", "delta.example": "10.5.5.5"},
    "rev": {"10.1.1.1": "beta.example", "10.2.2.2": "herror", "10.6.6.6": "epsilon.example", "10.4.4.4": "gaierror", "10.7.7.7": "decode"},
    "etc": b"127.0.0.1 localhost\n10.4.4.4 gamma.example gamma # comment\n".hex(),
    "cache": b"delta.example,10.5.5.5\n".hex(), "tmp_unwritable": False,
    "netstat": b"tcp 0 0 10.3.3.3:22 10.6.6.6:40000 ESTABLISHED\ntcp 0 0 10.3.3.3:22 10.7.7.7:40001 ESTABLISHED\n".hex(), "netstat_rv": 0,
    "eof_after": 8, "data_at": [3], "dts": [1],
}
HANDMADE_LINES = {"delta,10.5.5.5", "delta.example,10.5.5.5", "alpha,10.2.2.2", "alpha.example,10.2.2.2", "beta,10.1.1.1", "beta.example,10.1.1.1",
                  "gamma,10.4.4.4", "gamma.example,10.4.4.4", "thishost,10.3.3.3", "thishost.example,10.3.3.3", "epsilon,10.6.6.6",
                  "epsilon.example,10.6.6.6"}

# names and bytes the scanner can meet in the remote hosts file / as seed names / as its own host name; each must be skipped
# or sanitised, none may end the scanner
HOSTILE_NAMES = ["nul\0name", "\0", "a\0", "1.2.3.4\0", "x" * 64, "a..b", ".", "", "caf\xe9.example", "\ufffd", "\udcff.example", "a b",
                 "-", "_", "a" * 300, "\u0661.\u0662.\u0663.\u0664", "1.2.3.4\n", "999.999.999.999", "0.0.0.0", "xn--", "#", "a,b"]


def hostile_worlds():
    ws = []
    for n in HOSTILE_NAMES:
        base = {"auto": True, "hostname": "h.example", "dns": {}, "rev": {}, "cache": None, "netstat": None, "tmp_unwritable": False,
                "eof_after": 5, "data_at": [], "dts": [1], "seeds": [], "etc": None}
        if "\n" not in n:
            ws.append(dict(base, etc=("10.9.9.9 %s\n" % n).encode("utf-8", "surrogateescape").hex(), via="a name in the remote hosts file"))
            ws.append(dict(base, cache=("%s,10.9.9.9\n" % n).encode("utf-8", "surrogateescape").hex(), via="a name in the host cache"))
        if "\0" in n:
            continue        # a C string: cannot come from the command line, gethostname() or gethostbyaddr()
        ws.append(dict(base, seeds=[n], via="a seed name"))
        ws.append(dict(base, hostname=n, via="the remote machine's own host name"))
        ws.append(dict(base, seeds=["10.8.8.8"], rev={"10.8.8.8": n}, via="a reverse-DNS answer"))
    return ws


def scanner_loop_cases(ctx, rng, quick, work, scanner_streams):
    """hw_main in generated worlds; oracles on the real code alone:
       - no name or byte string the scanner meets ends it (it returns only because its input ended / its output failed);
       - whenever it goes to sleep, every record it has written has been flushed (otherwise the record is never delivered);
       - what it writes is the model's found_host applied to the calls it made (correspondence)."""
    import socket as real_socket
    worlds = [dict(HANDMADE_WORLD)] + hostile_worlds() + [rand_world(rng) for _ in range(250 if quick else 4000)]
    fh_lines, fh_runs = [], []
    checked_real = 0
    for k, w in enumerate(worlds):
        via = w.pop("via", None)
        r = run_hw_main(work, w)
        lines_out = r["text"].split("\n")[:-1]
        ctx.case(("hw_main", k, repr(sorted(w.items()))[:4000]), nontrivial=bool(lines_out),
                 sample={"kind": "scanner main loop", "seeds": [s[:30] for s in w["seeds"]], "auto_hosts": w["auto"], "waits": r["waits"],
                         "status": r["status"], "records": lines_out[:6]} if k == 0 else None)
        ctx.count("scanner_loop_runs")
        ctx.count("scanner_loop_status_" + r["status"].split(":")[0].split(" ")[0])
        ctx.count("scanner_loop_records", len(lines_out))
        if via:
            ctx.count("scanner_loop_hostile_names")
        rp = {"stage": "hw_main", "world": w}
        if r["status"].startswith("EXC") or r["status"] == "FUEL":
            cls = r["status"].split(":")[-1]
            nul_in_file = cls == "TypeError" and w.get("etc") and "00" in [w["etc"][j:j + 2] for j in range(0, len(w["etc"]), 2)]
            ctx.violation(F110_WHAT if nul_in_file else "the scanner process ended (%s) on what it met on the remote machine" % cls,
                          dict(rp, exception=cls, hostile_input=via))
        elif r["status"] == "STILL-RUNNING":
            ctx.disagree("hw_main keeps running after its input ended", repr(w)[:600], r["status"], "RETURN")
        elif r["status"] != "RETURN":
            ctx.disagree("hw_main return value", repr(w)[:600], r["status"], "RETURN")
        if r["unflushed_at_wait"] is not None:
            ctx.violation("the scanner went to sleep with records written but not flushed: they are not delivered",
                          dict(rp, unflushed=r["unflushed_at_wait"][:200]))
        if r["text"] and not r["text"].endswith("\n"):
            ctx.violation("the scanner wrote an incomplete record", dict(rp, tail=r["text"][-100:]))
        unenc = [n for c in r["calls"] for n in c if not encodable(n)]
        if unenc:
            # a name no UTF-8 stream can carry (a lone surrogate, e.g. from a seed name given as undecodable bytes): the strict
            # stdout refuses it at write(); the model's found_host has no stdout that refuses, so only the property's own
            # oracle applies to this run (the scanner must still be running / have returned because its input ended)
            ctx.count("scanner_loop_unencodable_name_runs")
        if not r["status"].startswith("EXC") and not unenc:
            tb = tables(*[x for c in r["calls"] for x in c])
            fh_lines.append("FH %s %s" % (tb, " ".join("%s %s" % (u32(n), u32(i)) for n, i in r["calls"])) if r["calls"] else None)
            fh_runs.append((w, r))
        if r["text"] and k % 3 == 0:
            try:
                scanner_streams.append(r["text"].encode("utf-8"))
            except UnicodeEncodeError:
                pass
        # the resolver stand-in against the real one, where the real one fails before any lookup
        for n in list(w["seeds"]) + [w["hostname"]]:
            if checked_real >= 400:
                break
            try:
                resolver_arg(n)
                continue
            except (UnicodeError, TypeError) as e:
                mine = type(e)
            for fn in (real_socket.gethostbyname, real_socket.gethostbyaddr):
                checked_real += 1
                try:
                    fn(n)
                    real = None
                except Exception as e2:
                    real = type(e2)
                if real is None or not (issubclass(real, mine) or issubclass(mine, real)):
                    ctx.disagree("resolver stand-in vs socket.%s" % fn.__name__, repr(n)[:200], repr(real), repr(mine))
    ctx.extra["resolver_argument_errors_checked_against_real_socket"] = checked_real
    todo = [(ln, wr) for ln, wr in zip(fh_lines, fh_runs) if ln is not None]
    for (ln, (w, r)), o in zip(todo, ctx.run_driver([ln for ln, _ in todo])):
        i = "OK %s" % u32(r["text"])
        if i != o:
            ctx.disagree("hw_main output vs found_host model on the calls it made", repr(r["calls"])[:300], i[:300], o[:300])
    # the hand-made world: everything reachable from the seeds, the hosts file, the cache, netstat and the host's own name is reported
    r0 = run_hw_main(work, dict(HANDMADE_WORLD))
    if set(r0["text"].split("\n")[:-1]) != HANDMADE_LINES or r0["status"] != "RETURN":
        ctx.disagree("hw_main on the hand-made world", "HANDMADE_WORLD", (r0["status"], sorted(set(r0["text"].split("\n")[:-1]) ^ HANDMADE_LINES)),
                     "RETURN, exactly the expected records")
    # observation (not part of the property text: a socket path is not a host name): non-ASCII bytes in the output of netstat
    wn = dict(HANDMADE_WORLD, netstat=(b"unix  3 [ ] STREAM CONNECTED 1 /home/jos\xc3\xa9/.cache/sock\n").hex())
    rn = run_hw_main(work, wn)
    ctx.count("scanner_loop_netstat_non_ascii_" + rn["status"].split(":")[-1])
    if rn["status"].startswith("EXC"):
        ctx.notes.append("observation: `netstat -n` output with a non-ASCII byte (e.g. in a unix socket path) ends hostwatch with %s"
                         " (decode('ASCII') in _check_netstat is outside its try); not a name, not counted as a C19 violation" % rn["status"][4:])


def scanner_process_cases(ctx, rng, quick, work):
    """server.start_hostwatch for real: fork, socket pair as stdin/stdout of the child, real hw_main with real buffering.
    What reaches the server's end must be the records of the first pass, complete; the child must leave with status 0
    once its input ends."""
    worlds = [dict(HANDMADE_WORLD)] + [rand_world(rng, plain=True) for _ in range(2 if quick else 12)]
    for k, w in enumerate(worlds):
        w = dict(w, data_at=[], dts=[1], eof_after=1, fail_flush_at=None)     # in-process reference: first pass only
        ref = run_hw_main(work, w)
        want = ref["text"].encode("utf-8")
        r = run_hostwatch_process(work, w, len(want))
        ctx.case(("hostwatch-process", k, repr(sorted(w.items()))[:3000]), nontrivial=bool(want),
                 sample={"kind": "scanner process (fork)", "bytes_expected": len(want), "bytes_received": len(r["bytes"]), "exit": r["exit"]} if k == 0 else None)
        ctx.count("scanner_process_runs")
        rp = {"stage": "hostwatch-process", "world": w}
        if ref["status"] != "RETURN":
            continue          # reported by scanner_loop_cases' oracle on the same code
        if not r["bytes"].startswith(want):
            ctx.violation("records written by the scanner process did not reach the server's end of its socket",
                          dict(rp, want=want[:300].decode("latin-1"), got=r["bytes"][:300].decode("latin-1")))
        elif r["bytes"] and not r["bytes"].endswith(b"\n"):
            ctx.disagree("scanner process: stream ends inside a record", repr(w)[:400], r["bytes"][-80:], "complete records")
        if r["exit"] != 0:
            ctx.disagree("scanner process exit status after its input ended", repr(w)[:400], r["exit"], 0)


def server_watch_cases(ctx, rng, quick):
    """the server's loop with a scanner attached: it must look after the child without waiting for it, go on relaying
    while the child lives, and (as coded) end with exit status 99 when the child is gone"""
    WNOHANG = os.WNOHANG
    cases = [([(0, 0)] * 4, [b"a,1.2.3.4\n", b"b,5.6.7.8\nc,", b"9.9.9.9\n"], None),
             ([(0, 0)] * 2, [b"x,1.1.1.1\n"], None),
             ([(0, 0), (4242, 0x6200)], [b"x,1.1.1.1\n", b"y,2.2.2.2\n"], "exit 99"),
             ([(4242, 9)], [b"x,1.1.1.1\n"], "exit 99"),
             ([(0, 0), (0, 0), (4242, 0)], [b"partial", b" line\n", b"z,3.3.3.3\n"], "exit 99")]
    for _ in range(10 if quick else 200):
        n = rng.randint(1, 6)
        s = b"".join(rng.choice([b"h%d,10.0.0.%d\n" % (i, i), b"n%d," % i, b"\n"]) for i in range(rng.randint(1, 8)))
        cases.append(([(0, 0)] * n, random_cut(rng, s, 5)[:n - 1] or [s], None))
    for answers, chunks, want_exit in cases:
        r = impl_server_watch(answers, chunks)
        alive = sum(1 for a in answers if a == (0, 0))
        ctx.case(("server-watch", tuple(answers), tuple(chunks)), nontrivial=True,
                 sample={"kind": "server loop with scanner", "waitpid_calls": r["waitpid"][:3], "relayed": len(r["payloads"]), "exit": r["exit"]}
                 if answers == cases[0][0] else None)
        ctx.count("server_watch_cases")
        rp = {"stage": "server-watch", "waitpid_answers": [list(a) for a in answers], "chunks": [hx(c) for c in chunks]}
        if r["started"] != [(["alpha", "beta"], True)]:
            ctx.disagree("server start of the scanner", "host request b'alpha beta', auto_hosts on", r["started"], [(["alpha", "beta"], True)])
        blocking = [c for c in r["waitpid"] if c[0] != 4242 or not (c[1] & WNOHANG)]
        if blocking:
            ctx.violation("the server waits for the scanner process to exit (waitpid without WNOHANG, or on another process) instead of "
                          "relaying its records", dict(rp, waitpid_calls=[list(c) for c in r["waitpid"]]))
        # while the child lives: one relay per chunk, the session goes on
        upto = min(alive, len(chunks))
        stream = b"".join(chunks[:upto])
        want_p = spec_relay(stream)[0]
        if b"".join(r["payloads"])[:len(want_p)] != want_p or (want_exit is None and r["exit"] is not None):
            ctx.violation("with a live scanner attached the server stopped or did not relay its records",
                          dict(rp, exit=r["exit"], relayed=[hx(p) for p in r["payloads"]][:6]))
        if want_exit is not None and r["exit"] != want_exit:
            ctx.disagree("server loop after the scanner process has exited", rp, r["exit"], want_exit)


def _correspondence(ctx, rng, quick, work):
    check_dns_names(ctx, rng)
    hw_streams = []
    scanner_loop_cases(ctx, rng, quick, work, hw_streams)
    scanner_process_cases(ctx, rng, quick, work)
    server_watch_cases(ctx, rng, quick)
    sc = Scanner(work)
    seen_kinds = {}

    def smp(d):
        """at most one evidence sample per kind of case"""
        if d is None or seen_kinds.get(d["kind"]):
            return None
        seen_kinds[d["kind"]] = 1
        return d

    # ---- A1: found_host call sequences
    lines, impl, descr = [], [], []
    scanner_streams = list(hw_streams)
    nA = 8000 if quick else 40000
    for k in range(nA):
        ncalls = rng.choice([1, 1, 1, 2, 3])
        calls = []
        for _ in range(ncalls):
            if calls and rng.random() < 0.4:        # same name again: same / other address (dedupe logic)
                n = calls[-1][0] if rng.random() < 0.6 else calls[-1][0].split(".")[0]
                calls.append((n, calls[-1][1] if rng.random() < 0.5 else rand_ip(rng)))
            else:
                calls.append((rand_name(rng, big=(k % 25 == 0)), rand_ip(rng)))
        if k < len(FIXED_NAMES):
            calls = [(FIXED_NAMES[k], "10.1.2.3")]
        elif k < len(FIXED_NAMES) + len(FIXED_IPS):
            calls = [("host.example", FIXED_IPS[k - len(FIXED_NAMES)])]
        tb = tables(*[x for c in calls for x in c])
        lines.append("FH %s %s" % (tb, " ".join("%s %s" % (u32(n), u32(i)) for n, i in calls)))
        impl.append(sc.found_hosts(calls))
        descr.append(calls)
        ctx.count("found_host_calls", len(calls))
        if any(len(n) > 4000 for n, _ in calls):
            ctx.count("found_host_long_names")
        if any(ord(ch) > 127 for n, _ in calls for ch in n):
            ctx.count("found_host_non_ascii")
    out = ctx.run_driver(lines)
    for ln, i, o, d in zip(lines, impl, out, descr):
        text = un_u32(i.split(" ")[1]) if i.startswith("OK ") else ""
        ctx.case(("fh", tuple(d)), nontrivial=bool(text),
                 sample=smp({"kind": "found_host", "calls": [(n[:40], a[:20]) for n, a in d], "stdout": text[:120]} if text and len(ln) < 800 else None))
        if i != o:
            ctx.disagree("found_host", repr(d)[:300], i[:300], o[:300])
        if text:
            scanner_streams.append(text.encode("utf-8"))
    EDGE = "\x7f\x80\u07ff\u0800\uffff\U00010000\U0010ffff"
    # UTF-8 encoder of the model = CPython's
    enc_lines = ["UTF8 %s" % u32("".join(NAME_ALPHA)), "UTF8 %s" % u32(EDGE)]
    enc_impl = [hx("".join(NAME_ALPHA).encode("utf-8")), hx(EDGE.encode("utf-8"))]
    for ln, i, o in zip(enc_lines, enc_impl, ctx.run_driver(enc_lines)):
        ctx.case(("utf8", ln))
        if i != o:
            ctx.disagree("utf8", ln, i, o)

    # ---- A2: read_host_cache / _check_etc_hosts on generated file contents
    def rand_file(kind):
        ls = []
        for _ in range(rng.randint(0, 6)):
            r = rng.random()
            n, a = rand_name(rng), rand_ip(rng)
            if kind == "cache":
                l = "%s,%s" % (n, a) if r < 0.8 else rng.choice(["", "justone", "a,b,c", " %s , %s " % (n, a), ",", "x,", ",1.2.3.4"])
            else:
                names = " ".join(rand_name(rng) for _ in range(rng.randint(0, 3)))
                l = "%s %s" % (a, names) if r < 0.7 else rng.choice(
                    ["# comment", "%s\t%s # trailing %s" % (a, n, n), "  %s   %s  " % (a, n), "#%s %s" % (a, n), "", "%s" % a, "::1 ip6-localhost"])
            ls.append(l + rng.choice(["\n", "\n", "\n", "\r\n", "\r", ""]))
        return "".join(ls)
    scan_mode = "asfound" if sc.read_host_cache("h\xf6st,1.2.3.4\n".encode()).startswith("CRASH") else "repaired"
    ctx.extra["hostwatch_variant_in_repo"] = scan_mode
    lines, impl, descr = [], [], []
    fixed_files = [("cache", "h\xf6st,1.2.3.4\n".encode()), ("cache", b"caf\xe9,1.2.3.4\n"), ("etc", b"1.2.3.4 caf\xe9\n"),
                   ("etc", "1.2.3.4 h\xf6st.example bad!host # x\n".encode()), ("cache", b"good.example,10.0.0.1\n"),
                   ("etc", b"10.0.0.2\tgood-2.example alias_2\n127.0.0.1 localhost\n")]
    for k in range(1200 if quick else 8000):
        for kind, cmd, fn in (("cache", "RHC" if scan_mode == "repaired" else "RHC0", sc.read_host_cache), ("etc", "CEH", sc.check_etc_hosts)):
            raw = rand_file(kind).encode("utf-8")
            if 2 * k < len(fixed_files) * 2 and fixed_files[k % len(fixed_files)][0] == kind and k < len(fixed_files):
                raw = fixed_files[k][1]
            elif rng.random() < 0.3 and raw:      # undecodable bytes in the remote file: in names, addresses, comments
                raw = spoil(rng, raw, ctx)
            content = raw.decode("utf-8", "replace")       # what open(..., errors='replace') yields
            lines.append("%s %s %s" % (cmd, tables(content), u32(content)))
            impl.append(fn(raw))
            descr.append((kind, content, raw))
            ctx.count("scanner_file_" + kind)
    out = ctx.run_driver(lines)
    for ln, i, o, d in zip(lines, impl, out, descr):
        ctx.case(d[:2], nontrivial=len(i) > 6, sample=smp({"kind": d[0], "content": d[1][:100], "result": i[:12] + un_u32(i.split(" ")[1])[:80]} if len(i) > 40 and len(ln) < 1500 else None))
        undecodable = d[2].decode("utf-8", "replace") != d[2].decode("utf-8", "ignore") or "\ufffd" in d[1] and "\ufffd".encode() not in d[2]
        rp = {"stage": "scanner", "kind": d[0], "content_hex": hx(d[2])}
        if i.startswith("DECODE"):
            ctx.count("scanner_undecodable_file")
            ctx.violation("hostwatch dies on undecodable bytes in the remote %s (UnicodeDecodeError)" % ("host cache" if d[0] == "cache" else "/etc/hosts"), rp)
            if not undecodable:
                ctx.disagree(d[0] + " decode", repr(d[2])[:300], i[:100], o[:100])
            continue
        if i != o:
            ctx.disagree(d[0], repr(d[1])[:400], i[:300], o[:300])
        if i.startswith("CRASH") and d[0] == "cache" and scan_mode == "asfound":
            ctx.count("scanner_crash_nonascii_cache")
            ctx.violation("hostwatch dies rewriting the host cache with a non-ASCII name (UnicodeEncodeError)", rp)
        elif not i.startswith("OK "):
            # whatever the scanner meets on the remote machine must not end it: it raised / exited on this file content
            cls = {"CRASH": "UnicodeEncodeError", "FUEL": "RecursionError"}.get(i.split(" ")[0], i.split(" ")[0].split(":")[-1])
            ctx.count("scanner_ended_on_file_" + d[0])
            if seen_kinds.get(("ended", d[0], cls)):
                continue          # one failing input per kind of file and exception
            seen_kinds[("ended", d[0], cls)] = 1
            fn = sc.read_host_cache if d[0] == "cache" else sc.check_etc_hosts
            alone = [l for l in re.split(rb"(?<=\n)", d[2]) if l and not fn(l).startswith("OK ")]
            if alone:             # a single line of the file that does it on its own: the smaller failing input
                rp = dict(rp, content_hex=hx(alone[0]), whole_file_hex=hx(d[2]))
            ctx.violation("the scanner process ended (%s) on what it met on the remote machine: %s line %r"
                          % (cls, "host cache" if d[0] == "cache" else "hosts file", (alone[0] if alone else bad_line(d[2]))[:120]),
                          dict(rp, exception=cls, output_before_it_ended=un_u32(i.split(" ")[1])[:200].encode("utf-8", "replace").decode("utf-8")))
        if i.startswith("OK ") and len(i) > 4:
            scanner_streams.append(un_u32(i.split(" ")[1]).encode("utf-8", "replace"))
    # _is_ip recogniser
    lines, impl = [], []
    for a in FIXED_IPS + [rand_ip(rng) for _ in range(100 if quick else 3000)]:
        lines.append("ISIP %s %s" % (tables(a), u32(a)))
        impl.append("1" if sc.hw._is_ip(a) else "0")
    for ln, i, o in zip(lines, impl, ctx.run_driver(lines)):
        ctx.case(("isip", ln), nontrivial=(i == "1"))
        if i != o:
            ctx.disagree("_is_ip", ln, i, o)

    # ---- B: server splitter under cuttings of scanner streams
    lines, impl, descr = [], [], []
    short = [b"a,1\nbc", b"\n\nx\n", b"ab,1.2.3.4\n", b"no newline", b"x\ny\nz\n", b"\n"]
    short += [s for s in scanner_streams if len(s) <= 13][: (6 if quick else 300)]
    nshort = 0
    for s in short:
        if len(s) > 13:
            continue
        nshort += 1
        for cut in cuttings(len(s)):
            chunks = [s[a:b] for a, b in cut]
            lines.append("HW " + " ".join(hx(c) for c in chunks))
            impl.append(impl_hw(chunks))
            descr.append((s, chunks))
        ctx.count("relay_exhaustive_streams")
    longs = [s for s in scanner_streams if len(s) > 13]
    rng.shuffle(longs)
    longs = longs[: (600 if quick else 8000)]
    for _ in range(100 if quick else 1500):       # several records per stream
        longs.append(b"".join(rng.choice(scanner_streams) for _ in range(rng.randint(2, 12))))
    for s in longs:
        if len(max(s.split(b"\n"), key=len)) > 61439:
            ctx.count("relay_overlong_line")
        for _ in range(2 if quick else 5):
            chunks = random_cut(rng, s)
            if rng.random() < 0.1:
                chunks.append(s[-1:])         # unfinished tail
            lines.append("HW " + " ".join(hx(c) for c in chunks))
            impl.append(impl_hw(chunks))
            descr.append((b"".join(chunks), chunks))
            ctx.count("relay_random_cuttings")
    # the Mux.send limit: a line of exactly 61439 bytes (+ newline) is the longest that can never trip it (F26 beyond)
    def blocks(s):
        return [s[i:i + 4096] for i in range(0, len(s), 4096)]
    for chunks in (blocks(b"a" * 61439) + [b"\n" + b"b" * 4094 + b"\n"],       # leftover 61439 + full chunk: 65535
                   blocks(b"a" * 61440) + [b"\n" + b"b" * 4094 + b"\n"],       # 65536: assertion
                   blocks(b"x" * 65530 + b",1.2.3.4\n"), blocks(b"y" * 70000) + [b",10.0.0.1\n"]):
        lines.append("HW " + " ".join(hx(c) for c in chunks))
        impl.append(impl_hw(chunks))
        descr.append((b"".join(chunks), chunks))
        ctx.count("relay_mux_limit_cases")
    # the hostwatch socket reaching EOF
    for chunks in ([b"a,1\n", b""], [b""], [b"partial", b"", b"x\n"]):
        lines.append("HW " + " ".join(hx(c) for c in chunks))
        impl.append(impl_hw(chunks))
        descr.append((b"".join(chunks), chunks))
    out = ctx.run_driver(lines)
    f26_seen = False
    for ln, r, o, d in zip(lines, impl, out, descr):
        i = r["v"]
        if r["status"] != "OK":      # the server is dead: hw.leftover is no longer observable
            i, o = i.split(" | ")[0], o.split(" | ")[0]
        ctx.case(("hw", d[0], tuple(len(c) for c in d[1])), nontrivial=b"\n" in d[0],
                 sample=smp({"kind": "relay", "chunk_sizes": [len(c) for c in d[1]][:20], "result": i[:100]} if 20 < len(d[0]) < 200 else None))
        if i != o:
            ctx.disagree("hostwatch_ready", ln[:300], i[:300], o[:300])
        # oracle on the implementation alone (stream-level specification)
        if r["status"] == "OK":
            want_p, want_l = spec_relay(d[0])
            recs = [x for p in r["payloads"] for x in p.split(b"\n")[:-1]]
            if (b"".join(r["payloads"]) != want_p or r["leftover"] != want_l
                    or any(p and not p.endswith(b"\n") for p in r["payloads"]) or recs != d[0].split(b"\n")[:-1]):
                ctx.violation("scanner records lost, repeated or split between HOST_LIST messages",
                              {"chunks": [hx(c) for c in d[1]], "got": i[:500]})
        elif r["status"] == "ASSERT":
            if len(max(d[0].split(b"\n"), key=len)) <= 61439:
                ctx.violation("server assertion on a scanner line within the stated bound", {"chunks": [hx(c) for c in d[1]]})
            else:
                if not f26_seen:
                    ctx.known("F26", "a scanner line longer than 61439 bytes trips the assertion in Mux.send and ends the server")
                f26_seen = True
                ctx.violation("server ends the session on a scanner line longer than 61439 bytes (AssertionError in Mux.send)",
                              {"finding_id": "F26", "stage": "server", "line_len": len(max(d[0].split(b"\n"), key=len)),
                               "chunks_rle": [enc_chunk(c) for c in d[1]]})
    ctx.extra["exhaustive_short_streams"] = nshort

    # ---- C: client filter on arbitrary payloads; D: helper + hosts file
    def rand_record():
        r = rng.random()
        n = rand_name(rng).encode("utf-8")
        a = rand_ip(rng).encode("utf-8")
        if r < 0.45:
            n = re.sub(rb"[^-\w.]", b"", n)[:100] or b"h"
            if rng.random() < 0.8:
                a = b".".join(b"%d" % rng.choice([0, 1, 10, 192, 255, rng.randint(0, 255)]) for _ in range(4))
        if r > 0.93:
            return rng.choice([b"nocomma", b",", b",,", b"a,", b",1.2.3.4", b"a,b,1.2.3.4", b"a,1.2.3.4,5", n])
        return n[:100] + b"," + a[:20]

    def rand_payload():
        recs = [rand_record() for _ in range(rng.randint(0, 6))]
        sep = [b"\n", b"\n", b"\n", b" ", b"\t", b"\r\n", b"\n\n", b"\x0b", b"\x0c"]
        p = b"".join(r + (b"\n" if rng.random() < 0.85 else rng.choice(sep)) for r in recs)
        return p

    def detect_mode(got_host_list, pfile):
        st, data = client_payloads(got_host_list, pfile, [b"bad!host,1.2.3.4\n"])
        return "asfound" if st == "AssertionError" else "repaired"
    mode = with_client(detect_mode)
    ctx.extra["client_variant_in_repo"] = mode
    cmd = "OHL" if mode == "repaired" else "OHL0"

    payload_cases = [rand_payload() for _ in range(8000 if quick else 50000)]
    payload_cases += [p for s in scanner_streams[: (1500 if quick else 20000)] for p in [spec_relay(s)[0]] if len(p) < 3000]
    payload_cases += [b"", b"\n", b" \t ", b"bad!host,1.2.3.4\n", "h\xf6st,1.2.3.4\n".encode(), b"nocomma\n", b",1..2\n", b"a,12\n",
                      b"a,1.2.3.4 b,5.6.7.8\n", b"ok.example,10.0.0.1\nsecond,10.0.0.2\n", b"a,1.2.3.4\x00\n", b"a\x00b,1.2.3.4\n",
                      b"x" * 70000 + b",1.2.3.4\n"]

    def run_all(got_host_list, pfile):
        return [client_payloads(got_host_list, pfile, [p]) for p in payload_cases]
    impl = with_client(run_all)
    out = ctx.run_driver(["%s %s" % (cmd, hx(p)) for p in payload_cases])
    for p, (st, data), o in zip(payload_cases, impl, out):
        ls = split_lines(data)
        i = "%s %s" % (st, ";".join(hx(l) for l in ls))
        ctx.case(("ohl", p), nontrivial=bool(ls) or st != "OK",
                 sample=smp({"kind": "onhostlist", "payload": repr(p[:80]), "result": st, "host_lines": len(ls)} if 10 < len(p) < 90 else None))
        ctx.count("client_outcome_" + st)
        if i != o:
            ctx.disagree("onhostlist(%s)" % mode, hx(p)[:300], i[:300], o[:300])
        if st != "OK":
            ctx.violation("client session ended by a host-list payload (%s)" % st, {"stage": "client", "payloads": [hx(p)[:2000]], "outcome": st})

    # pipelines: payload sequence -> client -> helper -> hosts file
    pipes = [[rand_payload() for _ in range(rng.randint(1, 3))] for _ in range(1000 if quick else 6000)]
    pipes += [[b",1..2\n"], [b"a,12\n"], [b",\n"], [b"x,1.2.3.4\nx,5.6.7.8\n"], [b"b,1.1.1.1\n", b"a,2.2.2.2\n", b"b,3.3.3.3\n"],
              [b"host-1.example.org,192.168.100.200\n"], [b"a" * 106 + b",255.255.255.255\n"], [b"UP.low_-,0.0.0.0\n"]]

    # very long (well-formed) names: the HOST line crosses every plausible reader limit
    for n in [107, 127, 128, 129, 253, 254, 255, 256, 257, 300, 494, 495, 496, 511, 512, 513, 1000, 1023, 1024, 1025,
              2047, 2048, 2049, 4095, 4096, 4097, 8191, 8192, 8193, 20000, 60000] + [rng.randint(130, 9000) for _ in range(20)]:
        nm = bytes(rng.choice(b"abcxyz019-_.") for _ in range(n))
        for ip in (b"10.11.12.13", b"255.255.255.255", b"1.2.3.4"):
            pipes.append([nm + b"," + ip + b"\n", b"after,9.9.9.9\n"])
            pipes.append([b"first,1.1.1.1\n" + nm + b"," + ip + b"\nlast,2.2.2.2\n"])

    # the limit the real helper passes to stdin.readline, observed at its stdin; the model's reader gets the same one
    probe = impl_helper(work, b"HOST probe,1.2.3.4\n")
    if len(probe["limits"]) != 1:
        raise RuntimeError("the helper reads its stdin with several different limits: %r" % (probe["limits"],))
    fw_lim = probe["limits"][0]
    ctx.extra["helper_readline_limit_in_repo"] = "none (whole lines)" if fw_lim is None else fw_lim
    ctx.case(("helper-read-limit", fw_lim))
    if consts_readline_limit() != fw_lim:
        ctx.disagree("helper read limit: generated constant vs the call observed at the helper's stdin", "firewall.main",
                     lim_str(fw_lim), lim_str(consts_readline_limit()))
    # the model's reader (DialogueLib.chunks, extracted with the C19 model) against CPython's readline
    rd_cases = [(rng.choice([None, fw_lim, 1, 2, 127, 128, 129, 512]),
                 bytes(rng.choice(b"ab\n\n ,.1") for _ in range(rng.choice([0, 1, 2, 127, 128, 129, 130, 257, 600]))))
                for _ in range(300 if quick else 3000)]
    for (lm, sdat), o in zip(rd_cases, ctx.run_driver(["RDL %s %s" % (lim_str(lm), hx(sdat)) for lm, sdat in rd_cases])):
        f, pieces = io.BytesIO(sdat), []
        while True:
            x = f.readline() if lm is None else f.readline(lm)
            if not x:
                break
            pieces.append(x)
        ctx.case(("rdl", lm, sdat), nontrivial=len(pieces) > 1)
        if ";".join(hx(x) for x in pieces) != o:
            ctx.disagree("readline model", "lim=%s %s" % (lim_str(lm), hx(sdat)[:200]), ";".join(hx(x) for x in pieces)[:300], o[:300])

    def run_pipes(got_host_list, pfile):
        return [client_payloads(got_host_list, pfile, ps) for ps in pipes]
    cimpl = with_client(run_pipes)
    plines = ["PIPE %s %s %s %s" % ("1" if mode == "repaired" else "0", lim_str(fw_lim), hx(MARKER), " ".join(hx(p) for p in ps)) for ps in pipes]
    pout = ctx.run_driver(plines)
    for ps, (st, data), o in zip(pipes, cimpl, pout):
        ls = split_lines(data)
        long_line = any(len(l) > 128 for l in ls)
        if long_line:
            ctx.count("pipeline_with_host_line_over_128_bytes")
            ctx.count("pipeline_longest_host_line_bytes_2^%d" % (max(len(l) for l in ls).bit_length() - 1))
        h = impl_helper(work, data)
        if h["limits"] != [fw_lim]:
            ctx.disagree("helper read limit changed between cases", [hx(p)[:200] for p in ps], repr(h["limits"]), lim_str(fw_lim))
        i = "%s %s | %s" % (st, h["status"], ";".join(hx(l) for l in h["lines"]))
        ctx.case(("pipe", tuple(ps)), nontrivial=bool(h["lines"]),
                 sample=smp({"kind": "pipeline", "payloads": [repr(p[:60]) for p in ps], "hosts_lines": [l.decode("latin-1") for l in h["lines"]][:3]} if h["lines"] else None))
        ctx.count("pipeline_helper_" + h["status"].split(" ")[0])
        # EVERY pipeline is compared with the model (whose helper reads with the limit observed above), whatever the line length
        if i != o:
            ctx.disagree("client+helper pipeline (helper read limit %s)" % lim_str(fw_lim), [hx(p)[:200] for p in ps],
                         i[:400] + (" ...%d" % len(i) if len(i) > 400 else ""), o[:400] + (" ...%d" % len(o) if len(o) > 400 else ""))
        rp = {"stage": "pipeline", "payloads": [hx(p) for p in ps]}
        if st == "OK" and (long_line or mode == "repaired"):
            # oracle on the real code alone: every record the client forwarded must appear as exactly one
            # well-formed line, under its own name with its own address
            want, have = delivery(ls, h)
            if have != want:
                ctx.violation("a forwarded host record %sdid not arrive as its own hosts-file line" % ("with a very long name " if long_line else ""),
                              dict(rp, name_lengths=sorted(len(k) for k in want), helper=h["status"],
                                   missing=[k[:40].decode("latin-1") for k in want if have.get(k) != want[k]][:3]))
        bad = [l.decode("latin-1") for l in h["lines"] if not line_ok(l)]
        if bad:
            ctx.violation("hosts-file line is not '<dotted quad> <name> <marker>'", dict(rp, bad_lines=bad[:3]))
        if st != "OK":
            ctx.violation("client session ended by a host-list payload (%s)" % st, dict(rp, outcome=st))
        if h["status"] not in ("RUNNING",):
            ctx.violation("helper stopped on a HOST line written by the client", dict(rp, helper=h["status"]))
        if not h["foreign_ok"] or not h["restored"]:
            ctx.violation("foreign hosts-file lines changed", dict(rp, foreign_ok=h["foreign_ok"], restored=h["restored"]))
    foreign_contents_cases(ctx, quick, work, mode, fw_lim, rand_payload)
    ctx.programs = ctx.evaluations
    if f26_seen:
        ctx.notes.append("a scanner line longer than 61439 bytes made Mux.send's assertion fail in the real server (F26, excluded by hypothesis)")


# --------------------------------------------------------------------------
# the LOCAL hosts file as an input: foreign contents of arbitrary bytes under the client -> helper -> hosts file pipeline

FOREIGN_RAW = [
    "# Caf\xe9 printer, added by J\xf6rg (Latin-1 editor)".encode("latin-1"), b"10.1.1.1 h\xf4te.example  # h\xf4te",
    b"\x80", b"\xc3", b"10.0.0.7 cut\xe2\x82", b"\xc0\x80 overlong", b"\xed\xa0\x80 surrogate", b"\xf4\x90\x80\x80", b"\xff\xfe1\x000\x00",
    b"ok \xc3\xa9 then \xe9", "10.0.0.8 wide".encode("utf-16-le"), b"10.0.0.9 a\x00b", b"\x00", b"1.2.3.4 x\x00",
    "\ufeff127.0.0.1 bom".encode("utf-8"), "10.2.2.2 caf\xe9 \u65e5\u672c\u8a9e \U0001f600".encode("utf-8"), b"# \x1b[31m esc \x07 \x7f",
    b"a\rb", b"a\rb\xe9", b"# " + b"L" * 70000, b"# " + b"L" * 5000 + b"\xe9",
    b"10.3.3.3 other-instance-\xe9           # sshuttle-firewall-1230 AUTOCREATED",
    b"10.4.4.4 stale-own-\xe9                # sshuttle-firewall-%d AUTOCREATED" % PORT,
    b"10.4.4.5 stale-own                     # sshuttle-firewall-%d AUTOCREATED" % PORT,
]
FOREIGN_FIXED = [
    b"127.0.0.1 localhost\n# Caf\xe9 printer, added by J\xf6rg (Latin-1 editor)\n192.168.7.20 printer\n",
    b"127.0.0.1 localhost\n# office printer\n192.168.7.20 printer\n", b"\xff\xfe", b"\xe9", b"127.0.0.1 localhost\n\xc3",
    b"10.0.0.9 a\x00b\r\n# CRLF, NUL, no final newline", b"a\rb\r\xe9\r", b"L" * 70000 + b"\xe9\nkeep", b"L" * 70000 + b"\nkeep\n",
    "\ufeff1.1.1.1 bom\n".encode("utf-8"), b"\x00\n", b"", b"\n\n",
]


def foreign_contents_cases(ctx, quick, work, mode, fw_lim, rand_payload):
    """The Coq model of C19 has no hosts-file content beside the added lines (that is C14's HostsFile.v, where
    c14_rewrite_any_bytes is the statement); this is an implementation-side oracle on the real client -> helper ->
    rewrite_etc_hosts pipeline: whatever bytes the local file holds, every line that does not carry this session's marker
    is byte-identical and in order after every rewrite and after the session, or the file is untouched."""
    import random
    rng = random.Random("C19-foreign-%d" % ctx.seed)            # own stream: the cases above stay the same

    def gen_foreign():
        ls = [rng.choice(FOREIGN_RAW) if rng.random() < 0.6 else
              rng.choice([b"127.0.0.1 localhost", b"# a comment", b"10.9.8.7   somebody.else  # keep me", b"", b" \t",
                          bytes(rng.choice([c for c in range(256) if c != 10]) for _ in range(rng.choice([1, 3, 12])))])
              for _ in range(rng.choice([1, 2, 3, 5, 8]))]
        term = rng.choice([b"\n", b"\n", b"\n", b"\r\n", b"\r"])
        return term.join(ls) + rng.choice([b"", term, term, term * 2])
    contents = list(FOREIGN_FIXED) + [gen_foreign() for _ in range(150 if quick else 3000)]
    fixed_pipes = [[b"web-1,10.1.2.3\n"], [b"a,1.1.1.1\nb,2.2.2.2\n", b"a,3.3.3.3\n"]]
    pipes = []
    for k, fb in enumerate(contents):
        pipes.append((fb, fixed_pipes[k % 2]))
        pipes.append((fb, [rand_payload() for _ in range(rng.randint(1, 3))]))

    def run(got_host_list, pfile):
        return [client_payloads(got_host_list, pfile, ps) for _, ps in pipes]
    cimpl = with_client(run)
    pout = ctx.run_driver(["PIPE %s %s %s %s" % ("1" if mode == "repaired" else "0", lim_str(fw_lim), hx(MARKER), " ".join(hx(p) for p in ps))
                           for _, ps in pipes])
    for (fb, ps), (st, data), o in zip(pipes, cimpl, pout):
        und = not decodes(fb)
        h = impl_helper(work, data, foreign=fb)
        ls = split_lines(data)
        ctx.case(("foreign", fb, tuple(ps)), nontrivial=bool(ls))
        ctx.count("foreign_content_" + ("undecodable" if und else "decodable"))
        ctx.count("foreign_content_helper_" + h["status"].replace(" ", "_"))
        rp = {"stage": "pipeline", "payloads": [hx(p) for p in ps], "foreign_hex": hx(fb)}
        if st != "OK":
            continue                 # the client's own outcome is judged in the pipelines above
        if not h["foreign_ok"] or not h["restored"]:
            bad = next((d for d, _ in h["every"] if d != fb and foreign_lines(d) != foreign_lines(fb)), h["final"])
            a, b = foreign_lines(fb), foreign_lines(bad)
            i = next((j for j in range(min(len(a), len(b))) if a[j] != b[j]), min(len(a), len(b)))
            ctx.violation("a hosts-file line that does not carry this session's marker was altered, lost or moved%s"
                          % (" (local hosts file holding bytes that do not decode)" if und else ""),
                          dict(rp, helper=h["status"], during_session=not h["foreign_ok"], after_session=not h["restored"],
                               was=repr(a[i].encode("utf-8", "surrogateescape")[:120]) if i < len(a) else None,
                               now=repr(b[i].encode("utf-8", "surrogateescape")[:120]) if i < len(b) else None))
            continue
        if und and h["status"] == "CRASH UnicodeDecodeError":
            # the helper gives up at its first HOST line: tolerated ONLY if nothing at all was touched
            if ls and not h["untouched"]:
                ctx.violation("the helper gave up on a hosts file it cannot decode, but not before touching it",
                              dict(rp, helper=h["status"], left=h["left"]))
            continue
        if h["status"] != "RUNNING":
            ctx.violation("helper stopped on a HOST line written by the client", dict(rp, helper=h["status"]))
            continue
        # the helper went through: the usual oracles, and the model's lines
        i = "%s %s | %s" % (st, h["status"], ";".join(hx(l) for l in h["lines"]))
        if i != o:
            ctx.disagree("client+helper pipeline over a local hosts file of arbitrary bytes", [hx(p)[:200] for p in ps] + [hx(fb)[:200]], i[:400], o[:400])
        bad = [l.decode("latin-1") for l in h["lines"] if not line_ok(l)]
        if bad:
            ctx.violation("hosts-file line is not '<dotted quad> <name> <marker>'", dict(rp, bad_lines=bad[:3]))
        if mode == "repaired":
            want, have = delivery(ls, h)
            if have != want:
                ctx.violation("a forwarded host record did not arrive as its own hosts-file line", dict(rp, helper=h["status"]))
    ctx.notes.append("a LOCAL hosts file that does not decode in the locale encoding (e.g. a Latin-1 comment on a UTF-8 system) makes the "
                     "helper end with UnicodeDecodeError at its first HOST line: the file is left byte-identical (same inode, no backup, "
                     "no temporary), the packet-filter rules are undone, no host name is added; the client then fails at its next HOST "
                     "line or at clean-up.  No sentence of C19 / C14 is violated (no line is added, removed or altered) - recorded as an observation")


def replay(ctx, rp):
    r = rp.get("replay", {})
    if r.get("stage") in ("hw_main", "hostwatch-process"):
        work = tempfile.mkdtemp(prefix="c19r.")
        try:
            res = run_hw_main(work, dict(r["world"]))
            print("hw_main:", res["status"], "records:", res["text"].split("\n")[:6], "unflushed when going to sleep:", res["unflushed_at_wait"])
            bad = res["status"] != "RETURN" or res["unflushed_at_wait"] is not None or (res["text"] and not res["text"].endswith("\n"))
            if r["stage"] == "hostwatch-process" and not bad:
                want = res["text"].encode("utf-8")
                pr = run_hostwatch_process(work, dict(r["world"]), len(want))
                print("scanner process: received %r, exit %r" % (pr["bytes"][:200], pr["exit"]))
                bad = not pr["bytes"].startswith(want)
        finally:
            shutil.rmtree(work, ignore_errors=True)
        return bad
    if r.get("stage") == "server-watch":
        res = impl_server_watch([tuple(a) for a in r["waitpid_answers"]], [bytes.fromhex(c) if c != "-" else b"" for c in r["chunks"]])
        print("server loop: waitpid calls %r, relayed %r, exit %r" % (res["waitpid"], res["payloads"][:5], res["exit"]))
        alive = sum(1 for a in r["waitpid_answers"] if tuple(a) == (0, 0))
        chunks = [bytes.fromhex(c) if c != "-" else b"" for c in r["chunks"]]
        want_p = spec_relay(b"".join(chunks[:min(alive, len(chunks))]))[0]
        return (any(c[0] != 4242 or not (c[1] & os.WNOHANG) for c in res["waitpid"])
                or b"".join(res["payloads"])[:len(want_p)] != want_p
                or (alive == len(r["waitpid_answers"]) and res["exit"] is not None))
    if r.get("stage") == "check_dns":
        import ast as _ast
        import sshuttle.hostwatch as hostwatch
        import socket as real_socket
        name = _ast.literal_eval(r["name"])
        old = (hostwatch.socket, hostwatch.found_host, hostwatch.check_host)

        def ghbn(n):
            resolver_arg(n)
            raise real_socket.gaierror(-2, "Name or service not known")
        hostwatch.socket = Shim(real_socket, gethostbyname=ghbn)
        hostwatch.found_host = lambda n, ip: None
        hostwatch.check_host = lambda ip: None
        try:
            try:
                hostwatch._check_dns(name)
                print("_check_dns(%r) returned" % name)
                return False
            except BaseException as e:      # noqa
                print("_check_dns(%r) raised %s" % (name, type(e).__name__))
                return True
        finally:
            hostwatch.socket, hostwatch.found_host, hostwatch.check_host = old
    if "payloads" in r:
        ps = [bytes.fromhex(p) if p != "-" else b"" for p in r["payloads"]]
        st, data = with_client(lambda g, pf: client_payloads(g, pf, ps))
        print("client outcome:", st, "HOST lines:", split_lines(data)[:5])
        if st != "OK":
            return True
        if r.get("stage") == "pipeline":
            work = tempfile.mkdtemp(prefix="c19r.")
            fb = None
            if r.get("foreign_hex") is not None:
                fb = bytes.fromhex(r["foreign_hex"]) if r["foreign_hex"] != "-" else b""
            try:
                h = impl_helper(work, data, foreign=fb)
            finally:
                shutil.rmtree(work, ignore_errors=True)
            print("helper:", h["status"], "hosts lines:", [l[:120] for l in h["lines"]][:5])
            if fb is not None:
                print("local hosts file before:", fb[:300], "\nafter each rewrite:", [d[:300] for d, _ in h["every"]][:4], "\nafter the session:", h["final"][:300])
                if not h["foreign_ok"] or not h["restored"]:
                    return True
                if h["status"] == "CRASH UnicodeDecodeError" and not decodes(fb):
                    return not h["untouched"]
            want, have = delivery(split_lines(data), h)
            return h["status"] != "RUNNING" or any(not line_ok(l) for l in h["lines"]) or not h["foreign_ok"] or want != have
        return False
    if r.get("stage") == "scanner":
        work = tempfile.mkdtemp(prefix="c19r.")
        try:
            sc = Scanner(work)
            raw = bytes.fromhex(r["content_hex"]) if r["content_hex"] != "-" else b""
            got = (sc.read_host_cache if r["kind"] == "cache" else sc.check_etc_hosts)(raw)
        finally:
            shutil.rmtree(work, ignore_errors=True)
        print("scanner outcome:", got[:80])
        return not got.startswith("OK")
    if r.get("finding_id") == "F26":
        res = impl_hw([dec_chunk(e) for e in r["chunks_rle"]])
        print("server:", res["status"])
        return res["status"] != "OK"
    if "chunks" in r:
        chunks = [bytes.fromhex(c) if c != "-" else b"" for c in r["chunks"]]
        res = impl_hw(chunks)
        print("server:", res["v"][:300])
        want_p, want_l = spec_relay(b"".join(chunks))
        return res["status"] != "OK" or b"".join(res["payloads"]) != want_p or res["leftover"] != want_l
    print("nothing replayable in", rp.get("kind"))
    return False


if __name__ == "__main__":
    sys.path.insert(0, os.path.join(os.path.dirname(os.path.abspath(__file__)), ".."))
    import framework
    sys.exit(framework.main(sys.modules[__name__]))
