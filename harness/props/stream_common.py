"""Stream-core world (shared by C01, C02, C06, C08, C09).

Runs the REAL sshuttle.ssnet (Mux, Proxy, SockWrapper, MuxWrapper, runonce,
check_fullness), the real client.onaccept_tcp and the real closures created by
server.main (new_channel) on fake sockets / fake pipes, logs every micro-step
the real runonce performs together with the outcome of each socket call, and
replays that log on the extracted Coq model (coq/Model/Stream.v).  After every
iteration the complete state of both ends is compared."""
import errno
import io as real_io
import socket as real_socket
import struct
import sys
import zlib

CMDN = {0x4201: "PING", 0x4202: "PONG", 0x4203: "CONNECT", 0x4204: "STOP", 0x4205: "EOF", 0x4206: "DATA"}


def hx(b):
    return bytes(b).hex() if b else "-"


def digest(b):
    v = zlib.adler32(bytes(b))
    return "%d.%d.%d" % (len(b), v & 0xFFFF, v >> 16)


_PAT = {}


def pattern(tag, off, n):
    """deterministic, position-dependent payload so that reordering/duplication is visible"""
    base = _PAT.get(tag)
    if base is None:
        b0 = _PAT.get(None)
        if b0 is None:
            b0 = _PAT[None] = bytes(((j * 31 + (j >> 8) * 7 + (j >> 16) * 3 + 13) & 0xFF) for j in range(1 << 17))
        sh = (tag * 101) & 0xFF
        base = b0.translate(bytes((v + sh) & 0xFF for v in range(256)))
        _PAT[tag] = base
    return base[off:off + n]


class Capture(BaseException):
    pass


def sock_err(e):
    return OSError(e, "injected errno %d" % e)


class FSock:
    """fake non-blocking TCP socket driven by a per-socket plan"""
    family = real_socket.AF_INET

    def __init__(self, world, name, plan):
        self.w = world
        self.name = name
        self.plan = plan            # dict: data(int bytes to produce), close(bool), reset_at, ...
        self.tag = plan.get("tag", 1)
        self.produced = 0           # bytes handed out by recv
        self.rd = b""               # everything recv returned
        self.wr = b""               # everything send accepted
        self.shutdown_called = False
        self.eof_seen = False
        self.connect_calls = 0
        self.last_conn = None        # outcome of the last connect(): d(one) p(ending) k(already connected) n x
        self.reset_by_shutdown = False
        self.ops = 0
        self.closed = False
        self.connected_to = None     # address handed to connect()
        self.so_error = 0            # what getsockopt(SO_ERROR) answers (BSD work-around path of try_connect)
        self.inprogress = False      # a connect() of this socket has answered "in progress"
        self.queue = []              # listener: connections waiting to be accepted
        self.served = None           # accepted connection: did onaccept_tcp give it a flow?
        self.last_rd = b""           # what the last successful recv() returned
        self.max_rd = 0
        self.rd_sizes = set()
        self.fired = None            # the injected failure this socket has answered: (call, errno)
        # a receiver that reads more slowly than the tunnel delivers (plan "slow"): the socket's send buffer has
        # `space` bytes of room; see _slow_send
        sl = plan.get("slow")
        self.slow = {"space": sl.get("space", 0), "reads": [list(x) for x in sl.get("reads", [])], "refused": 0} if sl else None
        if plan.get("dial"):
            self.family = plan["dial"][2]
        if plan.get("family"):
            self.family = plan["family"]

    # -- helpers
    def _fault(self, kind):
        f = self.plan.get("fault")
        if f and f[0] == kind and self.ops >= f[1]:
            return f[2]
        return None

    def fileno(self):
        return 1000 + self.w.socks.index(self) if self in self.w.socks else 999

    def setblocking(self, b):
        pass

    def getpeername(self):
        # a connection that was reset between accept() and this call has no peer any more:
        # Linux answers ENOTCONN (observed on the real kernel), macOS/BSD EINVAL
        e = self.plan.get("peername_errno")
        if e:
            raise sock_err(e)
        return ("10.9.8.7", 4321)

    def getsockname(self):
        return ("127.0.0.1", 12300)

    def getsockopt(self, *a):
        return self.so_error

    def close(self):
        self.closed = True

    def accept(self):
        if not self.queue:
            # the listener plumbing handed over a listener on which nothing is waiting: a blocking
            # accept() would hang the whole client; here it fails and the event is recorded
            self.w.bad_accepts += 1
            raise sock_err(errno.EAGAIN)
        return self.queue.pop(0)

    def connect(self, addr):
        self.ops += 1
        self.connect_calls += 1
        self.connected_to = addr
        if self.reset_by_shutdown:
            # Linux: shutdown(SHUT_WR) on a socket in SYN_SENT aborts the attempt (no FIN is ever sent);
            # a later connect() on the same socket starts a fresh connection
            self.reset_by_shutdown = False
            self.shutdown_called = False
            self.inprogress = False
        steps = self.plan.get("connect", ["d"])
        st = steps[min(self.connect_calls - 1, len(steps) - 1)]
        self.w.rec["conn"] = st if st in ("d", "p", "k", "n", "x") else "n"
        self.last_conn = st
        was_pending, win = self.inprogress, self.w.platform == "win32"
        e = {"d": 0, "p": errno.EINPROGRESS, "k": errno.EISCONN, "n": self.plan.get("connect_errno", errno.ECONNREFUSED),
             "x": self.plan.get("connect_x_errno", errno.ENOMEM)}[st]
        if st == "p":
            self.inprogress = True
            if win:
                # Windows: WSAEWOULDBLOCK, or EINVAL whose "real" error is 0 while the socket is still connecting
                if self.plan.get("einval") and was_pending:
                    self.so_error = 0
                    raise sock_err(errno.EINVAL)
                raise sock_err(10035)
            # the first call answers EINPROGRESS, every further call while the attempt is pending EALREADY
            raise sock_err(errno.EALREADY if was_pending else errno.EINPROGRESS)
        self.inprogress = False
        if self.plan.get("einval") and was_pending and st in ("d", "n", "x") and not win:
            # BSD: connect() on a socket whose attempt has meanwhile finished answers EINVAL; the outcome
            # (0 = connected, or the error) has to be fetched with getsockopt(SO_ERROR)
            self.so_error = e
            raise sock_err(errno.EINVAL)
        if st == "d":
            return
        raise sock_err(e)

    def _pending_io(self, key):
        """I/O on a socket whose connect() has not been seen to finish (the code never does this: uread/uwrite wait
        for connect_to to be cleared): Linux answers would-block, Windows WSAENOTCONN (the flow would be torn down)"""
        if self.w.platform == "win32":
            self.w.rec[key] = "x"
            raise sock_err(10057)
        self.w.rec[key] = "a"
        raise sock_err(errno.EAGAIN)

    def recv(self, n):
        self.ops += 1
        rng = self.w.rng
        if self.inprogress:
            self._pending_io("recv")
        f = self._fault("recv")
        if f is not None:
            self.plan["fault"] = None
            self.w.rec["recv"] = "x"
            self.fired = ("recv", f)
            raise sock_err(f)
        left = self.plan.get("data", 0) - self.produced
        if left > 0 and self.plan.get("data_after_eof") and not self.shutdown_called:
            # an application that speaks only AFTER it has seen the far end's end-of-stream (a client that sends its
            # next request on a connection the server has half-closed): until then it is idle
            self.w.rec["recv"] = "a"
            raise sock_err(errno.EAGAIN)
        if left > 0 and (self.w.eager or rng.random() < self.plan.get("p_recv", 0.8)):
            k = min(left, n, rng.choice(self.plan.get("chunks", [1, 7, 100, 2047, 2048, 2049, 4096, 65536])))
            d = pattern(self.tag, self.produced, k)
            self.produced += k
            self.rd += d
            self.last_rd = d
            self.max_rd = max(self.max_rd, k)
            if k >= 65535:
                self.rd_sizes.add(k)
            self.w.rec["recv"] = hx(d)
            return d
        if left <= 0 and self.plan.get("close", False) and (self.w.eager or rng.random() < 0.8):
            self.eof_seen = True
            self.w.rec["recv"] = "e"
            return b""
        self.w.rec["recv"] = "a"
        raise sock_err(errno.EAGAIN)

    def send(self, b):
        self.ops += 1
        rng = self.w.rng
        if self.shutdown_called:
            self.w.rec["send"] = "p"
            raise sock_err(errno.EPIPE)
        if self.inprogress:
            self._pending_io("send")
        f = self._fault("send")
        if f is not None:
            self.plan["fault"] = None
            self.w.rec["send"] = "p" if f == errno.EPIPE else "x"
            self.fired = ("send", f)
            raise sock_err(f)
        if self.slow is not None:
            k = self._slow_send(len(b))
            if k is not None:
                if k == 0:
                    self.w.rec["send"] = "a"
                    raise sock_err(errno.EAGAIN)
                self.wr += bytes(b[:k])
                self.w.rec["send"] = "n%d" % k
                return k
        r = rng.random()
        if self.w.eager:
            r = 0.5
        if r < 0.15:
            self.w.rec["send"] = "a"
            raise sock_err(errno.EAGAIN)
        k = len(b) if r < 0.6 else rng.randint(0, len(b))
        self.wr += bytes(b[:k])
        self.w.rec["send"] = "n%d" % k
        return k

    def _slow_send(self, n):
        """The peer behind this socket reads more slowly than the tunnel delivers (a paused player, a rate-limited
        download, a destination on a slow link): the kernel's send buffer has `space` bytes of room, send() takes at
        most that much of what it is offered (a short write) and answers would-block when there is no room.  The
        peer reads again — room for `grant` more bytes — after `k` refused attempts, as scripted in `reads`
        ([[k, grant], ...]); when the script is over it reads everything (returns None: the ordinary behaviour).
        Also in the drain phase: the stall is finite because every refused attempt is counted.
        Returns the number of bytes taken (0 = would-block)."""
        sl = self.slow
        if sl["space"] <= 0:
            if not sl["reads"]:
                self.slow = None
                return None
            sl["refused"] += 1
            self.w.slow_ticks += 1
            if sl["refused"] >= sl["reads"][0][0]:
                sl["space"] = sl["reads"].pop(0)[1]
                sl["refused"] = 0
            return 0
        k = min(n, sl["space"])
        if k > 1 and self.w.rng.random() < 0.3:
            k = self.w.rng.randint(1, k)
        sl["space"] -= k
        return k

    def shutdown(self, how):
        self.shutdown_called = True
        if self.last_conn == "p":
            self.reset_by_shutdown = True
        if self.plan.get("shutdown_fails"):
            self.w.rec["shut"] = "0"
            e = self.plan.get("shutdown_errno", errno.ENOTCONN)
            self.fired = self.fired or ("shutdown", e)
            raise sock_err(e)
        self.w.rec["shut"] = "1"


class Pipe:
    """one direction of the ssh link, frame-granular on the write side"""

    def __init__(self, world):
        self.w = world
        self.buf = b""
        self.flushed = 0
        self.eof = False            # the writing end has gone away: read() answers b"" once the buffer is empty
        self.fail = None            # errno every read() fails with
        self.eof_reads = 0
        self.fail_reads = 0
        self.hist = b""             # every byte ever written into this direction of the link
        self.taken = 0              # how many of them read() has handed out (= taken off the descriptor)
        self.stall = None           # {"after": successful writes before the link stalls, "refuse": write attempts refused}

    def fileno(self):
        return 5

    def readable(self):
        return bool(self.buf) or self.eof or self.fail is not None

    def write(self, b):
        st = self.stall
        if st and self.flushed >= st["after"] and st["refuse"] > 0:
            # the link does not drain for a while (slow uplink: the case latency control exists for); finite, also in
            # the drain phase
            st["refuse"] -= 1
            self.w.slow_ticks += 1
            return None
        if not self.w.eager and self.w.rng.random() < 0.2:
            return None
        self.buf += bytes(b)
        self.hist += bytes(b)
        self.flushed += 1
        self.w.log.append("F:%s" % self.w.cur_side)
        return len(b)

    def read(self, n):
        if self.fail is not None:
            self.fail_reads += 1
            raise OSError(self.fail, "injected errno %d on the tunnel" % self.fail)
        if not self.buf:
            if self.eof:
                self.eof_reads += 1
                return b""
            return None
        k = min(n, len(self.buf))
        if not self.w.eager and self.w.rng.random() < 0.3:
            k = self.w.rng.randint(1, k)
        d, self.buf = self.buf[:k], self.buf[k:]
        self.taken += len(d)
        return d

    def flush(self):
        pass


class _RawAdapter(real_io.RawIOBase):
    """a harness pipe end behind the raw-file interface of the io module (what io.FileIO(fd) is for a descriptor),
    so that the real io.BufferedReader / BufferedWriter / TextIOWrapper can be layered on it"""

    def __init__(self, obj, reading):
        real_io.RawIOBase.__init__(self)
        self._obj, self._reading = obj, reading

    def readable(self):
        return self._reading

    def writable(self):
        return not self._reading

    def fileno(self):
        return self._obj.fileno()

    def readinto(self, b):
        d = self._obj.read(len(b))
        if d is None:
            return None
        b[:len(d)] = d
        return len(d)

    def write(self, b):
        return self._obj.write(bytes(b))


def io_shim(raw_of):
    """stand-in for the `io` module as one sshuttle module sees it: descriptors 0 and 1 are the harness's own raw
    objects `raw_of(fd)`; io.FileIO(fd) and io.open(fd, ..., buffering=0) hand that object out as it is, io.open with
    buffering builds the REAL buffered / text layers of the io module on top of it; everything else is the real module."""
    class IoShim(object):
        def __getattr__(self, k):
            return getattr(real_io, k)

        def FileIO(self, fd, mode="r", closefd=True, opener=None):
            if isinstance(fd, int) and fd in (0, 1):
                return raw_of(fd)
            return real_io.FileIO(fd, mode, closefd, opener)

        def open(self, file, mode="r", buffering=-1, encoding=None, errors=None, newline=None, closefd=True, opener=None):
            if not (isinstance(file, int) and not isinstance(file, bool) and file in (0, 1)):
                return real_io.open(file, mode, buffering, encoding, errors, newline, closefd, opener)
            raw = raw_of(file)
            if buffering == 0:
                return raw
            reading = "r" in mode and "+" not in mode
            ad = raw if isinstance(raw, real_io.RawIOBase) else _RawAdapter(raw, reading)
            size = real_io.DEFAULT_BUFFER_SIZE if buffering in (-1, 1) else buffering
            buf = real_io.BufferedReader(ad, size) if reading else real_io.BufferedWriter(ad, size)
            if "b" in mode:
                return buf
            return real_io.TextIOWrapper(buf, encoding, errors, newline, buffering == 1)
    return IoShim()


class RW:
    """file object pair seen by one Mux: reads from one pipe, writes to the other"""

    def __init__(self, rp, wp, which):
        self.rp, self.wp, self.which = rp, wp, which

    def fileno(self):
        return 3 if self.which == "r" else 4

    def read(self, n):
        return self.rp.read(n)

    def write(self, b):
        return self.wp.write(b)

    def flush(self):
        pass


def decode_frames(b):
    out = []
    while len(b) >= 8:
        s1, s2, ch, cmd, ln = struct.unpack("!ccHHH", b[:8])
        if len(b) < 8 + ln:
            break
        out.append((ch, cmd, b[8:8 + ln]))
        b = b[8 + ln:]
    return out


def queued_frames(m):
    """the messages in a multiplexer's outgoing queue, whatever the split into queue entries (an entry is written to the
    link whole or not at all by the harness pipe, so the queue always starts at a message boundary)"""
    return decode_frames(b"".join(bytes(b) for b in m.outbuf))


def frames_str(fr):
    return ";".join("%d,%s,%s" % (ch, CMDN.get(cmd, "OTHER%d" % cmd), digest(d)) for ch, cmd, d in fr)


LISTEN_PORT = 12300          # FSock.getsockname(): the port the client's listeners are bound to
AF4, AF6 = int(real_socket.AF_INET), int(real_socket.AF_INET6)
DEFAULT_DIAL = ["10.0.0.1", 80, AF4]
_V6_OK = []


def v6_available():
    """can this machine create and bind IPv6 sockets?  (helpers.islocal is run for real)"""
    if not _V6_OK:
        try:
            t = real_socket.socket(real_socket.AF_INET6)
            try:
                t.bind(("::1", 0))
            finally:
                t.close()
            _V6_OK.append(True)
        except Exception:
            _V6_OK.append(False)
    return _V6_OK[0]


_LOCAL = {}


def machine_has(ip, fam):
    """the harness's own answer to "is this an address of this machine?" (same kernel question as helpers.islocal,
    asked independently of the code under test; the sandbox's own interface may sit in a documentation range)"""
    k = (ip, fam)
    if k not in _LOCAL:
        try:
            t = real_socket.socket(fam)
            try:
                t.bind((ip, 0))
                _LOCAL[k] = True
            finally:
                t.close()
        except OSError as e:
            _LOCAL[k] = False if e.errno == errno.EADDRNOTAVAIL else None
    return _LOCAL[k]


def foreign_addr(rng, fam):
    """an address that is certainly not one of this machine's (documentation ranges, checked)"""
    for _ in range(50):
        if fam == AF6:
            ip = "2001:db8::%x" % rng.randint(1, 0xffff)
        else:
            ip = "%s.%d" % (rng.choice(["192.0.2", "198.51.100", "203.0.113"]), rng.randint(1, 254))
        if machine_has(ip, fam) is False:
            return ip
    return None


def own_address(dial):
    """is this destination the client's own listening socket (the connection C05 says is dropped)?"""
    return dial[1] == LISTEN_PORT and dial[0] in ("127.0.0.1", "::1")


class World:
    def __init__(self, rng, maxc=65535, lbs=32768, latency=True, platform="linux"):
        import sshuttle.ssnet as ssnet
        import sshuttle.client as client
        import sshuttle.server as server
        import sshuttle.helpers as helpers
        self.ssnet, self.client, self.server, self.helpers = ssnet, client, server, helpers
        self.rng = rng
        self.maxc, self.lbs, self.latency = maxc, lbs, latency
        self.platform = platform
        self.bad_accepts = 0
        self.slow_ticks = 0         # refused attempts of slow receivers / a stalled link so far (they are finite: progress)
        self.unserved = []          # captured connections that got no flow although nothing excused it
        self.guard_missed = []      # connections to the client's own listener that were tunnelled all the same
        self.model_cut = None       # number of snapshots the model is compared on (None: all)
        self.log_cut = None
        self.post_crash = {"c": None, "s": None}   # how an end's loop died after the cut
        self.noise = None
        self.eager_quiet = False
        self.since_pong = {"c": 0, "s": 0}
        self.iter_start_since_pong = {"c": 0, "s": 0}
        self.asked = {"c": False, "s": False}
        self.over_budget = []
        self.echoes = []            # messages an end queued WHILE handling a received TCP_EOF / TCP_STOP_SENDING (c02_no_echo)
        self.log = []               # micro-step events (model input)
        self.real_snaps = []        # canonical states at each S
        self.real_waits = []
        self.cur_waits = []
        self.rec = {}
        self.cur_side = "c"
        self.socks = []
        self.crash = None
        self.crash_info = {}
        self.model_crashed = False  # the model ends this run with the same crash (a crash by design)
        self.eager = False      # drain phase: the environment never stalls
        self.blocked = {"c": False, "s": False}   # drain phase: that end's select() had nothing ready: it sleeps
        self.cur_meta = None        # the iteration under way: [side, went to sleep in select(), a listener was ready]
        self.real_meta = []         # ... per snapshot
        self.slept_queued = []      # an end went to sleep in select() with messages in its outgoing queue
        self.fid = {"c": {}, "s": {}}     # id(proxy) -> fid
        self.prox = {"c": [], "s": []}    # fid -> proxy object
        self.removed = {"c": set(), "s": set()}
        self.sent_log = {"c": [], "s": []}   # (cmd, len) per mux.send, for the C09 oracle
        self.dst_plans = []
        self.app_socks = []
        self.dst_socks = []
        self.saved = {}
        self.mux_got = {"c": 0, "s": 0}   # bytes of the tunnel stream that reached each multiplexer's input buffer
        try:
            self._install()
        except BaseException:
            self.restore()              # a failed set-up must not leave the patched boundary behind
            raise

    # ------------------------------------------------------------------ setup
    def _install(self):
        ssnet, client, server, helpers = self.ssnet, self.client, self.server, self.helpers
        w = self
        sv = self.saved
        sv["ssnet"] = {k: getattr(ssnet, k) for k in ("MAX_CHANNEL", "LATENCY_BUFFER_SIZE", "set_non_blocking_io", "select", "socket", "runonce", "sys", "errno")}
        sv["Proxy"] = (ssnet.Proxy.__init__, ssnet.Proxy.callback, ssnet.Proxy.pre_select)
        sv["client"] = (client.islocal,)
        if self.platform == "win32":
            # the Windows branches of try_connect: ssnet sees sys.platform == 'win32' and an errno module that
            # knows WSAEWOULDBLOCK (the real one only has it on Windows)
            class SysWin:
                platform = "win32"
                exc_info = staticmethod(sys.exc_info)

            class ErrnoWin:
                WSAEWOULDBLOCK = 10035
            for k in dir(errno):
                if not k.startswith("__"):
                    setattr(ErrnoWin, k, getattr(errno, k))
            ssnet.sys, ssnet.errno = SysWin, ErrnoWin
        sv["server"] = (server.io, server.sys)
        sv["helpers_log"] = helpers.log
        ssnet.MAX_CHANNEL = self.maxc
        ssnet.LATENCY_BUFFER_SIZE = self.lbs
        ssnet.set_non_blocking_io = lambda fd: None

        class SelShim:
            error = OSError

            @staticmethod
            def select(r, wl, x, timeout=None):
                return w.fake_select(r, wl, x, timeout)
        ssnet.select = SelShim

        class SockShim:
            pass
        for k in dir(real_socket):
            if not k.startswith("__"):
                try:
                    setattr(SockShim, k, getattr(real_socket, k))
                except Exception:
                    pass

        def mk_socket(family=real_socket.AF_INET, *a):
            plan = w.dst_plans.pop(0) if w.dst_plans else {"connect": ["d"], "tag": 99}
            s = FSock(w, "dst%d" % len(w.dst_socks), plan)
            s.family = family
            w.socks.append(s)
            w.dst_socks.append(s)
            return s
        SockShim.socket = staticmethod(mk_socket)
        ssnet.socket = SockShim
        helpers.log = lambda s: None
        ssnet.log = lambda s: None
        client.log = lambda s: None
        server.log = lambda s: None

        o_init, o_cb, o_ps = sv["Proxy"]

        def p_init(self_, w1, w2):
            o_init(self_, w1, w2)
            side = "c" if isinstance(w2, ssnet.MuxWrapper) else "s"
            fid = len(w.prox[side])
            w.fid[side][id(self_)] = fid
            w.prox[side].append(self_)

        def p_cb(self_, sock):
            side = w.side_of(self_)
            w.rec = {"conn": "d", "recv": "a", "send": "a", "shut": "1"}
            idx = len(w.log)
            w.log.append(None)
            try:
                return o_cb(self_, sock)
            finally:
                r = w.rec
                w.log[idx] = "C:%s:%d:%s:%s:%s:%s" % (side, w.fid[side][id(self_)], r["conn"], r["recv"], r["send"], r["shut"])

        def p_ps(self_, r, wl, x):
            side = w.side_of(self_)
            r2, w2 = [], []
            w.log.append("P:%s:%d" % (side, w.fid[side][id(self_)]))
            o_ps(self_, r2, w2, x)
            sw = self_.wrap1 if side == "c" else self_.wrap2
            mux = w.mux[side]
            letters = set()
            if sw.rsock in r2:
                letters.add("r")
            if sw.rsock in w2:
                letters.add("w")
            if mux.rfile in r2:
                letters.add("R")
            if mux.wfile in w2:
                letters.add("W")
            w.cur_waits.append("".join(sorted(letters)))
            for i in r2:
                ssnet._add(r, i)
            for i in w2:
                ssnet._add(wl, i)
        ssnet.Proxy.__init__ = p_init
        ssnet.Proxy.callback = p_cb
        ssnet.Proxy.pre_select = p_ps

        # pipes and the two Mux objects
        self.cs, self.sc = Pipe(self), Pipe(self)
        self.mux = {}
        self.handlers = {}
        # --- client end: real Mux + a listener handler that calls the real onaccept_tcp
        cr, cw = RW(self.sc, self.cs, "r"), RW(self.sc, self.cs, "w")
        self.cur_side = "c"
        cm = ssnet.Mux(cr, cw)
        self.mux["c"] = cm
        self.listener = FSock(self, "listener", {"family": AF4})
        self.listener6 = FSock(self, "listener6", {"family": AF6})
        self.socks.append(self.listener)
        self.socks.append(self.listener6)

        class Method:
            @staticmethod
            def get_tcp_dstip(sock):
                d = sock.plan.get("dial", DEFAULT_DIAL)
                return (d[0], d[1])
        ch = [cm]
        self.handlers["c"] = ch

        def accept_tcp(listener, method, mux, handlers):
            # what client._main registers is onaccept_tcp itself; this wrapper only logs the model's event
            nxt = listener.queue[0][0] if listener.queue else None
            dial = nxt.plan.get("dial", DEFAULT_DIAL) if nxt is not None else DEFAULT_DIAL
            own = own_address(dial)
            if not own:
                w.log.append("A:%s" % hx(b"%d,%s,%d" % (dial[2], dial[0].encode("ascii"), dial[1])))
            before = len(w.prox["c"])
            free = [i for i in range(1, min(w.maxc, 1024) + 1) if not mux.channels.get(i)]
            try:
                return client.onaccept_tcp(listener, method, mux, handlers)
            finally:
                if nxt is not None and nxt not in [q[0] for q in listener.queue]:
                    nxt.served = len(w.prox["c"]) > before
                    if own and nxt.served:
                        w.guard_missed.append(nxt.name)
                    if not own and not nxt.served and free:
                        w.unserved.append(nxt.name)
        # the real plumbing between a ready listening socket and the accept function (both address families)
        ml = client.MultiListener()
        ml.bind_called = True
        ml.v4, ml.v6 = self.listener, self.listener6
        ml.add_handler(ch, accept_tcp, Method, cm)
        # --- server end: run the real server.main until its first runonce
        sr, sw_ = RW(self.cs, self.sc, "r"), RW(self.cs, self.sc, "w")

        # descriptors 0 and 1 of the server process are the two harness pipes; every way the `io` module offers to
        # open them (raw FileIO, io.open with or without buffering) layers over them as the real module does over
        # a descriptor — a buffered reader really reads ahead, out of select()'s sight
        IoShim = io_shim(lambda fd: sr if fd == 0 else sw_)

        class Out:
            def write(self, s):
                pass

            def flush(self):
                pass

        class SysShim:
            stdout = Out()
            stderr = sys.stderr
            platform = "linux"
            exc_info = staticmethod(sys.exc_info)
            exit = staticmethod(sys.exit)
        server.io = IoShim
        server.sys = SysShim
        cap = {}

        def capture(handlers, mux):
            cap["h"], cap["m"] = handlers, mux
            raise Capture()
        ssnet.runonce = capture
        self.cur_side = "s"
        try:
            server.main(self.latency, self.lbs, False, None, False)
        except Capture:
            pass
        finally:
            ssnet.runonce = sv["ssnet"]["runonce"]
            server.io, server.sys = sv["server"]
        sm = cap["m"]
        # server.main queued an empty ROUTES message; the stream model starts without it
        # (a queue entry may hold several messages: take the ROUTES message, the last one queued, off the tail entry)
        tail = bytes(sm.outbuf[-1])
        routes = struct.pack("!ccHHH", b"S", b"S", 0, 0x4207, 0)
        assert tail.endswith(routes) and decode_frames(b"".join(bytes(b) for b in sm.outbuf))[-1][1] == 0x4207
        if len(tail) > len(routes):
            sm.outbuf[-1] = tail[:-len(routes)]
        else:
            sm.outbuf.pop()
        self.mux["s"] = sm
        self.handlers["s"] = cap["h"]
        for side in ("c", "s"):
            self._wrap_mux(side)

    def _wrap_mux(self, side):
        m = self.mux[side]
        w = self
        o_gp = m.got_packet
        o_send = m.send

        def gp(channel, cmd, data):
            if cmd == 0x4202:
                w.since_pong[side] = 0
                w.iter_start_since_pong[side] = 0
                w.asked[side] = False
            w.rec = {"conn": "d", "recv": "a", "send": "a", "shut": "1"}
            idx = len(w.log)
            w.log.append(None)
            # c02_no_echo: handling a received TCP_EOF / TCP_STOP_SENDING queues no message at all (observed at Mux.send)
            n_sent = len(w.sent_log[side])
            ssn = w.ssnet
            mwr = getattr(m.channels.get(channel), "__self__", None) if cmd in (ssn.CMD_TCP_EOF, ssn.CMD_TCP_STOP_SENDING) else None
            before = (bool(getattr(mwr, "shut_read", None)), bool(getattr(mwr, "shut_write", None)))
            try:
                return o_gp(channel, cmd, data)
            finally:
                w.log[idx] = "D:%s:%s:%s" % (side, w.rec["conn"], w.rec["shut"])
                if cmd in (ssn.CMD_TCP_EOF, ssn.CMD_TCP_STOP_SENDING) and len(w.sent_log[side]) > n_sent:
                    w.echoes.append({"side": side, "identifier": channel, "received": cmd, "micro_step": idx,
                                     "queued_while_handling_it": [c for c, _l, _t in w.sent_log[side][n_sent:]],
                                     "tunnel_side_shut_read_before": before[0], "tunnel_side_shut_write_before": before[1]})

        def send(channel, cmd, data):
            w.sent_log[side].append((cmd, len(data), bool(m.too_full)))
            # the harness's own count of what this end has queued since the last acknowledgement
            # (judged on the count at the START of this loop iteration: check_fullness runs after every iteration,
            # so an end that was over budget then has asked — whatever else, stream or datagram, was queued since)
            if cmd == 0x4206 and w.latency and not w.asked[side]:
                if w.iter_start_since_pong[side] > w.lbs:
                    w.over_budget.append({"side": side, "queued_since_ack_at_iteration_start": w.iter_start_since_pong[side],
                                          "budget": w.lbs, "the_multiplexer_s_own_count_at_that_moment": m.fullness,
                                          "messages_in_its_queue": len(queued_frames(m)), "queue_entries": len(m.outbuf)})
            if cmd == 0x4201 and bytes(data) == b"rttest":
                w.asked[side] = True
            w.since_pong[side] += len(data)
            return o_send(channel, cmd, data)
        o_fill = m.fill

        def fill():
            before = len(m.inbuf)
            try:
                return o_fill()
            finally:
                w.mux_got[side] += len(m.inbuf) - before
        m.got_packet = gp
        m.send = send
        m.fill = fill

    def restore(self):
        ssnet, client, server, helpers = self.ssnet, self.client, self.server, self.helpers
        for k, v in self.saved.get("ssnet", {}).items():
            setattr(ssnet, k, v)
        if "Proxy" in self.saved:
            ssnet.Proxy.__init__, ssnet.Proxy.callback, ssnet.Proxy.pre_select = self.saved["Proxy"]
        if "client" in self.saved:
            client.islocal = self.saved["client"][0]
        if "helpers_log" in self.saved:
            helpers.log = ssnet.log = client.log = server.log = self.saved["helpers_log"]

    # ------------------------------------------------------------------ running
    def side_of(self, proxy):
        return "c" if id(proxy) in self.fid["c"] else "s"

    def fake_select(self, r, wl, x, timeout):
        """select() of the end that is running.  What CAN be ready: the tunnel when bytes (or its end) are waiting,
        a listener with a queued connection, every other descriptor in a wait set (its recv/send/connect answers
        come from the socket's script).  Outside the drain phase a random subset of that is reported, as a slow
        environment would; but a select() WITHOUT timeout never returns empty-handed: if something can be ready
        one such descriptor is reported, and if nothing can, the process sleeps (self.blocked) until something
        from outside wakes it — the main loops of the code have no timeout."""
        rng = self.rng
        side = self.cur_side
        m = self.mux[side]
        inpipe = self.sc if side == "c" else self.cs
        rr, ww, cand = [], [], []
        for s in r:
            if s is m.rfile:
                if inpipe.readable():
                    cand.append((0, s))
                    if timeout == 0 or self.eager or rng.random() < 0.8:
                        rr.append(s)
            elif s is self.listener or s is self.listener6:
                if s.queue:
                    rr.append(s)
            else:
                cand.append((0, s))
                if self.eager or rng.random() < 0.75:
                    rr.append(s)
        for s in wl:
            cand.append((1, s))
            if self.eager or rng.random() < 0.75:
                ww.append(s)
        if timeout is None and not rr and not ww:
            if cand:
                k, s = cand[rng.randrange(len(cand))]
                (ww if k else rr).append(s)
            else:
                self.blocked[side] = True
        if timeout is None:
            self.log_select(side, rr, ww)
        return rr, ww, []

    def log_select(self, side, rr, ww):
        """what the main select() of this iteration reported.  Not a micro-step: with this marker the model checks that
        the iteration's micro-steps are an instance of Model/StreamLoop.iter_events (drivers/c01_driver.ml, `Y`):
        Mux.callback once per ready tunnel descriptor, then the listeners, then every proxy 2x if its socket is ready
        + 1x per ready tunnel descriptor, in list order; nothing at all iff the model says the end sleeps"""
        m = self.mux[side]
        socks = {}
        for f, p in enumerate(self.prox[side]):
            socks[id((p.wrap1 if side == "c" else p.wrap2).rsock)] = f
        ready = sorted(set(socks[id(s)] for s in rr + ww if id(s) in socks))
        lis = any(s is self.listener or s is self.listener6 for s in rr)
        if self.cur_meta is not None:
            self.cur_meta[2] = lis
        self.log.append("Y:%s:%d%d%d:%s" % (side, any(s is m.rfile for s in rr), any(s is m.wfile for s in ww), lis,
                                            ",".join(map(str, ready)) or "-"))

    def woken(self, side):
        """something from outside makes a descriptor of this (sleeping) end ready"""
        inpipe = self.sc if side == "c" else self.cs
        return inpipe.readable() or (side == "c" and bool(self.pending_accept))

    def add_noise_handlers(self):
        """a handler per end, AFTER the Mux in the handler list (like a UdpProxy / DnsProxy of that end), whose
        callback sends a datagram message: traffic that latency control never holds back.  The identifier is
        unknown to the peer, which logs and drops the message."""
        ssnet = self.ssnet
        world = self

        class NSock(object):
            def __init__(self, n):
                self.n = n

            def fileno(self):
                return 900 + self.n

        for n, side in enumerate(("c", "s")):
            def cb(sock, side=side):
                nz = world.noise
                if not world.eager_quiet and world.rng.random() < nz["p"]:
                    world.mux[side].send(nz["chan"], 0x420d, bytes(world.rng.choice(nz["sizes"])))
            self.handlers[side].append(ssnet.Handler([NSock(n)], cb))

    def new_flow(self, app_plan, dst_plan):
        s = FSock(self, "app%d" % len(self.app_socks), app_plan)
        self.socks.append(s)
        self.app_socks.append(s)
        if not own_address(app_plan.get("dial", DEFAULT_DIAL)):
            self.dst_plans.append(dst_plan)      # (a connection to the client's own listener never reaches the server)
        lst = self.listener6 if s.family == AF6 else self.listener
        lst.queue.append((s, ("1.2.3.4", 5000 + len(self.app_socks))))

    @property
    def pending_accept(self):
        return self.listener.queue + self.listener6.queue

    def iterate(self, side):
        """one iteration of the main loop of `side`: runonce (+ check_fullness).  An end that sleeps in select()
        does nothing until it is woken (returns False)."""
        ssnet = self.ssnet
        if self.blocked[side]:
            if not self.woken(side):
                return False
            self.blocked[side] = False
        self.cur_side = side
        self.cur_meta = [side, False, False]
        self.iter_start_since_pong[side] = self.since_pong[side]
        hs = self.handlers[side]
        for h in hs:
            if not h.ok and isinstance(h, ssnet.Proxy):
                f = self.fid[side][id(h)]
                self.log.append("R:%s:%d" % (side, f))
                self.removed[side].add(f)
        try:
            ssnet.runonce(hs, self.mux[side])
            self.cur_meta[1] = bool(self.blocked[side])
            if self.blocked[side] and self.mux[side].outbuf:
                # (implementation only) select() has no timeout and nothing this end waits for can become ready by
                # itself, yet a message is queued: it leaves only when the OTHER end happens to send something
                fr = queued_frames(self.mux[side])
                self.slept_queued.append({"side": side, "iteration": len(self.real_snaps),
                                          "queued": [CMDN.get(c, "%04x" % c) for _, c, _ in fr]})
            if self.latency:
                self.log.append("K:%s" % side)
                self.mux[side].check_fullness()
        except Exception as e:
            if self.model_cut is None:
                self.crash = type(e).__name__
                self.crash_info = {"end": {"c": "client", "s": "server"}[side],
                                   "exception": "%s: %s" % (type(e).__name__, str(e)[:200]),
                                   "raised_in": code_frames(e)[-3:]}
                # a half-written log entry (None) stays where the exception interrupted it
            else:
                self.post_crash[side] = type(e).__name__
        if self.model_cut is None:
            self.snapshot()

    def end_tunnel(self, te):
        """the tunnel itself ends while flows are open: the peer closes it (read() answers b""), reading it fails
        (OSError other than EAGAIN), or the peer sends the EXIT message.  The stream model has no such event: the
        model is compared on everything before this moment, what follows is judged on the implementation alone.
        The main loops are the ones of the code: client `while 1: runonce`, server `while mux.ok: runonce`."""
        self.model_cut, self.log_cut = len(self.real_snaps), len(self.log)
        side = te["side"]
        other = "s" if side == "c" else "c"
        inpipe = self.sc if side == "c" else self.cs
        if te["kind"] == "eof":
            inpipe.eof = True
        elif te["kind"] == "error":
            inpipe.fail = te["errno"]
        else:
            inpipe.buf += struct.pack("!ccHHH", b"S", b"S", 0, 0x4200, 0)
        self.eager = True
        for rnd in range(te.get("rounds", 10)):
            for sd in ((side, other) if rnd % 2 == 0 else (other, side)):
                if self.post_crash[sd]:
                    continue                    # that process is gone
                if sd == "s" and not self.mux["s"].ok:
                    continue                    # server.main has left its loop
                self.iterate(sd)

    def snapshot(self):
        self.log.append("S")
        self.real_meta.append(self.cur_meta)
        self.cur_meta = None
        self.real_snaps.append(self.state_str())
        self.real_waits.append(",".join(self.cur_waits))
        self.cur_waits = []

    # ------------------------------------------------------------------ state
    def end_str(self, side):
        ssnet = self.ssnet
        m = self.mux[side]
        fr = queued_frames(m)
        wrap_fid = {}
        chans = set()
        for f, p in enumerate(self.prox[side]):
            mw = p.wrap2 if side == "c" else p.wrap1
            wrap_fid[id(mw)] = f
            chans.add(mw.channel)
        cs = []
        for c in sorted(chans):
            cb = m.channels.get(c)
            cs.append("%d=%s" % (c, wrap_fid.get(id(getattr(cb, "__self__", None)), "?") if cb else "-"))
        ps = []
        for f, p in enumerate(self.prox[side]):
            if f in self.removed[side]:
                ps.append("%d:removed" % f)
                continue
            sw = p.wrap1 if side == "c" else p.wrap2
            mw = p.wrap2 if side == "c" else p.wrap1
            ps.append("%d:ok%d|s:%d%d%d[%s]x%d|m:%d,%d%d[%s]" % (
                f, p.ok, bool(sw.connect_to), sw.shut_read, sw.shut_write,
                ",".join(digest(b) for b in sw.buf), bool(sw.exc),
                mw.channel, mw.shut_read, mw.shut_write, ",".join(digest(b) for b in mw.buf)))
        return "out=[%s] chan={%s} chani=%d full=%d tf=%d prox{%s}" % (
            frames_str(fr), ",".join(cs), m.chani, m.fullness, bool(m.too_full), " ".join(ps))

    def hist_str(self, side):
        out = []
        for f, p in enumerate(self.prox[side]):
            sw = p.wrap1 if side == "c" else p.wrap2
            out.append("%d:rd=%s,wr=%s" % (f, digest(sw.rsock.rd), digest(sw.rsock.wr)))
        return " ".join(out)

    def state_str(self):
        cs = decode_frames(bytes(self.mux["s"].inbuf) + self.cs.buf)
        sc = decode_frames(bytes(self.mux["c"].inbuf) + self.sc.buf)
        return "CL %s || SV %s || cs=[%s] sc=[%s] || hist CL %s SV %s" % (
            self.end_str("c"), self.end_str("s"), frames_str(cs), frames_str(sc),
            self.hist_str("c"), self.hist_str("s"))

    def seg_of(self, i):
        """the log entries of iteration i (between snapshots i-1 and i)"""
        segs, cur = [], []
        for e in self.log:
            if e == "S":
                segs.append(cur)
                cur = []
            elif e is not None:
                cur.append(e)
        return " ".join(segs[i]) if i < len(segs) else ""

    def model_line(self):
        evs = [e for e in (self.log if self.log_cut is None else self.log[:self.log_cut]) if e is not None]
        return "RUN %d %d %s" % (self.maxc, self.lbs, " ".join(evs))

    # ------------------------------------------------------------------ oracles (implementation only)
    def flows(self):
        """pairs (fid, app sock, dst sock or None)"""
        out = []
        for f, p in enumerate(self.prox["c"]):
            app = p.wrap1.rsock
            dst = self.prox["s"][f].wrap2.rsock if f < len(self.prox["s"]) else None
            out.append((f, app, dst))
        return out

    def quiescent(self):
        if self.pending_accept or self.cs.buf or self.sc.buf:
            return False
        for side in ("c", "s"):
            if self.mux[side].outbuf:
                return False
        return True


def compare(ctx, world, model_out, label):
    """compare the real snapshots with the model's; returns True if equal"""
    parts = model_out.split(" ## ") if model_out else []
    real = list(world.real_snaps if world.model_cut is None else world.real_snaps[:world.model_cut])
    ok = True
    for i, rs in enumerate(real):
        if i >= len(parts):
            ok = False
            ctx.disagree("stream: model stopped early", label, rs[:600], (parts[-1] if parts else "")[:600])
            break
        ms = parts[i]
        if ms.startswith("CRASH"):
            if world.crash and world.crash == ms.split()[1]:
                world.model_crashed = True
                return True
            ctx.disagree("stream: model crashed, implementation did not", label, "crash=%s" % world.crash, ms)
            return False
        mstate, _, mwaits = ms.partition(" || waits ")
        mwaits, _, stale = mwaits.partition(" || stale=")
        stale, _, quiet = stale.partition(" || quiet=")
        quiet, _, sleep = quiet.partition(" || sleep=")
        sleep, _, order = sleep.partition(" || iter=")
        world.model_stale = (stale == "1")
        world.model_quiet = quiet          # "10" = quiescentb, not quiescent_eagerb, ...
        mw = ",".join("".join(sorted(set(x))) for x in mwaits.split(",")) if mwaits else ""
        if mstate != rs:
            ok = False
            ctx.disagree("stream: state differs after iteration %d" % i, label, rs[:1500], mstate[:1500])
            break
        if mw != world.real_waits[i]:
            ok = False
            ctx.disagree("stream: wait sets differ at iteration %d" % i, label, world.real_waits[i], mw)
            break
        # the loop layer (Model/StreamLoop.v): this iteration's micro-steps are an instance of the model's iteration,
        # and the end went to sleep in select() exactly when the model's sleepsb said so at the iteration's start
        # (two bits each: runonce as found / with the repair of F160 — either may be the code under check)
        meta = world.real_meta[i] if i < len(world.real_meta) else None
        if meta and len(sleep) == 2 and sleep != "--":
            if meta[1] not in [b == "1" and not meta[2] for b in sleep]:
                ok = False
                ctx.disagree("stream: the end %s asleep in select() in iteration %d, the model's sleepsb says otherwise"
                             % ("fell" if meta[1] else "did not fall", i), label,
                             {"side": meta[0], "blocked": meta[1], "listener_ready": meta[2]}, sleep)
                break
            if "1" not in order:
                ok = False
                ctx.disagree("stream: the micro-steps of iteration %d are not an instance of the model's iteration "
                             "(Model/StreamLoop.iter_events / ans_real_po)" % i, label, world.seg_of(i), order)
                break
            if sleep == "10" and meta[1]:
                world.model_late_sleep = True     # asleep with a late STOP_SENDING in the queue: finding F160, in the model too
    if ok and world.crash and not (parts and parts[-1].startswith("CRASH")):
        ctx.disagree("stream: implementation crashed, model did not", label, world.crash, parts[-1][:300] if parts else "")
        ok = False
    return ok


# ---------------------------------------------------------------------- cases
SIZES = [0, 1, 2, 2047, 2048, 2049, 4096, 32767, 32768, 32769, 65535, 65536, 65537, 100000]
NET = [errno.ECONNREFUSED, errno.ETIMEDOUT, errno.EHOSTUNREACH, errno.ENETUNREACH, errno.EHOSTDOWN,
       errno.ENETDOWN, errno.ECONNABORTED, errno.ECONNRESET, errno.EACCES, errno.EPERM]


# what the kernel can answer to recv() / send() on an ESTABLISHED TCP socket (tcp(7), ip(7), recv(2), send(2): pending
# soft errors from ICMP, retransmission / keep-alive time-outs, an interface going down, memory pressure, a firewall
# rule on the output path, a descriptor gone bad).  Every one is raised as OSError(errno, ...), so Python picks the
# subclass the real call would raise (TimeoutError, ConnectionResetError, BrokenPipeError, PermissionError, ... or
# plain OSError): an except clause that names a subclass sees exactly what it would see in production.
# Model (Stream.v, letter "x"; theorem C08 c08_callback_never_raises): ANY errno of recv/send ends only that flow.
EST = sorted(set(NET + [errno.EPIPE, errno.ENOTCONN, errno.ENETRESET, errno.ENOBUFS, errno.ENOMEM, errno.EIO, errno.EINVAL,
                        errno.EBADF, errno.ENOTSOCK, errno.EPROTO, errno.ENONET, errno.EOPNOTSUPP]))
SHUT_ERRS = [errno.ENOTCONN, errno.EINVAL, errno.EBADF, errno.ENOTSOCK, errno.ENOBUFS, errno.ECONNRESET]
# connect(): errnos outside try_connect's handled set (the code re-raises by design, the model says CRASH); only ones
# that Python raises as plain OSError, the class the model's crash carries
X_ERRS = [errno.ENOMEM, errno.ENOBUFS, errno.EADDRNOTAVAIL, errno.EAFNOSUPPORT, errno.EADDRINUSE, errno.EIO,
          errno.EBADF, errno.ENOTSOCK, errno.EPROTOTYPE]
# --latency-buffer-size is an int without upper bound
WINDOWS = [65536, 262144, 524288, (1 << 20) - 1, 1 << 20, (1 << 20) + 16, 2 << 20, 16 << 20, 1 << 30]


def endpoint_error_cases(rng, quick=True):
    """an established flow whose application / destination socket answers recv() or send() with each errno of EST at
    some operation, or fails shutdown(), next to a healthy flow that has data to carry in both directions"""
    out = []
    combos = [(call, e, who) for call in ("recv", "send") for e in EST for who in ("app", "dst")
              if not (call == "recv" and e == errno.EPIPE)]
    combos += [("shutdown", e, who) for e in SHUT_ERRS for who in ("app", "dst")]
    if quick:
        combos = rng.sample(combos, 14)
    for n, (call, e, who) in enumerate(combos):
        app = {"tag": 1, "data": rng.choice([50, 300, 5000]), "close": rng.random() < 0.7, "p_recv": 1.0}
        dst = {"tag": 2, "data": rng.choice([50, 300, 5000]), "close": rng.random() < 0.7, "p_recv": 1.0,
               "connect": rng.choice([["d"], ["p", "d"]])}
        bad = app if who == "app" else dst
        bad["faulty"] = True
        if call == "shutdown":
            bad["shutdown_fails"], bad["shutdown_errno"] = True, e
            (dst if who == "app" else app)["close"] = True      # (the failing socket is shut down when its peer closes)
        else:
            bad["fault"] = (call, rng.randint(0, 6), e)
        good = ({"tag": 3, "data": rng.choice([300, 5000, 40000]), "close": True, "p_recv": 1.0},
                {"tag": 4, "data": rng.choice([300, 5000, 40000]), "close": True, "p_recv": 1.0, "connect": ["d"]})
        flows = [(app, dst), good] if rng.random() < 0.5 else [good, (app, dst)]
        out.append({"profile": "fault", "seed": rng.randrange(1 << 30), "maxc": 65535, "lbs": 32768,
                    "latency": rng.random() < 0.7, "iters": rng.choice([0, 40]), "flows": flows,
                    "endpoint_error": [call, errno.errorcode.get(e, str(e)), who]})
    return out


def gen_case(rng, profile, quick=True):
    import random
    c = {"profile": profile, "seed": rng.randrange(1 << 30), "maxc": 65535, "lbs": 32768, "latency": True,
         "flows": [], "iters": 60}
    upload_side = profile == "reuse_up"           # the upload-side mirror of "reuse", always (see below)
    if upload_side:
        profile = "reuse"
    r2 = random.Random(c["seed"] ^ 0x2b5)       # later-added dimensions draw here: the older ones keep their sequence
    r3 = random.Random(c["seed"] ^ 0x6a31)      # ... (endpoint failure next to an idle endpoint)
    nflows = rng.choice([1, 1, 2, 3, 4])
    big = rng.random() < (0.15 if quick else 0.3)
    if profile == "wrap":
        c["maxc"] = rng.choice([1, 2, 3, 4, 6, 40])
        nflows = rng.randint(2, 9)
        c["iters"] = 90
    if profile == "latency":
        c["lbs"] = rng.choice([1, 5, 6, 100, 2048, 4096, 32768])
        c["latency"] = rng.random() < 0.85
        big = rng.random() < 0.5
        c["iters"] = 120
    if profile in ("bulk", "close") and rng.random() < 0.3:
        c["latency"] = False
    if profile == "noise":
        # stream transfers mixed with datagram-style messages that are never paused
        c["lbs"] = rng.choice([2048, 4096, 32768])
        c["latency"] = True
        c["iters"] = 150
        c["noise"] = {"p": rng.choice([0.2, 0.5]), "chan": 60000, "sizes": rng.choice([[3000], [4000, 4000, 50], [100, 3000, 9000]])}
        nflows = rng.choice([1, 2])
        big = True
    if profile == "many":
        # a burst of many short connections: the peer finds dozens of messages in a single read
        nflows = rng.randint(34, 48)
        c["lbs"] = rng.choice([100, 2048, 32768])
        c["iters"] = 30
        c["burst"] = True
        big = False
    if profile == "tunnel":
        # the tunnel itself ends while flows are open (see World.end_tunnel)
        nflows = rng.choice([1, 2, 3, 4])
        c["tunnel_end"] = {"kind": rng.choice(["eof", "eof", "error", "error", "exit"]), "side": rng.choice("cs"),
                           "at": rng.randint(2, 40),
                           "errno": rng.choice([errno.EIO, errno.ECONNRESET, errno.EBADF, errno.ENOMEM, errno.EPIPE])}
    if profile == "reuse":
        # an application that goes away mid-download (its socket stops accepting data and reports
        # end-of-stream) while the destination still has a lot queued towards it, followed at once by
        # new connections: frames of the old flow are still on the way when identifiers are handed out again
        nflows = rng.randint(2, 5)
        c["iters"] = 90
        if rng.random() < 0.3:
            c["maxc"] = rng.choice([1, 2, 3, 65535])
    if profile == "fault" and rng.random() < 0.15:
        c["platform"] = "win32"
    if profile == "slow":
        # a receiver (the local application, or the real destination) that reads more slowly than the tunnel delivers:
        # its socket would-blocks / takes part of a chunk, a backlog of well over 64 KiB builds up in the wrapper that
        # feeds it, it reads a bit, more frames arrive, ... (C01: all segmentations on the application / destination socket)
        nflows = rng.choice([1, 1, 2])
        c["iters"] = rng.choice([0, 6, 30])
        c["latency"] = rng.random() < 0.8
        c["lbs"] = rng.choice([32768, 32768, 8192, 65536])
        big = False
    if profile == "window":
        # a large --latency-buffer-size (fat link) with reads of exactly 65535 / 65536 bytes — the most one recv() of
        # uread returns, one more than the length field of a message can say — from the application or the
        # destination (C01: payload sizes straddling the frame cut and the latency window)
        nflows = rng.choice([1, 1, 2])
        c["lbs"] = rng.choice(WINDOWS)
        c["latency"] = rng.random() < 0.8
        c["iters"] = rng.choice([0, 20, 60])
        big = False
    if profile == "trickle":
        # stream payload in SMALL segments from several flows at once, on a link that stops draining for a while: many
        # small messages are queued behind one another between two flushes (C09: the budget counts ALL queued payload)
        nflows = rng.choice([2, 3, 4])
        c["lbs"] = rng.choice([1000, 2048, 4096, 8192])
        c["latency"] = True
        c["iters"] = rng.choice([0, 20, 60])
        c["link_stall"] = {"side": rng.choice("ccs"), "after": rng.randint(0, 6), "refuse": rng.randint(20, 90)}
        big = False
    for i in range(nflows):
        def size():
            if big:
                return rng.choice(SIZES)
            return rng.choice([0, 0, 1, 2, 3, 50, 300, 2047, 2048, 2049, 4096, 5000])
        app = {"tag": 2 * i + 1, "data": size(), "close": rng.random() < 0.8}
        dst = {"tag": 2 * i + 2, "data": size(), "close": rng.random() < 0.8,
               "connect": rng.choice([["d"], ["p", "d"], ["p", "p", "p", "d"], ["p", "k"]])}
        if profile == "many" and i == 0 and rng.random() < 0.7:
            # one bulk upload among them: the uploading end will be paused by latency control
            app = {"tag": 1, "data": min(40000, c["lbs"] + rng.choice([2049, 8000])), "close": True, "p_recv": 1.0,
                   "chunks": [65536]}
            dst = {"tag": 2, "data": 0, "close": rng.random() < 0.5, "connect": ["d"]}
        elif profile == "many":
            app["data"] = rng.choice([0, 1, 3, 50])
            dst["data"] = rng.choice([0, 1, 3, 50, 300])
            dst["connect"] = ["d"]
        if profile == "slow" and i == 0:
            total = rng.choice([100000, 120000, 131072])
            slow = {"space": rng.choice([0, 0, 1000, 4096]),
                    "reads": [[rng.randint(60, 130), rng.choice([1, 1000, 3000, 20000, 48000, 65536, 66000, 70000])],
                              [rng.randint(4, 40), rng.choice([500, 2048, 5000, 70000])],
                              [rng.randint(1, 20), rng.choice([1, 4096, 100000])]]}
            fast = {"tag": 2, "data": total, "close": True, "p_recv": 1.0, "chunks": [2048, 4096, 65536]}
            lazy = {"tag": 1, "data": rng.choice([0, 50]), "close": True, "p_recv": 1.0, "slow": slow}
            if rng.random() < 0.6:
                app, dst = lazy, dict(fast, connect=["d"])            # download to a slow application
            else:
                app, dst = fast, dict(lazy, connect=rng.choice([["d"], ["p", "d"]]))   # upload to a slow destination
        if profile == "window" and i == 0:
            total = rng.choice([65535, 65536, 65537, 100000, 131071, 131072])     # (pattern() is 2^17 bytes long)
            fast = {"tag": 1, "data": total, "close": True, "p_recv": 1.0,
                    "chunks": rng.choice([[65536], [65536], [65535], [65535, 65536], [65536, 2048, 65535]])}
            other = {"tag": 2, "data": rng.choice([0, 50, 70000]), "close": True, "p_recv": 1.0}
            if rng.random() < 0.5:
                app, dst = fast, dict(other, connect=rng.choice([["d"], ["p", "d"]]))       # upload
            else:
                app, dst = dict(other, tag=1), dict(fast, tag=2, connect=["d"])             # download
        if profile == "trickle":
            seg = rng.choice([50, 100, 300, 700])
            amount = min(30000, c["lbs"] * rng.choice([2, 3]) + rng.choice([0, 77]))
            up = c["link_stall"]["side"] == "c"
            app = {"tag": 2 * i + 1, "data": amount if up else rng.choice([0, 3]), "close": rng.random() < 0.8,
                   "p_recv": 1.0, "chunks": [seg]}
            dst = {"tag": 2 * i + 2, "data": rng.choice([0, 3]) if up else amount, "close": rng.random() < 0.8,
                   "p_recv": 1.0, "chunks": [seg], "connect": ["d"]}
        if profile == "close":
            app["close"] = rng.random() < 0.9
            dst["close"] = rng.random() < 0.9
            if rng.random() < 0.3:
                app["data"] = 0
            if rng.random() < 0.3:
                dst["connect"] = ["p"] * rng.randint(2, 8) + ["d"]
        if profile == "reuse" and i == 0:
            app = {"tag": 1, "data": rng.choice([0, 1, 50]), "close": True, "p_recv": 1.0,
                   "fault": ("send", rng.randint(0, 4), rng.choice([errno.EPIPE, errno.ECONNRESET])), "faulty": True}
            dst = {"tag": 2, "data": rng.choice([32769, 65536, 100000]), "close": rng.random() < 0.5, "connect": ["d"],
                   "p_recv": 1.0, "chunks": [2048, 4096, 65536]}
        # where the application dialled: mostly one IPv4 destination; sometimes IPv6 (second listener), other
        # ports, and foreign hosts on the very port the client listens on (the self-connection guard has to
        # ask the kernel, helpers.islocal, and must let them through); rarely the client's own listener
        r = rng.random()
        far6 = foreign_addr(rng, AF6) if v6_available() else None
        far4 = foreign_addr(rng, AF4)
        if r < 0.10:
            app["dial"] = [far6 or "2001:db8::%x" % rng.randint(1, 0xffff),
                           rng.choice([22, 443, 65535] + ([LISTEN_PORT] * 3 if far6 else [])), AF6]
        elif r < 0.22:
            app["dial"] = [far4 or "198.51.100.7", rng.choice([1, 22, 65535] + ([LISTEN_PORT] * 2 if far4 else [])), AF4]
        elif r < 0.24 and profile not in ("many", "reuse") and machine_has("127.0.0.1", AF4):
            app["dial"] = ["127.0.0.1", LISTEN_PORT, AF4]
        if profile == "fault" and rng.random() < 0.8:
            kind = rng.choice(["refused", "recv", "send", "recv", "send", "shutdown", "peername", "bsd", "bsd"]
                              + (["bsd"] * 6 if c.get("platform") == "win32" else []))
            who = rng.choice([app, dst])
            if kind == "refused":
                dst["connect"] = rng.choice([["n"], ["p", "n"], ["p", "p", "n"]])
                dst["connect_errno"] = rng.choice(NET)
                dst["faulty"] = True
            elif kind == "bsd":
                # the outcome of a pending connect is reported as EINVAL + SO_ERROR (BSD); on Windows the first
                # call answers WSAEWOULDBLOCK, later ones EINVAL with SO_ERROR 0 while the attempt is still pending
                if c.get("platform") == "win32":
                    dst["connect"] = rng.choice([["p", "p", "d"], ["p", "p", "p", "k"], ["p", "p", "p", "p", "d"], ["p", "p", "n"]])
                else:
                    dst["connect"] = rng.choice([["p", "d"], ["p", "p", "d"], ["p", "n"], ["p", "p", "p", "n"], ["p", "k"]])
                dst["einval"] = True
                if dst["connect"][-1] == "n":
                    dst["connect_errno"] = rng.choice(NET)
                    dst["faulty"] = True
            elif kind == "peername":
                # the application reset its connection right after it was accepted: no peer name any more,
                # and the first read fails
                app["peername_errno"] = rng.choice([errno.ENOTCONN, errno.EINVAL, errno.ENOTSOCK])
                app["fault"] = ("recv", 0, errno.ECONNRESET)
                app["faulty"] = True
            elif kind == "shutdown":
                who["shutdown_fails"] = True
                who["shutdown_errno"] = r2.choice(SHUT_ERRS)
                who["faulty"] = True
            else:
                e = rng.choice(NET + [errno.EPIPE]) if kind == "send" else rng.choice(NET)
                if r2.random() < 0.6:
                    e = r2.choice([x for x in EST if kind == "send" or x != errno.EPIPE])
                who["fault"] = (kind, rng.randint(0, 6), e)
                who["faulty"] = True
        if profile in ("fault", "close", "wrap") and r3.random() < (0.25 if profile == "fault" else 0.08):
            # an endpoint fails while the other endpoint does nothing by itself (see endpoint_failure_shapes): the
            # tear-down has to come from the tunnel ends alone; among other flows, under the random schedule
            sa, sd_ = r3.choice(endpoint_failure_shapes())
            keep = {k: app[k] for k in ("tag", "dial") if k in app}
            app = dict(sa, **keep)
            dst = dict(sd_, tag=dst["tag"])
            if dst["connect"][-1] == "n":
                dst["connect"] = ["p"] * r3.randint(1, 4) + ["n"]
                dst["connect_errno"] = r3.choice(NET)
                if dst.get("einval") and c.get("platform") == "win32":
                    del dst["einval"]
            else:
                dst["fault"] = ("send", 0, r3.choice([errno.EPIPE, errno.ECONNRESET, errno.ETIMEDOUT, errno.EHOSTUNREACH]))
                app["data"] = r3.choice([1, 5, 300, 5000])
        c["flows"].append((app, dst))
    r4 = random.Random(c["seed"] ^ 0x51c9)
    if profile == "reuse" and (r4.random() < 0.45 or upload_side):
        # the upload-side mirror (round l, C06-l): an upload larger than the latency budget whose PING is held back by
        # a link that stops draining, so the client is paused with upload bytes still in the application's wrapper;
        # meanwhile the destination resets the connection (STOP_SENDING + EOF come back), the flow finishes, and with
        # a tiny MAX_CHANNEL its identifier is handed to the next connection BEFORE the PING reply arrives
        c["lbs"] = r4.choice([2048, 4096, 8192])
        c["latency"] = True
        c["maxc"] = r4.choice([1, 1, 1, 2, 3])
        c["iters"] = 200
        fidx = r4.randint(0, 1)       # the destination's send() call that fails; the link carries CONNECT + that many
        c["link_stall"] = {"side": "c", "after": fidx + 2 + r4.randint(0, 1), "refuse": r4.randint(60, 140)}
        keep = {k: c["flows"][0][0][k] for k in ("dial",) if k in c["flows"][0][0]}
        app0 = dict({"tag": 1, "data": c["lbs"] * 2 + r4.choice([2049, 6000, 20000]), "close": r4.random() < 0.7,
                     "p_recv": 1.0, "chunks": [r4.choice([2048, 4096, 65536])]}, **keep)
        dst0 = {"tag": 2, "data": r4.choice([0, 0, 3]), "close": False, "connect": ["d"],
                "fault": ("send", fidx, r4.choice([errno.ECONNRESET, errno.ECONNRESET, errno.ETIMEDOUT, errno.EHOSTUNREACH, errno.EPIPE])),
                "faulty": True}
        c["flows"][0] = (app0, dst0)
        while len(c["flows"]) < c["maxc"] + 8:
            i = len(c["flows"])
            c["flows"].append(({"tag": 2 * i + 1, "data": r4.choice([1, 50, 300, 5000]), "close": True},
                               {"tag": 2 * i + 2, "data": r4.choice([0, 3, 300]), "close": r4.random() < 0.8,
                                "connect": ["d"]}))
    if profile == "fault" and c.get("platform") is None:
        r = rng.random()
        if r < 0.06 and c["flows"]:
            # an errno try_connect has never heard of: by design the process gives up (the model says so too)
            c["flows"][-1][1]["connect"] = rng.choice([["x"], ["p", "x"]])
            c["flows"][-1][1]["connect_x_errno"] = r2.choice(X_ERRS)
    if profile in ("fault", "close", "bulk", "latency", "wrap") and rng.random() < 0.5:
        # the last connection(s) arrive only when everything before them has finished and both ends are asleep
        # in select(): whatever these flows need (their tear-down too) must happen without any other traffic
        # waking the loops
        c["late"] = rng.randint(1, min(2, len(c["flows"])))
    return c


def run_case(ctx, case):
    import random
    rng = random.Random(case["seed"])
    w = World(rng, case["maxc"], case["lbs"], case["latency"], case.get("platform", "linux"))
    w.case = case
    w.noise = case.get("noise")
    if w.noise:
        w.add_noise_handlers()
    ls = case.get("link_stall")
    if ls:
        # the link out of one end stops draining for a while after a few writes
        (w.cs if ls["side"] == "c" else w.sc).stall = {"after": ls["after"], "refuse": ls["refuse"]}
    try:
        pending = [(dict(a), dict(d)) for a, d in case["flows"]]
        late = []
        if case.get("late") and not case.get("burst") and not case.get("tunnel_end"):
            pending, late = pending[:-case["late"]], pending[-case["late"]:]
        w.snapshot()
        if case.get("burst"):
            while pending:
                a, d = pending.pop(0)
                w.new_flow(a, d)
                w.iterate("c")
            # ... and the client runs alone for a while: everything it has to say (CONNECT, DATA, EOF of
            # every flow) is on the link before the server reads for the first time, and nothing follows
            for side in ("c", "s"):
                for it in range(case.get("solo", 600)):
                    w.iterate(side)
                    if it > 12 and not w.mux[side].outbuf:
                        break
        te = case.get("tunnel_end")
        for it in range(case["iters"]):
            if w.crash:
                break
            if te and it >= te["at"] and w.prox["c"]:
                break
            if pending and rng.random() < 0.3:
                a, d = pending.pop(0)
                w.new_flow(a, d)
                w.iterate("c")
            else:
                side = rng.choice("cs")
                if w.iterate(side) is False and w.iterate("s" if side == "c" else "c") is False and not pending:
                    break               # both ends sleep and nothing is left to wake them
        if te and not w.crash:
            w.end_tunnel(te)
            w.calm = 0
            return w
        # drain: nothing new arrives; alternate until quiescent for a while
        w.eager = True

        def drain():
            calm = 0
            for it in range(case.get('drain', 400)):
                if it == 40:
                    w.eager_quiet = True        # the datagram-style traffic ends; the streams must still finish
                if w.crash:
                    break
                while pending:
                    a, d = pending.pop(0)
                    w.new_flow(a, d)
                    w.iterate("c")
                before = (w.state_str(), [s.produced for s in w.socks], len(w.cs.buf), len(w.sc.buf), w.slow_ticks,
                          [s.connect_calls for s in w.socks if s.inprogress])   # a pending connect is progress, not calm
                w.iterate("c")
                w.iterate("s")
                after = (w.state_str(), [s.produced for s in w.socks], len(w.cs.buf), len(w.sc.buf), w.slow_ticks,
                         [s.connect_calls for s in w.socks if s.inprogress])   # a pending connect is progress, not calm
                calm = calm + 1 if before == after else 0
                if w.blocked["c"] and w.blocked["s"] and not w.woken("c") and not w.woken("s"):
                    calm = max(calm, 3)         # both ends sleep and nothing can wake them: this IS the final state
                if calm >= 3:
                    break
            return calm
        calm = drain()
        while late and calm >= 3 and not w.crash:
            pending.append(late.pop(0))
            calm = drain()
        w.calm = calm
    finally:
        w.restore()
    return w


def first_difference(got, written):
    """where a delivered byte string stops being a prefix of the written one, and — when the wrong bytes are bytes that
    were written elsewhere in the stream — where they come from (reordering / duplication rather than corruption)"""
    n = next((i for i in range(min(len(got), len(written))) if got[i] != written[i]), min(len(got), len(written)))
    det = {"first_wrong_byte_at_offset": n, "delivered": len(got), "written": len(written)}
    # (later bytes brought forward are looked for first: the test pattern repeats itself at some distances)
    src = -1
    if len(got) >= n + 600:
        src = written.find(got[n:n + 600], n)
        if src < 0:
            src = written.find(got[n:n + 600])
    if src >= 0:
        det["the_600_bytes_delivered_there_equal_those_written_at_offset"] = src
    return det


def faulty_flow(app, dst):
    return bool(app.plan.get("faulty") or dst.plan.get("faulty"))


def endpoint_failures(app, dst):
    """what the ENVIRONMENT answered that ends a flow as a whole (harness-side record, not the code's own flags):
    a refused / reset connect, an error of recv() / send() / shutdown() on the established socket.  EPIPE on send() is
    not one: the code treats it as "the peer stopped reading" — a half-close, the other direction lives on."""
    out = []
    if dst is not None and dst.last_conn == "n":
        out.append(("the destination refused / reset the connection %s" % (
            "in a LATER event-loop round than the one that created the flow (connect() answered in-progress first)"
            if dst.connect_calls > 1 else "at the first connect() call"),
            "connect() -> %s" % errno.errorcode.get(dst.plan.get("connect_errno", errno.ECONNREFUSED), "?")))
    for who, s in (("application", app), ("destination", dst)):
        if s is not None and s.fired and not (s.fired[0] == "send" and s.fired[1] == errno.EPIPE):
            out.append(("the %s's socket failed in %s()" % (who, s.fired[0]),
                        "%s %s() -> %s" % (who, s.fired[0], errno.errorcode.get(s.fired[1], str(s.fired[1])))))
    return out


def teardown_oracles(w, stale=False):
    """C02 at quiescence (nothing on the way, no queue holds a message, three rounds without any change — both loops
    sleep in select()), implementation only:
    (A) the coupling every sleeping end has established (model: Props/C02.v c02_no_lost_wakeup — every handler the
        loop still runs has s.shut_write => m.shut_read and m.shut_write => s.shut_read; mechanism "pre_select couples
        shut_write of one side to noread of the other"): a handler whose socket is shut for writing has told the peer to
        stop sending, a handler whose tunnel side is shut for writing (own EOF out / peer's STOP_SENDING in) no longer
        reads its socket.  Otherwise the flow is half open with nothing pending — for ever if the endpoint stays idle;
    (B) "or either endpoint fails, both tunnel ends shut their sockets, drop the flow's handler and make its identifier
        reusable within bounded work": a flow one of whose endpoints failed is finished at BOTH ends — all four
        directions shut, identifier released (the handler itself may linger in the shape of finding F20, which has
        its own oracle)."""
    out = []
    ends = {"c": "client", "s": "server"}
    for f, pc in enumerate(w.prox["c"]):
        ps = w.prox["s"][f] if f < len(w.prox["s"]) else None
        if ps is not None and ps.wrap1.channel != pc.wrap2.channel:
            continue
        app = pc.wrap1.rsock
        dst = ps.wrap2.rsock if ps is not None else None
        failures = endpoint_failures(app, dst)
        idle = {"application_sent": len(app.rd), "application_closed": bool(app.eof_seen),
                "destination_sent": len(dst.rd) if dst is not None else 0,
                "destination_closed": bool(dst.eof_seen) if dst is not None else False}
        for side, p in (("c", pc), ("s", ps)):
            if p is None:
                continue
            sw = p.wrap1 if side == "c" else p.wrap2
            mw = p.wrap2 if side == "c" else p.wrap1
            cb = w.mux[side].channels.get(mw.channel)
            registered = cb is not None and getattr(cb, "__self__", None) is mw
            in_loop = p in w.handlers[side]
            flags = {"socket_shut_read": bool(sw.shut_read), "socket_shut_write": bool(sw.shut_write),
                     "tunnel_shut_read": bool(mw.shut_read), "tunnel_shut_write": bool(mw.shut_write)}
            det = dict({"flow": f, "side": side, "identifier": mw.channel, "identifier_still_registered": registered,
                        "handler_still_in_the_loop": in_loop, "what_the_environment_answered": [x[1] for x in failures],
                        "connect_calls_at_the_destination": dst.connect_calls if dst is not None else 0}, **dict(flags, **idle))
            silent = ("the application is silent (has sent nothing, does not close)" if side == "s" and not app.rd and not app.eof_seen
                      else "the local application is idle now and does not close" if side == "c" and not app.eof_seen
                      else "nothing is pending")
            hit_a = False
            if in_loop and p.ok:
                if sw.shut_write and not mw.shut_read:
                    hit_a = True
                    out.append(("quiescent, yet the %s end holds a half-open flow with nothing pending: its socket is shut for "
                                "writing%s, %s, but it never sent STOP_SENDING — its tunnel side is still open for reading, the "
                                "handler and the identifier stay until the other endpoint happens to close"
                                % (ends[side], " (" + failures[0][0] + ")" if failures else "", silent), det))
                if mw.shut_write and not sw.shut_read:
                    hit_a = True
                    out.append(("quiescent, yet the %s end keeps a half-open flow for ever with nothing pending: its tunnel "
                                "side is shut for writing (own end-of-stream sent / the far end's STOP_SENDING received, after "
                                "its EOF), %s, but it still reads its socket and keeps socket and handler — what the "
                                "endpoint writes later goes to an identifier the peer has released"
                                % (ends[side], silent), det))
            if failures and not stale and not hit_a:
                torn = all(flags.values())
                if not torn or registered:
                    out.append(("an endpoint of a flow failed, yet at quiescence — nothing pending anywhere — the %s end of the "
                                "tunnel has not finished with the flow (sockets shut, identifier released): it is never torn down "
                                "unless the surviving endpoint closes by itself" % ends[side], det))
    return out


def check_oracles(w):
    """property oracles evaluated on the implementation's behaviour only.
    returns {prop: [(what, detail)]}"""
    out = {"C01": [], "C02": [], "C06": [], "C08": [], "C09": []}
    stale = getattr(w, "model_stale", False)
    stuck_dirs = []
    te = w.case.get("tunnel_end") if w.model_cut is not None else None
    # every captured connection gets a flow, unless no identifier is free or it is aimed at the client's own listener
    for name in w.unserved:
        out["C01"].append(("a captured connection to a foreign destination was neither tunnelled nor shed for want of "
                           "an identifier: it was dropped at accept", {"socket": name, "listen_port": LISTEN_PORT}))
        for pp in ("C02", "C06", "C08"):
            out[pp].append(("a captured connection was refused for want of an identifier although an identifier was free "
                            "(identifiers of finished flows are not handed out again)", {"socket": name, "max_channel": w.maxc}))
    if w.bad_accepts:
        out["C01"].append(("accept() was called on a listening socket on which no connection was waiting while the "
                           "captured connection on the other listener was left unserved", {"times": w.bad_accepts}))
    for f, app, dst in w.flows():
        if dst is None:
            continue
        dial = app.plan.get("dial", DEFAULT_DIAL)
        if not stale and dst.connected_to is not None and (
                tuple(dst.connected_to[:2]) != (dial[0], dial[1]) or (dst.family == AF4) != (dial[2] == AF4)):
            out["C01"].append(("the server connected this flow to another destination than the one the application dialled",
                               {"flow": f, "dialled": dial, "connected_to": list(dst.connected_to), "family": int(dst.family)}))
        if not stale:
            if not app.rd.startswith(dst.wr):
                out["C01"].append(("bytes handed to the destination are not a prefix of what the application wrote",
                                   dict({"flow": f, "dst_got": digest(dst.wr), "app_wrote": digest(app.rd)},
                                        **first_difference(dst.wr, app.rd))))
            if not dst.rd.startswith(app.wr):
                out["C01"].append(("bytes handed back to the application are not a prefix of what the destination wrote",
                                   dict({"flow": f, "app_got": digest(app.wr), "dst_wrote": digest(dst.rd)},
                                        **first_difference(app.wr, dst.rd))))
        if stale or faulty_flow(app, dst) or w.crash or te:
            continue
        if dst.shutdown_called and not (dst.wr == app.rd and app.eof_seen):
            out["C02"].append(("destination saw end-of-stream before all data / before the application closed",
                               {"flow": f, "dst_got": len(dst.wr), "app_wrote": len(app.rd), "app_closed": app.eof_seen}))
        if (getattr(w, "calm", 0) >= 3 and app.eof_seen and dst.wr == app.rd and dst.last_conn in ("d", "k")
                and not dst.shutdown_called and not dst.closed):
            out["C02"].append(("quiescent: the application closed its sending side and everything it wrote was delivered, "
                               "the destination is connected, yet it never saw the end-of-stream",
                               {"flow": f, "delivered": len(dst.wr), "connect_calls": dst.connect_calls}))
        a_plan, d_plan = app.plan, dst.plan
        # F22: a data-less half-close that reaches the server while the destination connect is pending
        f22 = app.eof_seen and a_plan["data"] == 0 and "p" in d_plan.get("connect", [])
        if app.shutdown_called and not (app.wr == dst.rd and dst.eof_seen):
            out["C02"].append(("application saw end-of-stream before all data / before the destination closed",
                               {"flow": f, "app_got": len(app.wr), "dst_wrote": len(dst.rd), "dst_closed": dst.eof_seen,
                                "finding_id": "F22" if f22 else None}))
        if getattr(w, "calm", 0) >= 3:
            if app.produced < a_plan["data"] or dst.wr != app.rd:
                out["C01"].append(("quiescent with undelivered application data (no endpoint aborted)",
                                   {"flow": f, "produced": app.produced, "planned": a_plan["data"], "delivered": len(dst.wr)}))
                stuck_dirs.append(f)
            if (dst.produced < d_plan["data"] or app.wr != dst.rd) and not f22:
                stuck_dirs.append(f)
            if dst.produced < d_plan["data"] or app.wr != dst.rd:
                out["C02"].append(("quiescent although the reverse direction still has data to carry (half-close)",
                                   {"flow": f, "dst_produced": dst.produced, "planned": d_plan["data"],
                                    "delivered": len(app.wr), "app_closed_first": app.eof_seen,
                                    "finding_id": "F22" if f22 else None}))
    # F20: at quiescence a finished flow (all four flags set, buffers empty) still has its handler
    if getattr(w, "calm", 0) >= 3 and not w.crash:
        for side in ("c", "s"):
            hs = w.handlers[side]
            for f, p in enumerate(w.prox[side]):
                if p not in hs:
                    continue
                sw = p.wrap1 if side == "c" else p.wrap2
                mw = p.wrap2 if side == "c" else p.wrap1
                if (sw.shut_read and sw.shut_write and mw.shut_read and mw.shut_write and not sw.buf and not mw.buf):
                    out["C02"].append(("quiescent, yet a finished flow still has its handler (and its socket): "
                                       "the last flag was set by pre_select, no callback follows",
                                       {"side": side, "flow": f, "ok": bool(p.ok), "finding_id": "F20"}))
    # F160 (lost wake-up): an end sleeps in select() — no timeout, nothing it waits for can become ready by itself —
    # while a message sits in its outgoing queue: the message leaves only if the other end happens to send something
    for sq in getattr(w, "slept_queued", [])[:1]:
        late = all(c == "STOP" for c in sq["queued"])
        out["C02"].append(("an end went to sleep in select() (no timeout; none of the descriptors it waits for can become "
                           "ready by itself) while a message sat in its outgoing queue: the peer is never told, it keeps the "
                           "flow's handler, socket and identifier until unrelated traffic wakes the sleeper",
                           dict(sq, still_asleep_at_the_end=bool(w.blocked[sq["side"]] and w.mux[sq["side"]].outbuf),
                                finding_id="F160" if late else None)))
    # "without echo" (Props/C02.v c02_no_echo: mux_got_packet of a CEof / CStop frame leaves the outgoing queue as it
    # was): a received TCP_EOF / TCP_STOP_SENDING only sets the flag — an end says TCP_EOF / STOP_SENDING for a reason
    # of its own (its socket reached end of stream / can no longer be written), from its callback, never in answer
    cname = {0x4204: "STOP_SENDING", 0x4205: "TCP_EOF"}
    for ec in getattr(w, "echoes", [])[:1]:
        q = [cname.get(c, "message 0x%04x" % c) for c in ec["queued_while_handling_it"]]
        out["C02"].append(("the %s end queued %s for a flow in reaction to receiving %s for it (inside Mux.got_packet), "
                           "not because its own socket had reached end of stream or failed — the peer that sent the message "
                           "knows already; a half-close of one direction is echoed onto the other direction"
                           % ({"c": "client", "s": "server"}[ec["side"]], " + ".join(q),
                              cname.get(ec["received"], hex(ec["received"]))),
                           dict(ec, echoes_in_this_run=len(w.echoes))))
    # latency control on: an end never queues stream payload far beyond its budget without having asked for an
    # acknowledgement (budget + 2048 bytes per callback, at most 4 callbacks per connection and iteration)
    for ob in getattr(w, "over_budget", [])[:1]:
        out["C09"].append(("stream payload queued although the end was over its budget at the start of the loop iteration and "
                           "no round-trip request had been sent", ob))
    # an end that is still paused when nothing moves any more has no acknowledgement to wait for
    if getattr(w, "calm", 0) >= 3 and not w.crash and w.latency:
        for side in ("c", "s"):
            m = w.mux[side]
            if m.too_full:
                out["C09"].append(("quiescent while an end is still paused: every queue and link is drained, so no "
                                   "acknowledgement is outstanding and transfers can never resume",
                                   {"side": side, "fullness": m.fullness, "budget": w.lbs}))
    # at quiescence the two ends of a flow agree on which directions are closed (model: Stream_quiet.quiet_flags_agree):
    # what one end has stopped writing the other has stopped reading, and vice versa — also after an endpoint failed
    if getattr(w, "calm", 0) >= 3 and not w.crash and not stale and w.model_cut is None:
        for f, (pc, ps) in enumerate(zip(w.prox["c"], w.prox["s"])):
            mc, ms = pc.wrap2, ps.wrap1
            if mc.channel != ms.channel:
                continue
            reg = {}
            for sd, mw in (("c", mc), ("s", ms)):
                cb = w.mux[sd].channels.get(mw.channel)
                reg[sd] = cb is not None and getattr(cb, "__self__", None) is mw
            if reg["c"] != reg["s"]:
                # (model: both wrappers of a flow are registered, or neither, once nothing is on the way —
                # Stream_quiet / Stream_assert: the peer frees an identifier before it can see its re-use)
                f160r = any(w.blocked[sd] and w.mux[sd].outbuf and
                            all(c == 0x4204 for _, c, _ in queued_frames(w.mux[sd])) for sd in ("c", "s"))
                out["C06"].append(("quiescent, yet one end has released a flow's identifier while the other end still has the "
                                   "flow registered under it and nothing is on the way that would release it: the next "
                                   "connection given that identifier reaches a peer that takes it for the old flow",
                                   {"flow": f, "identifier": mc.channel, "registered_at_client": reg["c"],
                                    "registered_at_server": reg["s"], "finding_id": "F160" if f160r else None}))
            if bool(mc.shut_write) != bool(ms.shut_read) or bool(mc.shut_read) != bool(ms.shut_write):
                # (the consequence of F160 when an end sleeps on its queued STOP_SENDING for good)
                f160 = any(w.blocked[sd] and w.mux[sd].outbuf and
                           all(c == 0x4204 for _, c, _ in queued_frames(w.mux[sd])) for sd in ("c", "s"))
                out["C02"].append(("quiescent, yet the two tunnel ends of a flow disagree on which directions are closed: one end "
                                   "has finished with the flow, the other keeps its handler, socket and identifier for good",
                                   {"flow": f, "client": [bool(mc.shut_read), bool(mc.shut_write)],
                                    "server": [bool(ms.shut_read), bool(ms.shut_write)],
                                    "finding_id": "F160" if f160 else None}))
                break
    # a finished wrapper (both directions shut) must have released its identifier
    if getattr(w, "calm", 0) >= 3 and not w.crash:
        for side in ("c", "s"):
            m = w.mux[side]
            for f, p in enumerate(w.prox[side]):
                mw = p.wrap2 if side == "c" else p.wrap1
                cb = m.channels.get(mw.channel)
                if mw.shut_read and mw.shut_write and cb is not None and getattr(cb, "__self__", None) is mw:
                    det = {"side": side, "flow": f, "identifier": mw.channel, "buffered": sum(len(b) for b in mw.buf)}
                    out["C02"].append(("quiescent, both directions of a flow are shut, yet its identifier is still registered "
                                       "(never reusable)", det))
                    out["C06"].append(("the channel table still holds the identifier of a wrapper whose both directions are shut", det))
    if getattr(w, "calm", 0) >= 3 and not w.crash and w.model_cut is None:
        for what, det in teardown_oracles(w, stale):
            out["C02"].append((what, det))
    # at quiescence no complete message may sit undispatched in a Mux input buffer
    if getattr(w, "calm", 0) >= 3 and not w.crash:
        for side in ("c", "s"):
            stuck = decode_frames(bytes(w.mux[side].inbuf))
            kinds = sorted(set(cmd for _, cmd, _ in stuck))
            det = {"side": side, "undispatched_messages": len(stuck), "commands": ["%04x" % k for k in kinds]}
            if any(k in (0x4201, 0x4202) for k in kinds):
                out["C09"].append(("quiescent although a round-trip request or its answer has been read from the tunnel "
                                   "and was never dispatched", det))
            if any(k in (0x4203, 0x4206) for k in kinds):
                out["C01"].append(("quiescent although a connection request or payload has been read from the tunnel "
                                   "and was never dispatched", det))
            if any(k in (0x4204, 0x4205) for k in kinds):
                out["C02"].append(("quiescent although an end-of-stream / stop message has been read from the tunnel "
                                   "and was never dispatched", det))
    # at quiescence every byte that was taken off the tunnel descriptor has reached the multiplexer: the main loop
    # wakes the multiplexer only when select() reports the DESCRIPTOR readable, so bytes parked in a read-ahead
    # buffer between the two are looked at only if the peer happens to send something else
    if getattr(w, "calm", 0) >= 3 and not w.crash and w.model_cut is None:
        for side in ("c", "s"):
            pipe = w.sc if side == "c" else w.cs
            got = w.mux_got[side]
            if pipe.taken > got:
                kinds, pos = set(), 0
                for ch, cmd, d in decode_frames(pipe.hist[:pipe.taken]):
                    pos += 8 + len(d)
                    if pos > got:
                        kinds.add(cmd)
                if pos < pipe.taken:
                    kinds.add(None)             # an incomplete frame at the end
                det = {"side": side, "latency_buffer_size": w.lbs, "bytes_taken_off_the_descriptor": pipe.taken,
                       "bytes_handed_to_the_multiplexer": got,
                       "messages_held_back": sorted(CMDN.get(k, "OTHER") if k else "(part of a message)" for k in kinds),
                       "peer_is_paused_waiting": bool(w.mux["s" if side == "c" else "c"].too_full)}
                what = ("quiescent, yet bytes of the tunnel stream that the end's reader has taken off its descriptor never "
                        "reached the multiplexer: they are held in a read-ahead buffer select() cannot see, and nothing "
                        "more will arrive to flush them out")
                if kinds & {0x4201, 0x4202} or det["peer_is_paused_waiting"]:
                    out["C09"].append((what + " (a round-trip request or its answer is among them / the peer waits for one)", det))
                if kinds & {0x4203, 0x4206, None}:
                    out["C01"].append((what + " (connection requests or payload among them)", det))
                if kinds & {0x4204, 0x4205}:
                    out["C02"].append((what + " (an end-of-stream / stop message among them)", det))
    # An event loop died (an exception left runonce) and the model — whose only crashes are the ones the code provides
    # for: an errno try_connect has never heard of, a protocol violation by the peer — does not end this run the same way.
    # The process is gone: nothing it held is delivered any more, no flow it carried is finished or torn down.
    by_design = any(d.get("connect", [""])[-1] == "x" for _, d in w.case["flows"]) or getattr(w, "model_crashed", False)
    if w.crash and not by_design:
        info = dict(getattr(w, "crash_info", {}) or {"exception": w.crash})
        fired = [{"socket": s.name, "call": s.fired[0], "errno": errno.errorcode.get(s.fired[1], str(s.fired[1])),
                  "python_class": type(sock_err(s.fired[1])).__name__} for s in w.socks if getattr(s, "fired", None)]
        info["latency_buffer_size"] = w.lbs
        info["injected_endpoint_failures_so_far"] = fired
        # C01: "if neither endpoint aborts, every byte written before the writer closed is eventually delivered"
        for f, app, dst in w.flows():
            if dst is not None and faulty_flow(app, dst):
                continue
            if dst is None and app.plan.get("faulty"):
                continue
            up = (len(app.rd), len(dst.wr) if dst is not None else 0)
            down = (len(dst.rd) if dst is not None else 0, len(app.wr))
            if up[0] > up[1] or down[0] > down[1]:
                out["C01"].append(("an event loop died (%s) although neither endpoint of this flow had aborted: bytes its writer "
                                   "had written, and the tunnel end had taken from it, are lost with the process — they are "
                                   "never delivered" % w.crash,
                                   dict(info, flow=f, taken_from_the_application=up[0], delivered_to_the_destination=up[1],
                                        taken_from_the_destination=down[0], delivered_to_the_application=down[1],
                                        last_read_of_the_application_socket=len(app.last_rd),
                                        last_read_of_the_destination_socket=len(dst.last_rd) if dst is not None else 0)))
                break
        # C02: "once both directions are finished, or either endpoint fails, both tunnel ends shut their sockets, drop the
        # flow's handler and make its identifier reusable" — the failing endpoint's flow is torn down, nothing else happens
        if w.prox["c"]:
            open_flows = [f for f, p in enumerate(w.prox["c"]) if f not in w.removed["c"]]
            escaped = [s_ for s_ in w.socks if getattr(s_, "fired", None)
                       and ("injected errno %d" % s_.fired[1]) in info.get("exception", "")]
            if escaped:
                info["the_error_that_left_the_loop_was_answered_by"] = escaped[0].name
                out["C02"].append(("an endpoint of a flow failed (socket error on an established connection) and, instead of "
                                   "that flow being torn down at both tunnel ends (sockets shut, handler dropped, identifier "
                                   "released), the error left the event loop: the whole tunnel end died (%s) together with "
                                   "every flow it carried" % w.crash, dict(info, flows_open_at_that_end=open_flows)))
            else:
                out["C02"].append(("an event loop died (%s) while flows were open: they are never finished (end-of-stream "
                                   "after the data) nor torn down (sockets shut, handler dropped, identifier released) — "
                                   "the tunnel end is gone" % w.crash, dict(info, flows_open_at_that_end=open_flows)))
    if w.crash and not any(d.get("connect", [""])[-1] == "x" for _, d in w.case["flows"]):
        out["C08"].append(("an event loop died: %s" % w.crash, {"exception": w.crash}))
        if "AssertionError" in str(w.crash) and not getattr(w, "model_stale", False):
            out["C06"].append(("an identifier was handed out again while the peer still had a flow registered for it "
                               "(the CONNECT assertion of the receiving multiplexer fired)", {"exception": w.crash}))
    if te:
        # the tunnel ended under open flows: the end that noticed leaves its loop the way the code provides for
        # (Mux.ok false after end-of-stream, Fatal after a read error), never through another exception, and the
        # other end keeps running; the per-flow prefix oracles above have been evaluated on everything delivered since
        side = te["side"]
        other = "s" if side == "c" else "c"
        inpipe = w.sc if side == "c" else w.cs
        det = {"tunnel_end": te, "open_flows": len(w.prox["c"]), "loop_of_that_end": w.post_crash[side],
               "loop_of_the_other_end": w.post_crash[other]}
        how = w.post_crash[side]
        # the client's loop is `while 1`: once its multiplexer has stopped (end of stream, EXIT) the only ways out are
        # the Fatal of its ssh check and — since runonce asks the stopped multiplexer for its wait set again (F160
        # repair) — the Fatal "socket was not used by any handler" on the still-readable tunnel; both end the session
        # in an orderly way (the helper's channel is closed in the finally block).  Any OTHER exception is a violation.
        orderly = side == "c" and how == "Fatal"
        if te["kind"] == "eof":
            if how and not orderly:
                out["C08"].append(("the peer closed the tunnel while flows were open: the main loop ended through %s "
                                   "instead of noticing the end of the stream" % how, det))
            elif inpipe.eof_reads and w.mux[side].ok:
                out["C08"].append(("the peer closed the tunnel and the end of the stream was read, yet the multiplexer "
                                   "still counts as alive: the main loop never ends", det))
        elif te["kind"] == "error":
            if how is None and inpipe.fail_reads:
                out["C08"].append(("reading the tunnel failed with errno %d and the main loop carried on" % te["errno"], det))
            elif how not in (None, "Fatal"):
                out["C08"].append(("reading the tunnel failed with errno %d: the main loop ended through %s instead of "
                                   "Fatal" % (te["errno"], how), det))
        elif how and not orderly:
            out["C08"].append(("the peer's EXIT message made the main loop end through %s" % how, det))
        if w.post_crash[other]:
            out["C08"].append(("the tunnel ended at one end and the main loop of the OTHER end died: %s"
                               % w.post_crash[other], det))
    # C08 "every other flow's bytes and ordering are unaffected": the C01 oracles on the flows that had no fault of
    # their own, in cases where a neighbour (or the tunnel) failed
    flist = w.flows()
    if te or any(d is not None and faulty_flow(a, d) for _, a, d in flist):
        healthy = set(f for f, a, d in flist if d is not None and not faulty_flow(a, d))
        for what, det in out["C01"]:
            if det.get("flow") in healthy:
                out["C08"].append(("a flow with no fault of its own, next to a failing one: " + what, det))
    # C06 "flows are kept apart": bytes delivered on one flow that are bytes another flow's endpoint wrote (the C01
    # prefix oracles above say where the delivered stream stops being this flow's own; here the wrong bytes are looked
    # up in what the endpoints of the OTHER flows wrote — e.g. a finished flow's data sent under an identifier that
    # has meanwhile been handed to a new connection)
    if not stale:
        for f, app, dst in flist:
            if dst is None:
                continue
            for got, own, way, pick in ((dst.wr, app.rd, "destination", lambda a, d: a.rd),
                                        (app.wr, dst.rd, "application", lambda a, d: d.rd)):
                if own.startswith(got):
                    continue
                n = first_difference(got, own)["first_wrong_byte_at_offset"]
                piece = bytes(got[n:n + 48])
                if len(piece) < 16:
                    continue
                for g, a2, d2 in flist:
                    if g == f or d2 is None:
                        continue
                    at = bytes(pick(a2, d2)).find(piece)
                    if at >= 0:
                        out["C06"].append(("bytes written on one flow were delivered on another flow (to its %s)" % way,
                                           {"delivered_on_flow": f, "written_on_flow": g, "at_delivered_offset": n,
                                            "at_written_offset": at, "bytes": len(piece),
                                            "identifiers": [int(getattr(w.prox["c"][x].wrap2, "channel", -1)) for x in (f, g)]}))
                        break
    for side in ("c", "s"):
        seen = {}
        m = w.mux[side]
        for c, cb in m.channels.items():
            if cb and c == 0:
                out["C06"].append(("identifier 0 allocated", {"side": side}))
        for f, p in enumerate(w.prox[side]):
            mw = p.wrap2 if side == "c" else p.wrap1
            if not (mw.shut_read and mw.shut_write):
                if mw.channel in seen:
                    out["C06"].append(("two open flows share identifier %d" % mw.channel, {"side": side, "flows": [seen[mw.channel], f]}))
                seen[mw.channel] = f
        if w.latency:
            for cmd, ln, tf in w.sent_log[side]:
                if cmd == 0x4206 and tf:
                    out["C09"].append(("stream payload queued while waiting for the acknowledgement", {"side": side, "len": ln}))
        else:
            if m.too_full:
                out["C09"].append(("pause introduced although latency control is off", {"side": side}))
        if stuck_dirs and (not w.latency or m.too_full):
            out["C09"].append(("transfers do not resume: quiescent with undelivered data while %s"
                               % ("latency control is off" if not w.latency else "waiting for an acknowledgement"),
                               {"side": side, "flows": sorted(set(stuck_dirs)), "fullness": m.fullness,
                                "too_full": bool(m.too_full)}))
    return out


# ---------------------------------------------------------------------- per-property entry point
STREAM_TB = [
    "modelled, not verified: kernel TCP sockets (connect/recv/send/shutdown outcomes are the environment's answers; send() after shutdown(SHUT_WR) fails with EPIPE), level-triggered select, CPython reference counting closing a dropped socket",
    "the ssh link is a FIFO of whole frames in the stream model; its byte-level refinement is property C07 (c07_link_fifo)",
    "harness/props/stream_common.py: fake sockets/pipes/listeners (the real client.MultiListener.add_handler and helpers.islocal are used as they are; islocal binds real kernel sockets), the micro-step logger wrapped around the real Proxy/Mux methods, and the normalisation that removes the server's initial empty ROUTES message",
    "the server's view of the `io` module inside the stream world is io_shim: descriptors 0/1 are the harness pipes, io.open(fd) with buffering builds the REAL io.BufferedReader/BufferedWriter on them (a read-ahead is then out of select()'s sight, as with a real descriptor)",
    "server_reader_check (C01, C09; implementation only): the real server.main in a child process on a socket pair; 'the server has stopped working on what it was sent' = the Linux kernel reports no unread byte of ours (TIOCOUTQ on the AF_UNIX socket is 0) and /proc/<pid>/wchan shows the child asleep in select/poll, four samples in a row — where the kernel does not tell, a 45 s limit decides",
]
STREAM_ASSUMPTIONS = [
    "connect() reports EINVAL only for a socket whose earlier attempt answered in-progress, and SO_ERROR then holds the outcome (the BSD work-around path of try_connect); Windows is simulated by sys.platform and errno.WSAEWOULDBLOCK as seen by ssnet only",
    "helpers.islocal runs on real kernel sockets (bind to port 0); which addresses are foreign to this machine (documentation ranges) and that 127.0.0.1 is local is established by the harness with its own bind probe",
    "Mux.fill is only entered when the pipe has data (read() returning None would raise TypeError in a debug2 argument)",
    "ghost flow numbers (fid) are attached by the model only; the correspondence compares everything except them",
]


# deterministic cases that are always run first (known findings are re-confirmed on every run)
EXTRA_CASES = {
    "C02": [
        # F22: data-less half-close reaching the server while the connect is pending
        {"profile": "close", "seed": 22, "maxc": 65535, "lbs": 32768, "latency": True, "iters": 80,
         "flows": [({"tag": 1, "data": 0, "close": True, "p_recv": 1.0},
                    {"tag": 2, "data": 300, "close": True, "connect": ["p"] * 60 + ["d"]})]},
        # F20: the application resets right after connecting; the server end lingers
        {"profile": "close", "seed": 20, "maxc": 65535, "lbs": 32768, "latency": True, "iters": 60,
         "flows": [({"tag": 1, "data": 0, "close": False, "fault": ("recv", 0, 104), "faulty": True},
                    {"tag": 2, "data": 0, "close": False, "connect": ["d"]})]},
        # F160: the application stops reading (EPIPE) while data is on its way, the client sends STOP_SENDING; the
        # destination socket fails in the very iteration in which the server dispatches it: the next pre_select queues
        # the server's STOP_SENDING AFTER Mux.pre_select found the queue empty, and select() has nothing to report
        {"profile": "fault", "seed": 160, "maxc": 65535, "lbs": 32768, "latency": True, "iters": 0,
         "flows": [({"tag": 1, "data": 0, "close": False, "p_recv": 1.0, "fault": ("send", 0, errno.EPIPE), "faulty": True},
                    {"tag": 2, "data": 1, "close": False, "connect": ["d"], "p_recv": 1.0,
                     "fault": ("recv", 11, errno.ECONNRESET), "faulty": True})]},
    ],
}


def quiet_tunnel_cases():
    """a connection that arrives while BOTH ends sleep in select() after an earlier, finished one, and whose
    whole life (destination refuses at once / after a while, resets, closes first, application closes first,
    nobody says anything) has to be handled without any other traffic waking the loops"""
    first = ({"tag": 1, "data": 10, "close": True, "p_recv": 1.0}, {"tag": 2, "data": 10, "close": True, "connect": ["d"], "p_recv": 1.0})
    out = []
    for n, (app, dst) in enumerate([
            ({"data": 0, "close": False}, {"data": 0, "close": False, "connect": ["n"], "connect_errno": errno.ECONNREFUSED, "faulty": True}),
            ({"data": 0, "close": False}, {"data": 0, "close": False, "connect": ["p", "n"], "connect_errno": errno.EHOSTUNREACH, "faulty": True}),
            ({"data": 5, "close": False}, {"data": 0, "close": False, "connect": ["n"], "connect_errno": errno.ENETUNREACH, "faulty": True}),
            ({"data": 0, "close": False}, {"data": 0, "close": True, "connect": ["d"]}),
            ({"data": 0, "close": False}, {"data": 7, "close": True, "connect": ["p", "d"]}),
            ({"data": 0, "close": True}, {"data": 0, "close": False, "connect": ["d"]}),
            ({"data": 3, "close": True}, {"data": 3, "close": True, "connect": ["d"]}),
            ({"data": 0, "close": False}, {"data": 0, "close": False, "connect": ["d"], "fault": ("recv", 0, errno.ECONNRESET), "faulty": True}),
            ({"data": 0, "close": False, "fault": ("recv", 0, errno.ECONNRESET), "faulty": True}, {"data": 0, "close": False, "connect": ["p", "p", "d"]}),
    ]):
        for latency in (True, False):
            a = dict(app, tag=1, p_recv=1.0)
            d = dict(dst, tag=2, p_recv=1.0)
            out.append({"profile": "fault" if a.get("faulty") or d.get("faulty") else "close", "seed": 7000 + 2 * n + latency,
                        "maxc": 65535, "lbs": 32768, "latency": latency, "iters": 60, "late": 1,
                        "flows": [(dict(first[0]), dict(first[1])), (a, d)]})
    return out


def endpoint_failure_shapes():
    """(application plan, destination plan) pairs in which an ENDPOINT FAILS while the other endpoint does nothing by
    itself — so whatever tears the flow down has to come from the tunnel ends alone (C02: "or either endpoint fails,
    both tunnel ends shut their sockets, drop the flow's handler and make its identifier reusable"):
      S1  the destination refuses / resets the connect in a LATER event-loop round than the one that created the flow
          (the non-blocking connect answers "in progress" first — every non-local destination), the application is
          silent: it has sent nothing and does not close.  The server learns of the failure inside Proxy.callback
          (try_connect -> seterr) and sends its end-of-stream in the same callback: from then on BOTH write sides of
          its handler are shut while the tunnel wrapper is still open for reading;
      S2  the destination half-closes (the client end passes the end-of-stream on: shutdown(SHUT_WR) on the
          application's socket) and then dies: the application's next bytes — it speaks only after it has seen the
          end-of-stream, and never closes — are answered EPIPE / ECONNRESET at the destination, the server sends
          STOP_SENDING after its EOF: at the client BOTH write sides are shut while the local socket is still read."""
    out = []
    for plan, e in ((["p", "n"], errno.ECONNREFUSED), (["p", "p", "n"], errno.ECONNRESET), (["p", "p", "p", "n"], errno.ETIMEDOUT),
                    (["p", "n"], errno.EHOSTUNREACH)):
        out.append(({"data": 0, "close": False},
                     {"data": 0, "close": False, "connect": list(plan), "connect_errno": e, "faulty": True}))
    out.append(({"data": 0, "close": False},
                {"data": 0, "close": False, "connect": ["p", "p", "n"], "connect_errno": errno.ECONNREFUSED, "einval": True,
                 "faulty": True}))
    for e, back, conn in ((errno.EPIPE, 0, ["d"]), (errno.ECONNRESET, 7, ["p", "d"]), (errno.ETIMEDOUT, 300, ["d"])):
        out.append(({"data": 5, "close": False, "data_after_eof": True},
                    {"data": back, "close": True, "connect": list(conn), "fault": ("send", 0, e), "faulty": True}))
    return out


def endpoint_failure_cases():
    """the shapes above as the only flow, and as a late flow on a quiet tunnel (both ends asleep in select() after an
    earlier, finished connection), with latency control on and off"""
    first = ({"tag": 1, "data": 10, "close": True, "p_recv": 1.0}, {"tag": 2, "data": 10, "close": True, "connect": ["d"], "p_recv": 1.0})
    out = []
    for n, (app, dst) in enumerate(endpoint_failure_shapes()):
        for k, (latency, late) in enumerate(((True, 1), (False, 0)) if n % 2 == 0 else ((False, 1), (True, 0))):
            a, d = dict(app, tag=3, p_recv=1.0), dict(dst, tag=4, p_recv=1.0)
            flows = [(dict(first[0]), dict(first[1])), (a, d)] if late else [(a, d)]
            out.append({"profile": "fault", "seed": 7100 + 2 * n + k, "maxc": 65535, "lbs": 32768, "latency": latency,
                        "iters": 60 if late else 0, "late": late, "flows": flows})
    return out


def code_frames(exc):
    """the frames of an exception's traceback that lie inside the sshuttle package ("file:line in function")"""
    import traceback
    out = []
    for fr in traceback.extract_tb(exc.__traceback__):
        fn = fr.filename.replace("\\", "/")
        if "/sshuttle/" in fn:
            out.append("sshuttle/%s:%d in %s" % (fn.rsplit("/sshuttle/", 1)[1], fr.lineno, fr.name))
    return out


def stream_check(ctx, prop, profiles, n_quick, n_thorough, tail_profiles=()):
    """run generated cases of the given profiles; report oracle violations of `prop`"""
    import random
    n = n_quick if ctx.quick() else n_thorough
    rng = ctx.rng
    batch, worlds = [], []

    def flush():
        outs = ctx.run_driver([w.model_line() for w in batch])
        for w, out in zip(batch, outs):
            ok = compare(ctx, w, out, {"seed": w.case["seed"], "profile": w.case["profile"], "case": w.case})
            orc = check_oracles(w)
            if ok and not w.crash:
                calm = getattr(w, "calm", 0) >= 3
                mq = getattr(w, "model_quiet", "?")
                ctx.count("end_state_%s_model_quiet_%s" % ("calm" if calm else "busy", mq))
                # the model's notion of "nothing is pending" (StreamQuiet.quiescentb, about which the
                # quiescence theorems speak) must be the real loops' notion (select has nothing ready
                # under the eager environment, three rounds in a row)
                # (one direction only: quiescentb does not look at check_fullness, so with a budget of a few
                # bytes the real loops can keep exchanging PING/PONG through momentarily drained states)
                stuck = any(w.blocked[sd] and w.mux[sd].outbuf for sd in ("c", "s"))    # F160, reported by the oracle
                if mq[:1] == "0" and calm and not stuck:
                    ctx.disagree("stream: real loops are calm but the model's quiescentb is 0",
                                 {"seed": w.case["seed"], "profile": w.case["profile"], "case": w.case}, calm, mq)
            for what, detail in orc.get(prop, []):
                rep = {"case": w.case, "detail": detail, "events": len(w.log)}
                if detail.get("finding_id"):
                    rep["finding_id"] = detail["finding_id"]
                    ctx.known(detail["finding_id"], what)
                ctx.violation(what, rep)
            for p2, lst in orc.items():
                if p2 != prop and lst:
                    ctx.count("other_property_alarm_%s" % p2, len(lst))
        del batch[:]
    extra = list(EXTRA_CASES.get(prop, [])) + quiet_tunnel_cases()
    crashed = []
    def cases():
        for i in range(n + len(extra)):
            yield extra.pop(0) if extra else gen_case(rng, profiles[i % len(profiles)], ctx.quick())
        # (added later, hence after the others: the cases above keep their random sequence)
        for c_ in endpoint_error_cases(rng, ctx.quick()):
            yield c_
        for c_ in endpoint_failure_cases():
            yield c_
        for p_ in tail_profiles:
            for _ in range((10 if ctx.quick() else 150) * (4 if p_ == "reuse_up" else 1)):
                yield gen_case(rng, p_, ctx.quick())

    for i, case in enumerate(cases()):
        profile = case["profile"]
        try:
            w = run_case(ctx, case)
        except (Exception, SystemExit) as e:
            # the real code raised where the harness has no provision for it (e.g. while server.main sets up its end
            # of the tunnel).  If the exception was raised inside sshuttle this is behaviour of the code under check on
            # this case: report it with the case; anything else is a defect of the harness and stays a crash.
            where = code_frames(e)
            if not where:
                raise
            ctx.count("cases_the_code_could_not_be_run_on")
            ctx.case((case["seed"], profile), nontrivial=False)
            crashed.append(where[-1])
            if len(crashed) <= 3:
                ctx.violation("a tunnel end could not be brought up / kept running on this case: %s raised at %s — that end "
                              "never serves a connection nor answers a round-trip request"
                              % (type(e).__name__, where[-1]),
                              {"case": case, "detail": {"exception": "%s: %s" % (type(e).__name__, str(e)[:300]),
                                                        "raised_in": where[-4:]}})
            if len(crashed) >= 12 and len(crashed) == i + 1:
                break                   # every case so far failed the same way: no point in going on
            continue
        nflows = len(w.prox["c"])
        ctx.count("profile_" + profile)
        ctx.count("flows", nflows)
        ctx.count("events", len(w.log))
        if w.crash:
            ctx.count("crash_" + w.crash)
        if any(a.get("faulty") or d.get("faulty") for a, d in case["flows"]):
            ctx.count("cases_with_injected_fault")
        if case["maxc"] < 100:
            ctx.count("cases_with_tiny_identifier_space")
        if case.get("platform", "linux") != "linux":
            ctx.count("cases_platform_" + case["platform"])
        if case.get("endpoint_error"):
            ctx.count("endpoint_error_%s_%s" % (case["endpoint_error"][0], case["endpoint_error"][1]))
        if case["lbs"] >= (1 << 20):
            ctx.count("cases_latency_buffer_1MiB_or_more")
        ctx.count("sockets_with_a_read_of_exactly_65536_bytes", sum(1 for s_ in w.socks if s_.max_rd == 65536))
        ctx.count("sockets_with_a_read_of_exactly_65535_bytes", sum(1 for s_ in w.socks if 65535 in s_.rd_sizes))
        for s_ in w.socks:
            if s_.fired:
                ctx.count("failure_answered_%s_%s_%s" % (s_.fired[0], errno.errorcode.get(s_.fired[1], s_.fired[1]),
                                                         type(sock_err(s_.fired[1])).__name__))
        if case.get("tunnel_end"):
            ctx.count("tunnel_end_%s_%s_%s" % (case["tunnel_end"]["kind"], case["tunnel_end"]["side"],
                                               "reached" if w.model_cut is not None else "not_reached"))
        for a, d in case["flows"]:
            if d.get("einval"):
                ctx.count("flows_connect_outcome_via_EINVAL_and_SO_ERROR")
            if a.get("peername_errno"):
                ctx.count("flows_without_peer_name_at_accept")
            if d.get("connect", [""])[-1] == "x":
                ctx.count("flows_connect_errno_never_heard_of")
            dl = a.get("dial")
            if dl:
                ctx.count("dial_%s_%s" % ("v6" if dl[2] == AF6 else "v4", "own_listener" if own_address(dl) else
                                          "foreign_on_listen_port" if dl[1] == LISTEN_PORT else "other_port"))
        ctx.count("connections_shed_at_accept", sum(1 for a in w.app_socks if a.served is False))
        if not case["latency"]:
            ctx.count("cases_latency_off")
        ctx.case((case["seed"], profile), nontrivial=nflows > 0,
                 sample={"profile": profile, "maxc": case["maxc"], "lbs": case["lbs"], "latency": case["latency"],
                         "flows": [[a.get("data"), d.get("data"), d.get("connect")] for a, d in case["flows"]],
                         "micro_steps": len(w.log), "iterations": len(w.real_snaps)})
        if case.get("noise"):
            # no counterpart of the datagram messages in the stream model: implementation-only oracles
            ctx.count("cases_with_unpaused_datagram_traffic")
            for what, detail in check_oracles(w).get(prop, []):
                ctx.violation(what, {"case": w.case, "detail": detail, "events": len(w.log)})
            continue
        batch.append(w)
        if len(batch) >= 25:
            flush()
    flush()
    ctx.programs = ctx.evaluations


# ---------------------------------------------------------------------- the server's end of the ssh channel
def _frame(ch, cmd, data=b""):
    return struct.pack("!ccHHH", b"S", b"S", ch, cmd, len(data)) + data


class ServerChild:
    """the real server.main in a child process whose descriptors 0 and 1 are one end of a socket pair — exactly what
    ssh.connect / sshd give it.  Nothing of sshuttle is replaced in the child."""

    def __init__(self, lbs, latency=True):
        import subprocess
        s1, self.sock = real_socket.socketpair()
        code = ("import sshuttle.server as s; s.main(%r, %d, False, None, False)" % (bool(latency), lbs))
        try:
            import tempfile
            self.errf = tempfile.TemporaryFile()        # what the server says on stderr (why it ended, if it does)
            self.p = subprocess.Popen([sys.executable, "-c", code], stdin=s1.fileno(), stdout=s1.fileno(),
                                      stderr=self.errf, close_fds=True)
        finally:
            s1.close()
        self.buf = b""              # bytes received from the server and not yet consumed
        self.sock.setblocking(False)

    def pump(self, wait):
        """take what the server has written so far (waiting at most `wait` seconds for the first byte)"""
        import select
        r, _, _ = select.select([self.sock], [], [], wait)
        while r:
            try:
                d = self.sock.recv(1 << 16)
            except (BlockingIOError, InterruptedError):
                break
            except OSError:
                return False
            if not d:
                return False
            self.buf += d
            r, _, _ = select.select([self.sock], [], [], 0)
        return True

    def start(self, limit=60.0):
        """read the synchronisation string and the two messages server.main sends first; False if they do not come"""
        import time
        t_end = time.time() + limit
        while time.time() < t_end:
            i = self.buf.find(b"\0\0SSHUTTLE0001")
            if i >= 0:
                fr = decode_frames(self.buf[i + 14:])
                if len(fr) >= 2:
                    self.start_frames = fr          # (with a budget of a few bytes the server's own PING may be among them)
                    self.buf = self.buf[i + 14 + sum(8 + len(d) for _, _, d in fr):]
                    return True
            if not self.pump(0.25) and self.p.poll() is not None:
                return False
        return False

    def send(self, data):
        self.sock.setblocking(True)
        try:
            self.sock.sendall(data)
        finally:
            self.sock.setblocking(False)

    def unread_by_server(self):
        """bytes we sent that the server has not yet taken off its descriptor 0 (None if the kernel does not tell)"""
        import fcntl
        import termios
        try:
            return struct.unpack("i", fcntl.ioctl(self.sock.fileno(), termios.TIOCOUTQ, b"\0\0\0\0"))[0]
        except Exception:
            return None

    def waiting_for_input(self):
        """is the server process asleep inside select/poll?  (None if /proc does not tell)"""
        try:
            with open("/proc/%d/wchan" % self.p.pid) as f:
                wchan = f.read().strip()
            with open("/proc/%d/stat" % self.p.pid) as f:
                state = f.read().rsplit(")", 1)[1].split()[0]
        except Exception:
            return None
        if not wchan or wchan == "0":
            return None if state == "S" else False
        return state == "S" and ("poll" in wchan or "select" in wchan)

    def settle(self, done, limit=45.0):
        """wait until `done()` holds, or until the server has provably stopped working on what it was sent: it has taken
        every byte off descriptor 0 and sleeps in select(), twice in a row, with nothing new from it in between.  Where
        the kernel does not show that, only the (generous) time limit decides.  Returns 'done' / 'idle' / 'timeout' / 'died'."""
        import time
        t_end = time.time() + limit
        idle = 0
        while time.time() < t_end:
            before = len(self.buf)
            alive = self.pump(0.05)
            if done():
                return "done"
            if not alive or self.p.poll() is not None:
                self.pump(0)
                return "done" if done() else "died"
            if len(self.buf) == before and self.unread_by_server() == 0 and self.waiting_for_input() is True:
                idle += 1
                if idle >= 4:
                    return "idle"
            else:
                idle = 0
        return "timeout"

    def stderr_tail(self):
        try:
            self.errf.seek(0)
            return self.errf.read()[-1500:].decode("latin-1")
        except Exception:
            return ""

    def close(self):
        try:
            self.sock.close()
        except Exception:
            pass
        try:
            self.errf.close()
        except Exception:
            pass
        try:
            self.p.kill()
        except Exception:
            pass
        try:
            self.p.wait(10)
        except Exception:
            pass


def server_reader_scenarios(rng, lbs, prop, quick):
    """what the client puts on the link in ONE piece: (kind, list of messages)"""
    out = []
    if prop == "C09":
        def pings(sizes):
            return [(0, 0x4201, pattern(7, 11 * i, n)) for i, n in enumerate(sizes)]
        # a window's tail: messages adding up to just over one read of the server (the last one is the round-trip request)
        room = max(0, min(lbs, 60000) - 16)
        out.append(("just_over_one_read", pings([room, 6, 6])))
        # many small requests in one piece
        out.append(("many_small", pings([rng.choice([0, 6, 7]) for _ in range(rng.choice([40, 70]))])))
        # more than two reads' worth, not a multiple of any block size
        tot, sizes = 2 * min(lbs, 30000) + 1017, []
        while tot > 0:
            n = min(tot, rng.choice([6, 100, 1000, 2048, 4089]))
            sizes.append(n)
            tot -= n + 8
        out.append(("two_reads_and_a_bit", pings(sizes + [6])))
        if lbs >= 100:
            # one message larger than a read, then the request
            out.append(("message_larger_than_a_read", pings([min(65535, lbs + 1000), 6])))
        if not quick:
            out.append(("random", pings([rng.choice([0, 1, 6, 300, 2048, 4096, 5000]) for _ in range(rng.randint(2, 30))])))
    else:
        # a connection's whole life in one piece: CONNECT, payload, end-of-stream
        for total in ([lbs + 1017, 20000] if quick else [1, lbs + 1, lbs + 1017, 2 * lbs + 5, 20000, 70000]):
            total = min(total, 150000)
            out.append(("connect_payload_eof", total))
    return out


def server_reader_run(child, kind, spec, prop, listener=None):
    """deliver one scenario to descriptor 0 of the real server in one segment and wait until it is answered or the server
    has stopped.  Returns None if everything was answered, otherwise the detail of the failure."""
    if prop == "C09":
        msgs = spec
        seg = b"".join(_frame(*m) for m in msgs)
        want = [(0, 0x4202, d) for _, _, d in msgs]
        child.send(seg)

        def answers():
            # (the server may ask for a round trip of its own, PING 'rttest', once the answers exceed ITS budget)
            return [f for f in decode_frames(child.buf) if f[1] == 0x4202]

        def take():
            fr = decode_frames(child.buf)
            child.buf = child.buf[sum(8 + len(d) for _, _, d in fr):]

        def done():
            return len(answers()) >= len(want)
        how = child.settle(done)
        got = answers()
        take()
        if got == want:
            return None
        det = {"bytes_in_the_segment": len(seg), "requests_sent": len(want), "answers_received": len(got),
               "answers_are_a_prefix_of_the_expected_ones": got == want[:len(got)], "server_state": how,
               "request_payload_lengths": [len(d) for _, _, d in msgs][:80]}
        if how in ("idle", "timeout") and got == want[:len(got)]:
            # show where the requests are: one more (unrelated) message makes the server look again
            child.send(_frame(0, 0x4201, b"release"))
            child.settle(lambda: len(answers()) >= len(want) - len(got) + 1, 10.0)
            late = answers()
            take()
            det["answers_that_came_only_after_one_more_message_was_sent"] = max(0, len(late) - 1)
        return det
    # C01: payload
    total = spec
    host, port = listener.getsockname()[:2]
    data = pattern(3, 0, total)
    # a fresh identifier for every connection sent to this child: the harness plays the client, and a client never
    # re-uses an identifier whose flow the server may still hold
    child.chan_counter = getattr(child, "chan_counter", 0) + 1
    chan = child.chan_counter
    seg = _frame(chan, 0x4203, b"%d,%s,%d" % (int(real_socket.AF_INET), host.encode(), port))
    for off in range(0, total, 2048):
        seg += _frame(chan, 0x4206, data[off:off + 2048])
    seg += _frame(chan, 0x4205)
    child.send(seg)
    got, eof, conn = b"", False, None
    import select
    import time
    state, idle, t_end = "timeout", 0, time.time() + 45.0
    while time.time() < t_end:
        socks = [listener] if conn is None else [conn]
        r, _, _ = select.select(socks, [], [], 0.05)
        progressed = bool(r)
        if r and conn is None:
            conn, _ = listener.accept()
            conn.setblocking(False)
        elif r:
            try:
                d = conn.recv(1 << 16)
                if d:
                    got += d
                else:
                    eof = True
            except (BlockingIOError, InterruptedError):
                pass
            except OSError:
                eof = True
        if eof or (len(got) >= total and not r):
            if eof:
                state = "done"
                break
        child.pump(0)
        if child.p.poll() is not None:
            state = "died"
            break
        if not progressed and child.unread_by_server() == 0 and child.waiting_for_input() is True:
            idle += 1
            if idle >= 6:
                state = "idle"
                break
        else:
            idle = 0
    if conn is not None:
        conn.close()
    child.buf = b""
    if got == data and eof:
        return None
    return {"bytes_in_the_segment": len(seg), "payload_bytes_sent": total, "payload_bytes_the_destination_received": len(got),
            "received_is_a_prefix": data.startswith(got), "destination_saw_end_of_stream": eof,
            "destination_was_connected": conn is not None, "server_state": state}


BUDGET_SCENARIO = "bulk_download_acknowledgement_withheld"
BUDGET_SOURCE_BYTES = 300000


def server_budget_run(lbs, source_bytes=BUDGET_SOURCE_BYTES):
    """C09, the budget the real server.main REALLY works with: run it with --latency-buffer-size `lbs` (latency control
    on), open ONE connection through it to a loopback destination that sends `source_bytes` at once, never answer the
    server's round-trip request, and count the stream payload (TCP_DATA) the server puts on the tunnel until it sleeps in
    select() with the destination still having data for it.  Returns (measurement, None) or (None, reason-skipped)."""
    import select
    import time
    try:
        src = real_socket.socket(real_socket.AF_INET, real_socket.SOCK_STREAM)
        src.bind(("127.0.0.1", 0))
        src.listen(4)
    except OSError:
        return None, "no_loopback"
    child = ServerChild(lbs)
    conn = None
    try:
        if not child.start():
            return None, "child_did_not_start"
        host, port = src.getsockname()[:2]
        chan = 1
        child.send(_frame(chan, 0x4203, b"%d,%s,%d" % (int(real_socket.AF_INET), host.encode(), port)))
        data = (pattern(5, 0, 1 << 16) * (source_bytes // (1 << 16) + 1))[:source_bytes]
        sent, idle, state, t_end = 0, 0, "timeout", time.time() + 30.0
        while time.time() < t_end:
            before = len(child.buf)
            alive = child.pump(0.05)
            progressed = len(child.buf) != before
            if conn is None:
                r, _, _ = select.select([src], [], [], 0)
                if r:
                    conn, _ = src.accept()
                    conn.setblocking(False)
                    progressed = True
            if conn is not None and sent < len(data):
                _, wr, _ = select.select([], [conn], [], 0)
                if wr:
                    try:
                        n = conn.send(data[sent:sent + 65536])
                        sent += n
                        progressed = progressed or n > 0
                    except (BlockingIOError, InterruptedError):
                        pass
                    except OSError:
                        state = "destination_socket_failed"
                        break
            if not alive or child.p.poll() is not None:
                child.pump(0)
                state = "died"
                break
            asleep = child.waiting_for_input()
            if conn is not None and sent > 0 and not progressed and child.unread_by_server() in (0, None) and asleep is not False:
                idle += 1
                if idle >= (4 if asleep is True else 20):
                    state = "idle"
                    break
            else:
                idle = 0
        frames = list(getattr(child, "start_frames", [])) + decode_frames(child.buf)
        payload = sum(len(d) for ch, cmd, d in frames if cmd == 0x4206 and ch == chan)
        asked_at = None
        for i, (ch, cmd, d) in enumerate(frames):
            if cmd == 0x4201 and d == b"rttest":
                asked_at = i
                break
        after = sum(len(d) for ch, cmd, d in frames[asked_at + 1:] if cmd == 0x4206) if asked_at is not None else 0
        return {"latency_buffer_size": lbs, "scenario": BUDGET_SCENARIO, "server_state": state,
                "stream_payload_bytes_the_server_queued_on_the_tunnel": payload,
                "round_trip_request_seen": asked_at is not None,
                "stream_payload_bytes_after_the_request": after,
                "other_payload_bytes_from_the_server_since_start": sum(len(d) for ch, cmd, d in frames if cmd != 0x4206),
                "bytes_the_destination_had_handed_to_its_socket": sent, "bytes_the_destination_has_in_all": len(data),
                "exit_status": child.p.poll(),
                "server_stderr_tail": child.stderr_tail() if state == "died" else ""}, None
    finally:
        if conn is not None:
            conn.close()
        src.close()
        child.close()


def server_budget_check(ctx, rng, only=None):
    """the oracle on server_budget_run: by c09_bound (coq/Props/C09.v) an end that is not waiting for an acknowledgement
    queues at most one 2048-byte frame per Proxy callback and none while it waits; check_fullness runs after every loop
    iteration and runonce issues at most 4 callbacks per live connection — so with ONE connection and the acknowledgement
    withheld the server queues at most (configured size) + 4*2048 bytes of stream payload, asks, and queues nothing more."""
    quick = ctx.quick()
    if only is not None:
        sizes = [only["latency_buffer_size"]]
    elif quick:
        sizes = [1, 256, rng.choice([2047, 2048, 2049]), rng.randint(1, 40000), rng.choice([32767, 32768]), 40000]
    else:
        sizes = [1, 256, 2047, 2048, 2049, 32767, 32768, 40000] + [rng.randint(1, 40000) for _ in range(16)]
    found = []
    for lbs in sizes:
        m, skipped = server_budget_run(lbs)
        if m is None:
            ctx.count("server_budget_skipped_%s" % skipped)
            if skipped == "no_loopback":
                break
            continue
        ctx.case(("server-reader", "C09", lbs, BUDGET_SCENARIO), nontrivial=m["stream_payload_bytes_the_server_queued_on_the_tunnel"] > 0
                 or m["round_trip_request_seen"])
        ctx.count("server_reader_%s" % BUDGET_SCENARIO)
        ctx.count("server_budget_state_%s" % m["server_state"])
        bound = lbs + 4 * 2048
        m["bound"] = bound
        q = m["stream_payload_bytes_the_server_queued_on_the_tunnel"]
        what = None
        if q > bound or m["stream_payload_bytes_after_the_request"] > 0:
            what = ("server.main run with --latency-buffer-size %d queued %d stream payload bytes on the tunnel for ONE connection "
                    "%s (bound: configured size + 4*2048 = %d, c09_bound; %d of them after its own round-trip request); the "
                    "acknowledgement was withheld throughout" %
                    (lbs, q, "before waiting for the PING reply" if m["round_trip_request_seen"] else
                     "and never asked for an acknowledgement", bound, m["stream_payload_bytes_after_the_request"]))
        elif m["server_state"] == "idle" and not m["round_trip_request_seen"]:
            what = ("server.main run with --latency-buffer-size %d went to sleep in select() after %d stream payload bytes of a "
                    "bulk download although the destination has more, without having asked for an acknowledgement (no PING "
                    "'rttest' on the tunnel): nothing will ever resume the transfer" % (lbs, q))
        elif m["server_state"] == "died":
            what = ("the real server.main (--latency-buffer-size %d) ended during a bulk download whose acknowledgement was "
                    "withheld" % lbs)
        if what is None:
            continue
        found.append(m)
        ctx.violation(what, {"server_reader": m})
        if len(found) >= 2:
            break
    return found


def server_reader_check(ctx, prop, only=None):
    """C01 / C09 at the SERVER's end of the ssh channel: the multiplexer of the real server.main reads descriptor 0
    through whatever object server.main builds for it, and is only woken when select() reports descriptor 0 readable.
    So every complete message that has been delivered to descriptor 0 must be acted on without any further input:
    k round-trip requests give k answers (C09: "every such request is eventually answered"), a connection's payload
    reaches its destination (C01: "every byte written before the writer closed is eventually delivered") — for every
    --latency-buffer-size (the size of the server's reads), also ones that are not multiples of a block size, and for
    segments larger than one read.  Real process, real descriptors; implementation only (the stream model's link
    delivers whole frames straight into the multiplexer)."""
    import random
    quick = ctx.quick()
    rng = random.Random(ctx.rng.randrange(1 << 30))
    if only is not None and only.get("scenario") == BUDGET_SCENARIO:
        return server_budget_check(ctx, rng, only)
    if only is not None:
        sizes = [only["latency_buffer_size"]]
    elif quick:
        sizes = [1, 100, 1024, 3000, 4096, 5000, 10000, 32768, 40000] if prop == "C09" else [100, 1024, 5000, 32768]
    else:
        sizes = [1, 5, 100, 1000, 1024, 2048, 3000, 4095, 4096, 4097, 5000, 8192, 10000, 16384, 20000, 32768, 40000,
                 65536, 100000, 1 << 20]
    listener = None
    if prop != "C09":
        try:
            listener = real_socket.socket(real_socket.AF_INET, real_socket.SOCK_STREAM)
            listener.bind(("127.0.0.1", 0))
            listener.listen(8)
        except OSError:
            ctx.count("server_reader_skipped_no_loopback")
            return []
    found = []
    try:
        for lbs in sizes:
            child = ServerChild(lbs)
            try:
                if not child.start():
                    ctx.count("server_reader_child_did_not_start")
                    det = {"latency_buffer_size": lbs, "exit_status": child.p.poll(), "bytes_received": len(child.buf)}
                    found.append(det)
                    ctx.violation("the real server.main, started with descriptors 0 and 1 on a socket pair, did not send its "
                                  "synchronisation string and first messages", {"server_reader": det})
                    break
                scen = server_reader_scenarios(rng, lbs, prop, quick)
                if only is not None:
                    scen = [sc_ for sc_ in scen if sc_[0] == only["scenario"]] or scen
                    if only.get("messages") is not None:
                        scen = [(only["scenario"], [(0, 0x4201, bytes.fromhex(h)) for h in only["messages"]])]
                    elif only.get("payload_bytes") is not None:
                        scen = [(only["scenario"], only["payload_bytes"])]
                for kind, spec in scen:
                    det = server_reader_run(child, kind, spec, prop, listener)
                    ctx.case(("server-reader", prop, lbs, kind), nontrivial=True)
                    ctx.count("server_reader_%s" % kind)
                    if det is None:
                        continue
                    det = dict(det, latency_buffer_size=lbs, scenario=kind)
                    if prop == "C09":
                        if sum(len(d) for _, _, d in spec) <= 20000:
                            det["messages"] = [d.hex() for _, _, d in spec]
                        what = ("round-trip requests delivered to the server's descriptor 0 in one segment were not all answered "
                                "although the server had taken every byte off the descriptor and gone back to sleep in select(): "
                                "the object server.main reads the tunnel through holds them back (read-ahead), the asking end "
                                "stays paused")
                    else:
                        det["payload_bytes"] = spec
                        what = ("a connection's CONNECT, payload and end-of-stream delivered to the server's descriptor 0 in one "
                                "segment did not all reach the destination although the server had taken every byte off the "
                                "descriptor and gone back to sleep in select(): the object server.main reads the tunnel "
                                "through holds them back (read-ahead)")
                    if det["server_state"] == "died":
                        what = ("the real server.main ended while acting on messages delivered to its descriptor 0 in one segment")
                        det["exit_status"] = child.p.poll()
                        det["server_stderr_tail"] = child.stderr_tail()
                    found.append(det)
                    ctx.violation(what, {"server_reader": det})
                    break               # the child's stream position is no longer known: next buffer size, fresh child
            finally:
                child.close()
            if len(found) >= 3:
                break
    finally:
        if listener is not None:
            listener.close()
    if prop == "C09" and only is None:
        # the budget the server really applies (after everything above, so that the cases above keep their random sequence)
        found += server_budget_check(ctx, rng)
    return found


def stream_replay(ctx, rp, prop):
    sr = rp.get("replay", {}).get("server_reader")
    if sr:
        found = server_reader_check(ctx, prop, only=sr) if sr.get("scenario") else []
        print("server reader:", found)
        return bool(found)
    case = rp.get("replay", {}).get("case")
    if not case:
        print("nothing replayable")
        return False
    w = run_case(ctx, case)
    if not case.get("noise"):           # cases with datagram-style traffic have no model counterpart
        out = ctx.run_driver([w.model_line()])[0]
        compare(ctx, w, out, "replay")
    orc = check_oracles(w)
    print("oracle results:", orc.get(prop), "disagreements:", len(ctx.disagreements))
    hits = orc.get(prop) or []
    if rp.get("what") and rp.get("replay", {}).get("finding_id"):
        # a stored witness of a numbered finding fails again only if THAT failure recurs (other known findings may
        # show on the same case)
        hits = [h for h in hits if h[0] == rp["what"]]
    else:
        # ... and a stored witness of anything else does not "fail again" merely because a RECORDED known finding
        # (reported as KNOWN-FINDING by a full run, never as a violation) shows on the same case
        try:
            import framework
            known_ids = {k["id"] for k in framework.load_known(prop)["findings"]}
        except Exception:
            known_ids = set()
        hits = [h for h in hits if not (h[1].get("finding_id") and h[1]["finding_id"] in known_ids)]
    return bool(hits) or bool(ctx.disagreements)
