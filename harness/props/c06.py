"""C06 — stream core (see stream_common.py and coq/Model/Stream.v) plus the datagram flows of the real code
(DNS / UDP: see dgram_common.py, run_c06_dgram)."""
import os
import sys
sys.path.insert(0, os.path.dirname(os.path.abspath(__file__)))
import stream_common as sc  # noqa: E402
import dgram_common as dc  # noqa: E402

PROP = "C06"
DRIVER_PROP = "C01"
RULE = ("real ssnet.runonce on both tunnel ends over fake sockets, every micro-step replayed on the extracted model and the full "
        "state of both ends compared after every iteration; cases: tiny identifier spaces (MAX_CHANNEL 1..40) forcing wrap-around, exhaustion and re-use while old flows are closing; a case is non-trivial when at least one flow was "
        "accepted; distinct by case seed; profile reuse in both directions (a dying application under a bulk download; an upload held back by latency control behind a stalled link whose destination resets, MAX_CHANNEL 1..3 — tail profile reuse_up) with the oracle 'bytes written on one flow are never delivered on another flow'; PLUS datagram flows (real client functions on a real Mux, dgram_common.FlowTracker): DNS / UDP / TCP life cycles generated while watching the real code — sources going idle while later-opened ones stay active, late replies for closed identifiers, replies for open ones, MAX_CHANNEL 2..6 so that the cursor comes round to identifiers still owned; oracle on the wire and the delivered datagrams only; PLUS 'the peer frees an identifier before it sees its re-use' for UDP associations on the composition (real client functions + real server.main over FIFO links, dgram_common.run_c06_reuse): MAX_CHANNEL 1..4, sources going idle, the client's UDP_CLOSE(X) and the UDP_OPEN(X) of X's next owner consumed by the server in ONE read or in two - the UDP_OPEN must be accepted (server.main does not end, a remote socket is created, the new flow's datagrams are sent from it) and no reply reaches another source")
TRUSTED_BASE = sc.STREAM_TB + ["datagram part: the fake listener / reply / resolver sockets, select() and the two clocks (time.time and time.monotonic, different epochs) of harness/props/dgram_common.py stand for the kernel; it is an oracle on the real code only (the model comparison of the same code is done by ./check C10 and C11)"]
ASSUMPTIONS = sc.STREAM_ASSUMPTIONS
PROFILES = ["wrap","wrap","bulk","close","reuse"]


def correspondence(ctx):
    sc.stream_check(ctx, PROP, PROFILES, 120, 2500, tail_profiles=("reuse_up",))
    # the identifiers of DNS / UDP flows (client.py ondns / onaccept_udp / expire_connections share the Mux allocator)
    dc.run_c06_dgram(ctx)
    ctx.programs = ctx.evaluations


def replay(ctx, rp):
    if rp.get("replay", {}).get("script") or rp.get("replay", {}).get("oracle") == "system":
        return bool(dc.replay_flows(PROP, rp))
    return sc.stream_replay(ctx, rp, PROP)


if __name__ == "__main__":
    sys.path.insert(0, os.path.join(os.path.dirname(os.path.abspath(__file__)), ".."))
    import framework
    sys.exit(framework.main(sys.modules[__name__]))
