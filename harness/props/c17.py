"""C17 — automatically discovered routes are canonical and always reach the client.

Correspondence: the real sshuttle.server._ipmatch / _maskbits / _route_iproute /
_route_netstat / _route_windows / _list_routes / list_routes (every branch of its tool
choice: win32, ip, netstat, neither; tool exit status zero and non-zero), the real
sshuttle.server.main (start-up up to the ROUTES message, on linux and on win32 with a
stand-in for helpers.SocketRWShim; fake Popen producing generated `ip route` /
`netstat -rn` / `route PRINT -4` texts for volume, and - in a child interpreter under a
watchdog - the real subprocess.Popen starting a real program named ip / netstat / route
found on PATH, whose output of 0 .. 40000 lines is read through a real kernel pipe)
and the real sshuttle.client._main (handshake, Mux, onroutes, recording firewall
stub) are run against the extracted Coq model (coq/Model/Routes.v) on the same
generated inputs.  Independent oracle for well-formed tables: ipaddress.ip_network."""
import ast
import errno
import io
import ipaddress
import os
import random
import re
import struct
import sys

PROP = "C17"
RULE = ("routing-table texts: iproute2, Windows `route PRINT -4` (On-link and gateway rows, host routes, loopback / multicast / link-local "
        "rows, CRLF, headers, every prefix length, arbitrary netmask values), no routing tool at all, tools that exit non-zero, Linux netstat (all 33 contiguous netmasks + non-contiguous ones: every single bit, every pair of bits, contiguous with one hole / "
        "one stray bit, byte patterns, random) and BSD netstat "
        "(abbreviated a / a.b / a.b.c with and without /width) with 0..40000 routes, every prefix length, host bits set, "
        "default/127.x/0.x entries, header and IPv6 lines, interleaved junk (a/b/c, x/, x/yy, octets > 255, octal octets, "
        "negative and oversized widths, > 4300-digit numbers, non-ASCII bytes, \\x1c-only lines); single-token differential "
        "tests of the _ipmatch recogniser on grammar-derived, single-edit and random ASCII strings; payload sizes around "
        "65535 bytes; client payloads well-formed and malformed; the routing tool as a real process on a real pipe "
        "(list_routes() and server.main in a child interpreter, real Popen / which / PATH): 0 .. several thousand lines "
        "(thorough: 40000), exactly as many lines as the pipe holds and one more, written at once / page by page / slowly "
        "in odd-sized chunks that end inside lines / after an initial delay, exit status zero and non-zero after printing; "
        "the call must return within the time limit with exactly the canonical networks of the lines printed; the ROUTES message "
        "on the wire: real Mux.send / Mux.flush of the server on a non-blocking stdout (accepting everything / a page / seeded short "
        "writes and EAGAIN / a real kernel pipe read in portions), latency buffer size 32768 and small / random values, frame sizes "
        "just below / at / above the latency buffer size and up to 65535 payload bytes, decoded by the real client-side Mux.handle: "
        "the route handler must get exactly the advertised list, once.  A case is non-trivial when at least one route is produced "
        "or a line is rejected for a reason other than being blank; distinct by content hash")
TRUSTED_BASE = [
    "modelled, not verified: CPython re (the _ipmatch pattern, re-implemented as a structural recogniser and differential-tested on ASCII strings), "
    "str.split(None)/bytes.strip/bytes.split, int() of ASCII text incl. the 4300-digit limit (sys.int_info.default_max_str_digits), "
    "'%d'/'%s' formatting, glibc inet_aton on dotted quads (leading 0 = octal) and inet_ntoa, float conversion overflow in 2 ** negative",
    "fake Popen (stdout = io.BytesIO(text), wait() = 0 or a non-zero status), fake which(), sys.platform as seen by server.py = 'linux' or 'win32' "
    "(then helpers.SocketRWShim is replaced by a pass-through: its threads are not run), fake FileIO/stdout for server.main, fake ssh.connect / runonce and a recording firewall stub for client._main",
    "socket.AF_INET = 2, socket.AF_INET6 = 10 (Linux values; defined in Model/Routes.v)",
    "the wire between server and client (implementation-side oracle, not in the Coq model): the server's stdout is a stand-in whose write() accepts a "
    "prefix of what it is offered or answers None / BlockingIOError(EAGAIN) (never more than 3 times in a row), or a real os.pipe made non-blocking "
    "and read in seeded portions; Mux.flush is called once per pass as runonce does (select itself is not run; at most 4 * queued bytes + 100 passes); "
    "ssh in between is taken to carry the bytes unchanged",
    "real-process runs: the routing tool is a small program written by the harness (prints a generated table in a given chunking, "
    "then exits with a given status) in a temporary directory put first on PATH of a child interpreter only; the pipe, its capacity "
    "(fcntl F_GETPIPE_SZ, 65536 here), blocking writes, Popen, which() (for `ip`; for netstat it only hides the machine's own ip) "
    "and wait() are the real kernel's / CPython's.  Watchdog: a run not back after 25 s is a hang if all its processes sleep and use "
    "no CPU time for 3 s, or is still not back after 150 s; the run's process group (tool included) is then killed",
]
ASSUMPTIONS = [
    "the routing tool's output reaches _list_routes as bytes; str-level functions are modelled for ASCII text only, because the only producer is line.decode('ASCII') (non-ASCII bytes are modelled as UnicodeDecodeError / skipped after the F7 repair)",
    "as-found code with a negative prefix length w needs about 2^(-w)/8 bytes of memory for 2 ** (32 - w); the as-found model assumes it is available (tested only for w >= -2000 and for the OverflowError threshold)",
    "the ROUTES message is sent in one frame, as the code does",
    "the routing tool terminates after printing its table and does not wait for input; the Coq model takes the tool's complete output as a "
    "byte string - that the code obtains it for every size (reads the pipe to its end before waiting for the exit status) is checked by the "
    "real-process runs only, it is not a theorem",
    "Windows (`route PRINT -4`): the property text names the iproute2 and netstat formats only; for the Windows parser the oracle asks that "
    "no line ends the server, that every advertised network is the canonical network of a printed On-link row (in order), that every On-link row "
    "which is not a host route and does not start with 127./0./224./169.254. is advertised, and that the advertisement is delivered; the rows "
    "the code leaves out on purpose (routes through a gateway, host routes, multicast, link-local) are compared with the model as coded only",
    "host routes printed by iproute2 without '/len' (e.g. '10.1.2.3 dev eth0') are not routes for _route_iproute: it requires a '/' in the first token (as coded; reported, not counted as a violation)",
]

AF_INET = 2


def hx(b):
    return b.hex() if b else "-"


class StopLoop(Exception):
    pass


def exc_name(e):
    if type(e).__name__ == "error":
        return "error"
    return type(e).__name__


# --------------------------------------------------------------------------
# the real code

_S = {}


def load():
    if _S:
        return _S
    import sshuttle.server as server
    import sshuttle.ssnet as ssnet
    import sshuttle.helpers as helpers
    _S.update(server=server, ssnet=ssnet, helpers=helpers)
    ssnet.set_non_blocking_io = lambda fd: None
    # the pattern of _ipmatch, read from the source (not copied)
    src = open(server.__file__).read()
    pat = None
    for node in ast.walk(ast.parse(src)):
        if isinstance(node, ast.FunctionDef) and node.name == "_ipmatch":
            for c in ast.walk(node):
                if (isinstance(c, ast.Call) and isinstance(c.func, ast.Attribute) and c.func.attr == "match"
                        and c.args and isinstance(c.args[0], ast.Constant)):
                    pat = c.args[0].value
    if pat is None:
        raise RuntimeError("cannot find the re.match pattern in server._ipmatch")
    _S["pattern"] = pat
    return _S


def impl_re(s):
    m = re.match(load()["pattern"], s)
    if not m:
        return "NONE"
    g = m.groups()
    return g[0] + ("/" + g[4] if g[4] is not None else "")


def impl_ipm(s):
    try:
        r = load()["server"]._ipmatch(s)
    except Exception as e:
        return "CRASH " + exc_name(e)
    return "NONE" if r is None else "OK %d %d" % r


def impl_extract(fn, line):
    try:
        ipw, mask = getattr(load()["server"], fn)(line)
    except Exception as e:
        return "CRASH " + exc_name(e)
    if not ipw:
        return "NONE"
    return "OK %d %d %d" % (ipw[0], ipw[1], mask)


class FakePopen:
    text = b""
    rv = 0
    argvs = []

    def __init__(self, argv, **kw):
        self.argv = argv
        FakePopen.argvs.append(list(argv))
        self.stdout = io.BytesIO(FakePopen.text)

    def wait(self):
        return FakePopen.rv


TOOLS = {"ip": (["ip", "route"], "_route_iproute"), "netstat": (["netstat", "-rn"], "_route_netstat"),
         "win": (["route", "PRINT", "-4"], "_route_windows")}


def impl_lr(tool, text, rv=0):
    """real _list_routes on a generated tool output (rv = the tool's exit status)"""
    server = load()["server"]
    old = (server.ssubprocess.Popen, server.log)
    FakePopen.text = text
    FakePopen.rv = rv
    server.ssubprocess.Popen = FakePopen
    server.log = lambda s: None
    try:
        try:
            rs = server._list_routes(TOOLS[tool][0], getattr(server, TOOLS[tool][1]))
        except Exception as e:
            return "CRASH " + exc_name(e)
    finally:
        server.ssubprocess.Popen, server.log = old
        FakePopen.rv = 0
    return "OK " + ",".join("%s/%d" % (ip, w) for (_f, ip, w) in rs)


def impl_list_routes(tool, text, rv=0, real=False):
    """real list_routes() - the generator with the tool choice (sys.platform, which) and the 0.x / 127.x filter -
    with `tool` as the only routing tool of the machine ('win': sys.platform == 'win32'; 'none': neither ip nor netstat).
    real: the routing tool is a program on PATH, started by the real subprocess.Popen and read through a real pipe
    (see real_run; the real which() is used when the tool is `ip`, for netstat it only hides the machine's own `ip`).
    Returns ('OK a/w,...' | 'CRASH cls', argv lists of the commands started)."""
    server = load()["server"]
    shim = SysShim()
    shim.platform = "win32" if tool == "win" else "linux"
    old = (server.ssubprocess.Popen, server.which, server.sys, server.log)
    FakePopen.text = text
    FakePopen.rv = rv
    FakePopen.argvs = []
    if not real:
        server.ssubprocess.Popen = FakePopen
    if not (real and tool == "ip"):
        server.which = lambda f, *a, **k: ("/sbin/" + f if f == tool else None)
    server.sys = shim
    server.log = lambda s: None
    try:
        try:
            rs = list(server.list_routes())
            res = "OK " + ",".join("%s/%d" % (ip, w) for (_f, ip, w) in rs)
        except Exception as e:
            res = "CRASH " + exc_name(e)
    finally:
        server.ssubprocess.Popen, server.which, server.sys, server.log = old
        FakePopen.rv = 0
    return res, list(FakePopen.argvs)


class SysShim:
    """server.sys replacement: fake stdout, everything else from the real sys"""

    def __init__(self):
        self.stdout = io.StringIO()
        self.platform = "linux"

    def __getattr__(self, k):
        return getattr(sys, k)


class FakeFileIO:
    def __init__(self, fd, mode="r"):
        self.fd = fd

    def fileno(self):
        return self.fd

    def read(self, n=-1):
        return b""

    def write(self, b):
        return None

    def flush(self):
        pass


class IoShim:
    FileIO = FakeFileIO

    def __getattr__(self, k):
        return getattr(io, k)


class PassThroughShim:
    """stands for helpers.SocketRWShim (win32 only: two threads copying between stdio and a socket pair)"""
    made = 0

    def __init__(self, r, w, on_end=None):
        self.r, self.w = r, w
        PassThroughShim.made += 1

    def makefiles(self):
        return self.r, self.w


class SchedW:
    """stdout of the server as the server's Mux sees it: a non-blocking descriptor.  write() accepts a PREFIX of what it
    is offered - all of it ('whole'), at most one page ('page'), or a length drawn from a seeded schedule ('rand':
    1 .. ~75000 bytes, i.e. fewer bytes than offered as well as everything) - or nothing at all, the way a full pipe
    answers: None (raw FileIO on EAGAIN) or BlockingIOError(EAGAIN) (a socket), never more than 3 times in a row."""

    def __init__(self, style, seed):
        self.style, self.rnd = style, random.Random(seed)
        self.got = bytearray()
        self.stall = 0
        self.calls = 0

    def fileno(self):
        return 1

    def write(self, b):
        self.calls += 1
        b = bytes(b)
        if self.style == "whole":
            k = len(b)
        elif self.style == "page":
            k = min(len(b), 4096)
        else:
            if self.rnd.random() < 0.25 and self.stall < 3:
                self.stall += 1
                if self.rnd.random() < 0.5:
                    return None
                raise BlockingIOError(errno.EAGAIN, "Resource temporarily unavailable")
            self.stall = 0
            k = min(len(b), int(2 ** self.rnd.uniform(0, 16.2)))
        self.got += b[:k]
        return k

    def flush(self):
        pass


WIRE_STYLES = ("whole", "page", "rand", "pipe")
LAST_WIRE = {}


def drain_mux(mux, style, seed):
    """what the server's runonce loop does with the queued frames: Mux.flush() (the real one) once per pass while the
    Mux has something queued, on a non-blocking stdout that takes what it takes (SchedW, or - style 'pipe' - a real
    kernel pipe made non-blocking whose other end is read in seeded portions between the passes).
    Returns (bytes that reached the other end, drained?, passes, bytes still queued).  The number of passes is bounded
    by 4 * queued bytes + 100: every writer here accepts at least one byte in any 4 consecutive passes, so a Mux still
    holding data after that can never send it."""
    total = sum(len(x) for x in mux.outbuf)
    bound = 4 * total + 100
    rounds = 0
    if style == "pipe":
        rfd, wfd = os.pipe()
        os.set_blocking(rfd, False)
        os.set_blocking(wfd, False)
        w = io.FileIO(wfd, "w")
        rnd = random.Random(seed)
        got = bytearray()
        mux.wfile = w
        try:
            idle = False
            while mux.outbuf and rounds < bound:
                rounds += 1
                mux.flush()
                if idle or rnd.random() < 0.7:
                    idle = False
                    try:
                        got += os.read(rfd, int(2 ** rnd.uniform(8, 17)))
                    except BlockingIOError:
                        pass
                else:
                    idle = True
            while True:
                try:
                    c = os.read(rfd, 1 << 20)
                except BlockingIOError:
                    break
                if not c:
                    break
                got += c
        finally:
            w.close()
            os.close(rfd)
        got = bytes(got)
    else:
        w = SchedW(style, seed)
        mux.wfile = w
        while mux.outbuf and rounds < bound:
            rounds += 1
            mux.flush()
        got = bytes(w.got)
    return got, not mux.outbuf, rounds, sum(len(x) for x in mux.outbuf)


def impl_server(tool, text, rv=0, real=False, lbs=32768, wr=("whole", 0)):
    """real server.main (auto_nets on, latency buffer size lbs) up to the first runonce, then what that runonce loop
    does for the queued frames: the real Mux.flush() until nothing is queued (drain_mux; wr = (writer style, seed)).
    `tool` is the machine's only routing tool ('win': sys.platform == 'win32', 'none': neither ip nor netstat), rv its
    exit status.  real: the routing tool is a program on PATH started by the real subprocess.Popen (see real_run).
    Returns ('OK', payload handed to Mux.send, wire = the bytes that left the server: sync string + what the real
    flush wrote) or ('CRASH', cls, None); LAST_WIRE tells whether the Mux could be drained."""
    S = load()
    server, ssnet, helpers = S["server"], S["ssnet"], S["helpers"]
    cap = {}
    old_lbs = ssnet.LATENCY_BUFFER_SIZE
    LAST_WIRE.clear()

    def stop(handlers, mux):
        cap["mux"] = mux
        raise StopLoop()

    def fake_which(f, *a, **k):
        return "/sbin/" + f if f == tool else None
    shim = SysShim()
    shim.platform = "win32" if tool == "win" else "linux"
    old = (server.ssubprocess.Popen, server.which, server.sys, server.io, ssnet.runonce, helpers.logprefix)
    oldlog = (helpers.log, server.log)
    oldshim = server.SocketRWShim
    server.SocketRWShim = PassThroughShim
    made0 = PassThroughShim.made
    FakePopen.text = text
    FakePopen.rv = rv
    FakePopen.argvs = []
    if not real:
        server.ssubprocess.Popen = FakePopen
    if not (real and tool == "ip"):
        server.which = fake_which
    server.sys = shim
    server.io = IoShim()
    ssnet.runonce = stop
    helpers.log = server.log = lambda s: None
    payload = None
    try:
        try:
            server.main(False, lbs, False, None, True)   # the client always passes a latency buffer size
        except StopLoop:
            pass
        except BaseException as e:
            return ("CRASH", exc_name(e), None)
        if (PassThroughShim.made - made0) != (1 if tool == "win" else 0):
            return ("CRASH", "stdio-shim-used-%d-times-on-%s" % (PassThroughShim.made - made0, shim.platform), None)
        mux = cap["mux"]
        for p in mux.outbuf:
            (_s1, _s2, ch, cmd, ln) = struct.unpack("!ccHHH", bytes(p[:8]))
            if cmd == ssnet.CMD_ROUTES:
                payload = bytes(p[8:])
        if payload is None:
            return ("CRASH", "no-ROUTES-frame", None)
        queued = sum(len(x) for x in mux.outbuf)
        try:
            sent, drained, rounds, left = drain_mux(mux, wr[0], wr[1])
        except BaseException as e:
            return ("CRASH", "flush-" + exc_name(e), None)
        LAST_WIRE.update(drained=drained, rounds=rounds, left=left, queued=queued, lbs=lbs, style=wr[0], wseed=wr[1])
        wire = shim.stdout.getvalue().encode("latin-1") + sent
    finally:
        (server.ssubprocess.Popen, server.which, server.sys, server.io, ssnet.runonce, helpers.logprefix) = old
        helpers.log, server.log = oldlog
        server.SocketRWShim = oldshim
        FakePopen.rv = 0
        ssnet.LATENCY_BUFFER_SIZE = old_lbs
    return ("OK", payload, wire)


def wire_decode(wire, chunk_seed):
    """the client's end of the wire: a real ssnet.Mux whose handle() fills from a reader handing out the bytes in
    seeded portions; got_routes records.  Returns (list of ROUTES payloads the handler got, exception class or None,
    bytes the Mux still waits for, bytes it holds)."""
    ssnet = load()["ssnet"]
    if not wire.startswith(SYNC):
        return [], "no-sync-string", 0, 0
    data = wire[len(SYNC):]
    rnd = random.Random(chunk_seed)
    r = FakeR(b"")
    i = 0
    while i < len(data):
        k = int(2 ** rnd.uniform(0, 16.5))
        r.chunks.append(data[i:i + k])
        i += k
    m = ssnet.Mux(r, FakeW())
    got = []
    m.got_routes = got.append
    exn = None
    try:
        while r.chunks:
            m.handle()
    except BaseException as e:
        exn = exc_name(e)
    return got, exn, m.want, len(m.inbuf)


def wire_judge(reference, wire, chunk_seed=0):
    """property oracle on the wire (implementation side only): the ROUTES advertisement `reference` (the canonical list of
    the routing table, as text) must leave the server and be handed whole, once, to the client's route handler.
    Returns None or (class, sentence)."""
    n, plen = reference.count(b"\n"), len(reference)
    head = "ROUTES advertisement of %d routes (%d payload bytes) sent by the real server through Mux.send/flush " % (n, plen)
    w = dict(LAST_WIRE)
    how = "(stdout writer '%s', latency buffer size %s)" % (w.get("style"), w.get("lbs"))
    if not w.get("drained"):
        return ("never-leaves", head + "never leaves the server: after %d flush passes %d of %d queued bytes are still held %s"
                % (w.get("rounds", 0), w.get("left", 0), w.get("queued", 0), how))
    got, exn, want, have = wire_decode(wire, chunk_seed)
    if exn is not None:
        return ("out-of-sync", head + "is not delivered whole to the client: stream out of sync, the client's Mux.handle raised %s "
                "after %d of %d queued bytes reached it %s" % (exn, len(wire) - len(SYNC), w.get("queued", 0), how))
    if not got:
        return ("never-called", head + "is not delivered whole to the client: onroutes never called - only %d of the %d queued bytes left "
                "the server, the client still waits for %d bytes and has %d %s" % (len(wire) - len(SYNC), w.get("queued", 0), want, have, how))
    if len(got) != 1 or got[0] != reference:
        k = sum(1 for a, b in zip(got[0].split(b"\n"), reference.split(b"\n")[:-1]) if a == b)
        return ("partial", head + "is not delivered whole to the client: client received %d of %d routes (%d ROUTES messages, first of %d bytes) %s"
                % (k, n, len(got), len(got[0]), how))
    if want or have:
        return ("trailing", head + "is followed by %d bytes the client cannot interpret (waits for %d) %s" % (have, want, how))
    return None


class FakeR:
    def __init__(self, data, chunk=30000):
        self.chunks = [data[i:i + chunk] for i in range(0, len(data), chunk)]

    def fileno(self):
        return 0

    def read(self, n=-1):
        if not self.chunks:
            return b""
        c = self.chunks[0]
        if n < 0 or len(c) <= n:
            self.chunks.pop(0)
            return c
        self.chunks[0] = c[n:]
        return c[:n]


class FakeW:
    def fileno(self):
        return 1

    def write(self, b):
        return len(b)

    def flush(self):
        pass


class FWStub:
    method = None

    def __init__(self):
        self.auto_nets = []
        self.started = 0
        self.nets_at_start = None

    def start(self):
        self.started += 1
        self.nets_at_start = list(self.auto_nets)


def impl_client(auto, v4, v6, wire):
    """real client._main fed `wire` (sync string + frames); returns the observation string
    'started exn fam,iphex,width;...' in the format of the driver's ONR/RT commands."""
    S = load()
    ssnet, helpers = S["ssnet"], S["helpers"]
    import sshuttle.client as client
    import sshuttle.ssh as ssh
    r = FakeR(wire)
    fw = FWStub()

    class Proc:
        pid = 4242

        def poll(self):
            return None

    class L:
        def add_handler(self, *a):
            pass
    lst = L()
    lst.v4 = object() if v4 else None
    lst.v6 = object() if v6 else None

    def fake_connect(*a, **k):
        return Proc(), r, FakeW()

    def fake_runonce(handlers, mux):
        while r.chunks:
            mux.handle()
        raise StopLoop()
    old = (ssh.connect, ssnet.runonce, helpers.log, client.log, helpers.logprefix)
    ssh.connect = fake_connect
    ssnet.runonce = fake_runonce
    client.log = helpers.log = lambda s: None
    so = sys.stdout
    exn = "-"
    try:
        try:
            client._main(lst, None, fw, None, "remote", None, False, 0, None, None, False, auto,
                         False, None, False, None)
        except StopLoop:
            pass
        except BaseException as e:
            exn = exc_name(e)
    finally:
        ssh.connect, ssnet.runonce, helpers.log, client.log, helpers.logprefix = old
        sys.stdout = so
    nets = ";".join("%d,%s,%d" % (n[0], hx(n[1].encode("latin-1")), n[2]) for n in fw.auto_nets) or "-"
    ordered = fw.nets_at_start is None or fw.nets_at_start == fw.auto_nets
    return "%d %s %s" % (1 if fw.started else 0, exn, nets), ordered


def frame(cmd, payload):
    return struct.pack("!ccHHH", b"S", b"S", 0, cmd, len(payload)) + payload


SYNC = b"\0\0SSHUTTLE0001"

# --------------------------------------------------------------------------
# generators (all randomness from ctx.rng)


def rand_addr(rng):
    k = rng.random()
    if k < 0.08:
        first = rng.choice([0, 127])
    elif k < 0.2:
        first = rng.choice([1, 9, 10, 99, 100, 126, 128, 172, 192, 223, 224, 255])
    else:
        first = rng.randint(1, 255)
    rest = [rng.choice([0, 1, 9, 10, 99, 100, 128, 254, 255, rng.randint(0, 255)]) for _ in range(3)]
    return (first << 24) | (rest[0] << 16) | (rest[1] << 8) | rest[2]


def quad(ip):
    return "%d.%d.%d.%d" % (ip >> 24, (ip >> 16) & 255, (ip >> 8) & 255, ip & 255)


def expected_net(ip, w):
    """spec side: canonical network of address ip with prefix length w (independent of sshuttle)"""
    n = ipaddress.ip_network((ip, w), strict=False)
    return (str(n.network_address), n.prefixlen)


def kept(ipstr):
    return not ipstr.startswith("0.") and not ipstr.startswith("127.")


# ---- property oracle for single `netstat -rn` lines, independent of sshuttle and of the model.
# "for every IPv4 route printed by the remote routing tools (... netstat format) the canonical network address and
# prefix length ... skipping lines it cannot interpret": a line is a plainly interpretable IPv4 route when its first
# column is a destination a[.b[.c[.d]]][/w] (decimal octets 0..255, missing octets zero, width at most 8 bits per octet
# given - the abbreviated BSD notation; no /w: 8 bits per octet given) and its THIRD column is either a flags word
# (BSD layout: destination, gateway, flags[, refs, use, netif, expire]) or a contiguous dotted-quad genmask (Linux
# layout: destination, gateway, genmask, ...).  Nothing after the third column is needed to read the route, so a
# line with exactly three columns is a route like any other.  Lines outside this subset are not judged here.

_NS_DEST = re.compile(r"(\d{1,3})(?:\.(\d{1,3}))?(?:\.(\d{1,3}))?(?:\.(\d{1,3}))?(?:/(\d{1,2}))?\Z", re.A)
_NS_FLAGS = re.compile(r"[A-Za-z]{1,12}\Z")
_NS_PLAIN = re.compile(r"[\x21-\x7e \t]+\Z")


def spec_netstat_line(line):
    """None, or ((network, width), number of columns, 'BSD'|'Linux') for a plainly interpretable netstat route line"""
    if line.endswith("\n"):
        line = line[:-1]
    if not _NS_PLAIN.match(line):
        return None
    cols = [c for c in re.split(r"[ \t]+", line) if c]
    if len(cols) < 3:
        return None
    m = _NS_DEST.match(cols[0])
    if not m:
        return None
    octs = [x for x in m.groups()[:4] if x is not None]
    if any(str(int(x)) != x or int(x) > 255 for x in octs):
        return None
    parts = len(octs)
    ip = 0
    for x in octs:
        ip = (ip << 8) | int(x)
    ip <<= 8 * (4 - parts)
    wtxt = m.group(5)
    if wtxt is not None and (str(int(wtxt)) != wtxt or int(wtxt) > 32):
        return None
    if _NS_FLAGS.match(cols[2]):
        width = min(int(wtxt), 8 * parts) if wtxt is not None else 8 * parts
        return expected_net(ip, width), len(cols), "BSD"
    g = re.fullmatch(r"(\d{1,3})\.(\d{1,3})\.(\d{1,3})\.(\d{1,3})", cols[2], re.A)
    if g and wtxt is None and parts == 4 and all(str(int(x)) == x and int(x) < 256 for x in g.groups()):
        mk = int(ipaddress.IPv4Address(cols[2]))
        if is_contiguous(mk):
            return expected_net(ip, bin(mk).count("1")), len(cols), "Linux"
    return None


def netstat_line_what(line, ncols, layout, net, level):
    return ("netstat route line %r (%d columns, %s layout) is a usable IPv4 route (%s/%d) but was not advertised%s"
            % (" ".join(line.split()), ncols, layout, net[0], net[1], level))


def payload_nets(payload):
    """[(ipstr, width)] of a ROUTES payload ('2,a.b.c.d,w' lines), None if malformed"""
    ents = [ln.split(b",") for ln in payload.split(b"\n") if ln]
    if not all(len(e) == 3 and e[0] == b"2" and e[2].isdigit() for e in ents):
        return None
    return [(e[1].decode("latin-1"), int(e[2])) for e in ents]


def netstat_table_missing(text, got, only_kept=True):
    """text: `netstat -rn` output; got: advertised [(ipstr, width)] in order.  Every plainly interpretable route line that is
    neither default, loopback nor 0.x must be advertised with its canonical network, in the order printed.
    Returns None or (line, ncols, layout, net) of the first one that is not."""
    it = iter(got)
    for raw in text.split(b"\n"):
        ln = raw.decode("latin-1")
        s = spec_netstat_line(ln)
        if s is None or not kept(s[0][0]):
            continue
        if not any(g == s[0] for g in it):
            return ln, s[1], s[2], s[0]
    return None


# ---- property oracle for EVERY netmask value (contiguous or not), independent of sshuttle and of the model.
# A routing-table entry (dest, genmask) matches exactly the addresses x with x & genmask == dest & genmask.
# The advertisement "net/width" for that entry must (a) be canonical: no bit of net below the prefix is set;
# (b) be a network OF THAT ROUTE: every address inside net/width is matched by the entry.  For a contiguous
# genmask of width w this is implied by net/width == ip_network((dest, w)) (checked separately, exactly);
# for the other 2^32 - 33 genmasks (b) is what the property text still demands ("canonical network ... for
# every IPv4 route printed", "all netmask values"): an advertisement that is wider than the route makes the
# client intercept addresses the server has no route for.  Closed form of (b): no one-bit of the genmask
# lies below the prefix, and net agrees with dest on the genmask's bits.

def hostmask(width):
    return (1 << (32 - width)) - 1 if 0 <= width <= 32 else None


def route_oracle(dest, genmask, net, width):
    """returns None if net/width is a canonical network inside the route (dest, genmask), else
    (reason, witness address as dotted quad or None)"""
    hm = hostmask(width)
    if hm is None:
        return ("prefix length %d is not in 0..32" % width, None)
    if net & hm:
        return ("advertised address %s has bits set below the /%d prefix (not canonical)" % (quad(net), width), None)
    if (net ^ dest) & genmask:
        return ("advertised network %s/%d: its own address is not matched by the route %s mask %s"
                % (quad(net), width, quad(dest), quad(genmask)), quad(net))
    stray = hm & genmask
    if stray:
        x = net | (stray & -stray)        # inside net/width, differs from dest in a bit the route compares
        return ("advertised network %s/%d contains %s, which the route %s mask %s does not match"
                % (quad(net), width, quad(x), quad(dest), quad(genmask)), quad(x))
    return None


def genmask_samples(rng, nrandom):
    """netmask values: all 33 contiguous, every single bit, every pair of bits, every contiguous mask with one
    hole or one stray low bit, byte patterns, random dense / sparse / arbitrary 32-bit values"""
    ms = [(0xffffffff << (32 - w)) & 0xffffffff for w in range(33)]
    ms += [1 << i for i in range(32)]
    ms += [(1 << i) | (1 << j) for i in range(32) for j in range(i)]
    for w in range(1, 33):
        c = (0xffffffff << (32 - w)) & 0xffffffff
        ms += [c & ~(1 << i) & 0xffffffff for i in range(32 - w, 32)]        # one hole
        ms += [c | (1 << i) for i in range(0, 32 - w)]                        # one stray bit below
    ms += [0xff00ff00, 0xfff000ff, 0xfffffe01, 0xffc0ff00, 0x00ffffff, 0x7fffffff, 0xfffffffe ^ 0x80000000, 0x0000ffff,
           0xff0000ff, 0x80000001, 0xaaaaaaaa, 0x55555555, 0xffff00ff, 0x00000100, 0xfeffffff]
    for _ in range(nrandom):
        k = rng.random()
        if k < 0.4:
            ms.append(rng.getrandbits(32))
        elif k < 0.7:                       # contiguous with a few holes
            c = (0xffffffff << (32 - rng.randint(1, 32))) & 0xffffffff
            for _h in range(rng.randint(1, 3)):
                c &= ~(1 << rng.randrange(32))
            ms.append(c & 0xffffffff)
        else:                               # contiguous with a few stray bits
            c = (0xffffffff << (32 - rng.randint(0, 31))) & 0xffffffff
            for _h in range(rng.randint(1, 3)):
                c |= 1 << rng.randrange(32)
            ms.append(c)
    seen, out = set(), []
    for m in ms:
        if m not in seen:
            seen.add(m)
            out.append(m)
    return out


def is_contiguous(m):
    inv = ~m & 0xffffffff
    return (inv & (inv + 1)) == 0


def genmask_table(rows):
    """Linux `netstat -rn` text for rows of (dest, genmask), full dotted quads as net-tools prints them"""
    out = [b"Kernel IP routing table\n", b"Destination     Gateway         Genmask         Flags   MSS Window  irtt Iface\n"]
    for dest, m in rows:
        out.append(("%-15s %-15s %-15s U         0 0          0 eth0\n" % (quad(dest), "0.0.0.0", quad(m))).encode())
    return b"".join(out)


def genmask_table_failures(tool_result, rows):
    """evaluate route_oracle on what the real _list_routes returned ('OK a/w,b/w,...') for genmask_table(rows)"""
    if not tool_result.startswith("OK"):
        return [("route discovery raised %s on a well-formed netstat table" % tool_result, None, None)]
    items = [x.rsplit("/", 1) for x in tool_result[3:].split(",")] if len(tool_result) > 3 else []
    if len(items) != len(rows):
        return [("%d routes printed, %d advertised" % (len(rows), len(items)), None, None)]
    bad = []
    for k, ((dest, m), (a, w)) in enumerate(zip(rows, items)):
        r = route_oracle(dest, m, int(ipaddress.IPv4Address(a)), int(w))
        if r is not None:
            bad.append((r[0], r[1], k))
    return bad


JUNK_TOKENS = ["a/b/c", "x/", "x/yy", "/", "1.2.3.4/", "1.2.3.4/24/8", "300.1.2.3/24", "1.2.3.256/32", "1.2.3.4/-5",
               "1.2.3.4/-1", "10.0.0.0/+8", "10.0.0.0/1_6", "10.0.0.0/0x10", "08.1.1.1/8", "010.1.1.1/8", "1.2.3.0255/32",
               "1.2.3.4.5/8", "1..2/8", ".1/8", "1./8", "10.1.2.3/99", "10.1.2.3/033", "::1/128", "fe80::/64",
               "999999999999.1.1.1/8", "1.2.3.4/٣".encode("utf-8").decode("latin-1"), "1.2.3.4/2 4", "10.9.8.7/1__6", "10.9.8.7/_16",
               "10.9.8.7/16_", "10.0.0.0/-0", "10.0.0.0/--1", "x/5", "/5", "default/0", "default", "1.2.3.4/-2000"]


def junk_line(rng):
    k = rng.random()
    if k < 0.45:
        t = rng.choice(JUNK_TOKENS)
        return (rng.choice(["", " ", "\t"]) + t + rng.choice(["", " dev eth0", " via 1.2.3.4 dev eth0", " gw 300.1.1.1 U"]) + "\n").encode("latin-1")
    if k < 0.55:
        return bytes(rng.choice([0x1c, 0x1d, 0x1e, 0x1f, 0x20, 9]) for _ in range(rng.randint(1, 3))) + b"\n"
    if k < 0.65:
        return bytes(rng.randrange(256) for _ in range(rng.randint(1, 20))).replace(b"\n", b"") + b"\n"
    if k < 0.72:
        return rng.choice([b"\n", b"   \n", b"\t\r\n", b"\x0b\x0c\n"])
    if k < 0.78:
        # int() refuses more than 4300 digits (leading zeros count); keep the accepted ones cheap for the model
        n = rng.choice([4297, 4298, 4299, 5000])
        big = "0" * n + rng.choice(["24", "08", "255", "9"])
        return ("1.2.3.4/" + big + rng.choice(["", " dev eth0", " x 1.2.3.4/" + big]) + "\n").encode()
    if k < 0.84:
        return rng.choice([b"Kernel IP routing table\n", b"Destination     Gateway         Genmask         Flags   MSS Window  irtt Iface\n",
                           b"Routing tables\n", b"Internet:\n", b"Internet6:\n", b"Destination        Gateway            Flags        Refs      Use   Netif Expire\n",
                           b"fe80::%lo0/64 fe80::1%lo0 UcI lo0\n", b"::1 ::1 UHL lo0\n", b"10.1.2.3 dev eth0 scope link\n",
                           b"blackhole 10.66.0.0/16\n", b"unreachable 10.67.0.0/16 dev lo\n"])
    return (" ".join("".join(rng.choice("0123456789./ abcdefx_-+:") for _ in range(rng.randint(1, 12)))
                     for _ in range(rng.randint(1, 5))) + "\n").encode()


def abbreviate(rng, ip, w):
    """BSD abbreviated notation for a network whose trailing octets are zero; returns (text, parts)"""
    o = [ip >> 24, (ip >> 16) & 255, (ip >> 8) & 255, ip & 255]
    parts = 4
    while parts > 1 and o[parts - 1] == 0 and rng.random() < 0.8:
        parts -= 1
    return ".".join(str(x) for x in o[:parts]), parts


def gen_table(rng, fmt, n, junk_rate=0.0, hostbits=0.5, allow_special=True):
    """returns (text bytes, expected list of (ipstr, width) BEFORE the default/0.x/127.x filter,
    has_junk, wellformed_lines)"""
    out, exp = [], []
    if fmt == "netstat-linux":
        out += [b"Kernel IP routing table\n", b"Destination     Gateway         Genmask         Flags   MSS Window  irtt Iface\n"]
    elif fmt == "netstat-bsd":
        out += [b"Routing tables\n", b"\n", b"Internet:\n", b"Destination        Gateway            Flags        Refs      Use   Netif Expire\n"]
    has_junk = False
    for _ in range(n):
        while junk_rate and rng.random() < junk_rate:
            out.append(junk_line(rng))
            has_junk = True
        ip = rand_addr(rng)
        if not allow_special and (ip >> 24) in (0, 127):
            ip |= 1 << 29
        w = rng.choice([0, 1, 7, 8, 9, 15, 16, 17, 23, 24, 25, 30, 31, 32, rng.randint(0, 32)])
        if rng.random() >= hostbits and w < 32:
            ip &= ~((1 << (32 - w)) - 1)
        if fmt == "ip":
            k = rng.random()
            if k < 0.05 and allow_special:
                out.append(("default via %s dev eth0 proto dhcp metric 100\n" % quad(rand_addr(rng))).encode())
                continue
            if k < 0.15:
                # old iproute2 abbreviated destination a.b/w: zero-filled, width capped at 8 * parts
                ip = ip & ~((1 << (32 - w)) - 1) if w < 32 else ip
                txt, parts = abbreviate(rng, ip, w)
                line = "%s/%d dev eth%d scope link\n" % (txt, w, rng.randint(0, 3))
                w = min(w, 8 * parts)
                ctx_abbrev[0] += 1
            else:
                line = rng.choice(["%s/%d dev eth0 proto kernel scope link src 10.0.0.1\n", "%s/%d via 10.0.0.254 dev eth1\n",
                                   "%s/%d dev tun0 scope link metric 50 linkdown\n", "   %s/%d dev eth0\n", "%s/%d\n",
                                   "%s/%d\tdev\teth0\n"]) % (quad(ip), w)
            out.append(line.encode())
            exp.append(expected_net(ip, w))
        elif fmt == "netstat-linux":
            if rng.random() < 0.05 and allow_special:
                out.append(("default         %s     0.0.0.0         UG        0 0          0 eth0\n" % quad(rand_addr(rng))).encode())
                exp.append(("0.0.0.0", 0))
                continue
            mask = (0xffffffff << (32 - w)) & 0xffffffff
            if rng.random() < 0.12:      # exactly three columns: destination, gateway, genmask
                out.append(("%-15s %-15s %s\n" % (quad(ip), rng.choice(["0.0.0.0", quad(rand_addr(rng))]), quad(mask))).encode())
                ctx_abbrev[1] += 1
            else:
                out.append(("%-15s %-15s %-15s U         0 0          0 eth%d\n" % (quad(ip), rng.choice(["0.0.0.0", quad(rand_addr(rng))]), quad(mask), rng.randint(0, 3))).encode())
            exp.append(expected_net(ip, w))
        else:  # netstat-bsd: width lives in column 0, column 2 = flags
            k = rng.random()
            if k < 0.05 and allow_special:
                out.append(("default            %s        UGSc           10        0     en0\n" % quad(rand_addr(rng))).encode())
                exp.append(("0.0.0.0", 0))
                continue
            ipz = ip & ~((1 << (32 - w)) - 1) if w < 32 else ip
            if k < 0.6:
                txt, parts = abbreviate(rng, ipz, w)
            else:
                txt, parts = quad(ip), 4
                ipz = ip
            if parts < 4 and rng.random() < 0.5:
                dest, weff = txt, 8 * parts          # 'a.b.c' alone: /24
            elif rng.random() < 0.15 and parts == 4:
                dest, weff = txt, 32                 # host route
            else:
                wt = rng.choice([w, w, rng.randint(0, 32)])
                dest, weff = "%s/%d" % (txt, wt), min(wt, 8 * parts)
            gwc, flc = rng.choice(["link#4", quad(rand_addr(rng)), "0:1b:21:a:b:c"]), rng.choice(["UCS", "UGSc", "UHLWIi", "UH", "UmCS"])
            kc = rng.random()
            if kc < 0.3:        # exactly three columns: destination, gateway, flags (no refs/use/netif printed for the route)
                line = "%-18s %-18s %s\n" % (dest, gwc, flc) if rng.random() < 0.5 else "%s %s %s\n" % (dest, gwc, flc)
                ctx_abbrev[1] += 1
            elif kc < 0.45:     # four columns (FreeBSD >= 10: destination, gateway, flags, netif)
                line = "%-18s %-18s %-12s %s\n" % (dest, gwc, flc, "en0")
            elif kc < 0.55:     # seven columns (with an expire time)
                line = "%-18s %-18s %-12s %d %d %s %d\n" % (dest, gwc, flc, rng.randint(0, 9), rng.randint(0, 999), "en0", rng.randint(1, 1200))
            else:
                line = "%-18s %-18s %-12s %d %d %s\n" % (dest, gwc, flc, rng.randint(0, 9), rng.randint(0, 999), "en0")
            out.append(line.encode())
            exp.append(expected_net(ipz, weff))
    while junk_rate and rng.random() < junk_rate:
        out.append(junk_line(rng))
        has_junk = True
    if fmt == "netstat-bsd" and rng.random() < 0.5:
        out += [b"\n", b"Internet6:\n", b"Destination Gateway Flags Netif Expire\n", b"::1 ::1 UHL lo0\n", b"fe80::%lo0/64 fe80::1%lo0 UcI lo0\n"]
    text = b"".join(out)
    if text.endswith(b"\n") and rng.random() < 0.1:
        text = text[:-1]          # last line without terminator
    return text, exp, has_junk


ctx_abbrev = [0, 0]      # [abbreviated iproute2 destinations, three-column netstat lines] generated

WIN_SKIP = ("127.", "0.", "224.", "169.254.")
WIN_HEAD = [b"===========================================================================\r\n", b"Interface List\r\n",
            b" 12...00 1c 42 aa bb cc ......Intel(R) PRO/1000 MT Network Connection\r\n",
            b"  1...........................Software Loopback Interface 1\r\n",
            b"===========================================================================\r\n", b"\r\n", b"IPv4 Route Table\r\n",
            b"===========================================================================\r\n", b"Active Routes:\r\n",
            b"Network Destination        Netmask          Gateway       Interface  Metric\r\n"]
WIN_TAIL = [b"===========================================================================\r\n", b"Persistent Routes:\r\n"]


def win_row(dest, mask, gw, iface, metric, eol=b"\r\n"):
    return ("%17s %16s %16s %16s %6d" % (dest, mask, gw, iface, metric)).encode() + eol


def gen_windows_table(rng, n, junk_rate=0.0, hostbits=0.3, allow_special=True):
    """`route PRINT -4` text.  Returns (text, expected kept routes as coded, junk?, canonical networks of ALL On-link rows in order)"""
    eol = rng.choice([b"\r\n", b"\r\n", b"\n"])
    out = [ln.replace(b"\r\n", eol) for ln in WIN_HEAD] if rng.random() < 0.9 else []
    exp, onlink = [], []
    has_junk = False
    iface = quad(rand_addr(rng) | (1 << 29))
    for _ in range(n):
        while junk_rate and rng.random() < junk_rate:
            j = junk_line(rng)
            if rng.random() < 0.3:
                j = j.rstrip(b"\n") + b" On-link " + j
            out.append(j)
            has_junk = True
        ip = rand_addr(rng)
        w = rng.choice([0, 1, 4, 7, 8, 9, 15, 16, 17, 23, 24, 25, 30, 31, 32, 32, rng.randint(0, 32)])
        k = rng.random()
        if allow_special and k < 0.12:
            ip, w = rng.choice([(0x7f000000, 8), (0x7f000001, 32), (0x7fffffff, 32), (0xe0000000, 4), (0xffffffff, 32),
                                (0xa9fe0000, 16), (0xa9fe0101, 32), (0x00000000, 0), (0xa9ff0000, 16), (0xe1000000, 8), (0x7e000000, 8)])
        elif not allow_special and ((ip >> 24) in (0, 127, 224) or (ip >> 16) == 0xa9fe):
            ip = (ip & 0x00ffffff) | (10 << 24)
        if rng.random() >= hostbits and w < 32:
            ip &= ~((1 << (32 - w)) - 1)
        mask = (0xffffffff << (32 - w)) & 0xffffffff
        if 0.12 <= k < 0.3:          # a route through a gateway: not On-link, never advertised
            out.append(win_row(quad(ip), quad(mask), quad(rand_addr(rng)), iface, rng.randint(1, 400), eol))
            continue
        out.append(win_row(quad(ip), quad(mask), "On-link", iface, rng.randint(1, 400), eol))
        onlink.append(expected_net(ip, w))
        if w != 32 and not quad(ip).startswith(WIN_SKIP):
            exp.append(expected_net(ip, w))
    while junk_rate and rng.random() < junk_rate:
        out.append(junk_line(rng))
        has_junk = True
    if rng.random() < 0.8:
        out += [ln.replace(b"\r\n", eol) for ln in WIN_TAIL]
        out.append(rng.choice([b"  None" + eol, b"  Network Address          Netmask  Gateway Address  Metric" + eol
                               + b"          0.0.0.0          0.0.0.0      192.168.1.1  Default " + eol]))
    return b"".join(out), exp, has_junk, onlink


def win_genmask_table(rows):
    """`route PRINT -4` On-link rows for (dest, netmask) pairs, netmask any 32-bit value"""
    return b"".join(WIN_HEAD) + b"".join(win_row(quad(d), quad(m), "On-link", "10.0.0.1", 281) for d, m in rows)


def in_order(got, superset):
    it = iter(superset)
    return all(any(g == e for e in it) for g in got)


def sized_table(rng, target):
    """iproute2 table whose ROUTES payload is exactly `target` bytes (no filtered entries)"""
    pool = {}
    tries = 0
    while len(pool) < 7 and tries < 100000:      # "2,a.b.c.0,24\n" has 7 possible lengths (14 .. 20)
        tries += 1
        ip = rand_addr(rng) & 0xffffff00
        if (ip >> 24) in (0, 127):
            continue
        ln = len("2,%s,24\n" % quad(ip))
        pool.setdefault(ln, ip)
    routes, total = [], 0
    lens = sorted(pool)
    hi = lens[-1]
    while target - total > 3 * hi:
        ip = rand_addr(rng) & 0xffffff00
        if (ip >> 24) in (0, 127):
            continue
        routes.append(ip)
        total += len("2,%s,24\n" % quad(ip))
    rem = target - total
    # finish with up to 4 pool entries summing to rem
    def solve(rem, k):
        if rem == 0:
            return []
        if k == 0:
            return None
        for ln in lens:
            if ln <= rem:
                r = solve(rem - ln, k - 1)
                if r is not None:
                    return [pool[ln]] + r
        return None
    tail = solve(rem, 4)
    if tail is None:
        return None
    routes += tail
    text = "".join("%s/24 dev eth0 scope link\n" % quad(ip) for ip in routes).encode()
    return text, [(quad(ip), 24) for ip in routes]


def grammar_token(rng):
    def digits():
        k = rng.random()
        if k < 0.5:
            return str(rng.choice([0, 1, 9, 10, 99, 100, 127, 128, 255, 256, 300, rng.randint(0, 999)]))
        if k < 0.7:
            return "0" + str(rng.randint(0, 777))
        if k < 0.8:
            return "0" * rng.randint(1, 4)
        return "".join(rng.choice("0123456789") for _ in range(rng.randint(1, 12)))
    np_ = rng.randint(1, 4)
    s = ".".join(digits() for _ in range(np_))
    if rng.random() < 0.5:
        s += "/" + rng.choice([str(rng.randint(0, 40)), digits()])
    if rng.random() < 0.1:
        s += "\n"
    return s


def mutate(rng, s):
    alphabet = "0123456789./\n _-+:axd\t\x00\x1c"
    if not s or rng.random() < 0.34:
        i = rng.randint(0, len(s))
        return s[:i] + rng.choice(alphabet) + s[i:]
    i = rng.randrange(len(s))
    if rng.random() < 0.5:
        return s[:i] + s[i + 1:]
    return s[:i] + rng.choice(alphabet) + s[i + 1:]


# --------------------------------------------------------------------------
# G: the routing tool as a REAL process on a REAL pipe.
# A small program named ip / netstat / route is written to a temporary directory that is put first on PATH of a
# child interpreter only; the child runs the real list_routes() / server.main with the real subprocess.Popen (and the
# real which() for `ip`), so the kernel's pipe semantics apply: a pipe holds a bounded number of bytes (64 KiB on
# Linux), a writer that has more to say blocks until the reader reads, data arrives in chunks that do not end at line
# ends, and the exit status exists only after the tool has written everything.  A watchdog in the parent abandons a
# run that does not return (the child's whole process group, tool included, is killed).

REAL_LIMIT = 25.0          # seconds a real run may take before it is examined (it needs well under one second)
REAL_HARD_FACTOR = 6       # a run that still shows activity at REAL_LIMIT is given up to REAL_LIMIT * this

FAKE_TOOL_SRC = r'''import json, os, sys, time
d = os.path.dirname(os.path.abspath(__file__))
spec = json.load(open(os.path.join(d, "spec.json")))
if sys.argv[1:] != spec["args"]:
    os._exit(64)
data = open(os.path.join(d, "out.bin"), "rb").read()


def put(b):
    while b:
        k = os.write(1, b)
        b = b[k:]


time.sleep(spec.get("delay", 0))
pos = 0
try:
    for n, pause in spec["chunks"]:
        put(data[pos:pos + n])
        pos += n
        time.sleep(pause)
    put(data[pos:])
except OSError:
    os._exit(65)
os._exit(spec["rv"])
'''


def pipe_capacity():
    try:
        import fcntl
        r, w = os.pipe()
        try:
            return fcntl.fcntl(w, getattr(fcntl, "F_GETPIPE_SZ", 1032))
        finally:
            os.close(r)
            os.close(w)
    except Exception:
        return 65536


def real_table(fmt, n, salt):
    """deterministic table for a real run: (text, expected kept routes or None when the format's selection is 'as coded')"""
    import random
    if fmt == "ip-plain":
        text = "".join("10.%d.%d.0/24 dev eth0 scope link\n" % (i // 256, i % 256) for i in range(n)).encode()
        return text, [("10.%d.%d.0" % (i // 256, i % 256), 24) for i in range(n)]
    r = random.Random(salt)
    if fmt == "windows":
        text, _exp, _hj, _onl = gen_windows_table(r, n, allow_special=False)
        return text, None
    text, exp, _hj = gen_table(r, fmt, n, junk_rate=0.0, allow_special=False)
    return text, [e for e in exp if kept(e[0])]


def real_chunks(style, total, salt):
    """how the tool writes: [(bytes, pause after them)], the remainder in one write at the end"""
    import random
    r = random.Random(salt * 31 + 7)
    if style == "burst":
        return []
    if style == "pages":
        return [(4096, 0.0)] * min(total // 4096, 4000)
    out, pos, slept = [], 0, 0.0
    while pos < total and len(out) < 60 and slept < 1.5:
        k = r.choice([1, 7, 100, 1000, 4095, 4097, 9000, r.randint(1, 30000)])
        pause = r.choice([0.0, 0.005, 0.02, 0.04])
        out.append((k, pause))
        pos += k
        slept += pause
    return out


REAL_ARGS = {"ip": ["route"], "netstat": ["-rn"], "win": ["PRINT", "-4"]}
REAL_NAME = {"ip": "ip", "netstat": "netstat", "win": "route"}


def real_child():
    """runs in the child interpreter: reads the case from stdin, runs the real code, prints one JSON line"""
    import json
    spec = json.load(sys.stdin)
    text = b""      # the text comes from the tool, not from the harness
    if spec["mode"] == "main":
        st, payload, _wire = impl_server(spec["tool"], text, 0, real=True)
        res = "OK " + payload.decode("latin-1") if st == "OK" else "CRASH " + str(payload)
    else:
        res, _argvs = impl_list_routes(spec["tool"], text, 0, real=True)
    sys.stdout.write(json.dumps({"result": res}) + "\n")
    sys.stdout.flush()


def _group_state(pgid):
    """(total cpu ticks, states) of the processes of process group pgid, read from /proc"""
    ticks, states = 0, []
    for d in os.listdir("/proc"):
        if not d.isdigit():
            continue
        try:
            st = open("/proc/%s/stat" % d).read()
        except OSError:
            continue
        f = st[st.rfind(")") + 2:].split()
        if int(f[2]) != pgid:
            continue
        states.append(f[0])
        ticks += int(f[11]) + int(f[12])
    return ticks, states


def real_start(case):
    """start one real run; returns a handle for real_finish"""
    import json
    import subprocess
    import tempfile
    import time
    text, _exp = real_table(case["fmt"], case["n"], case["salt"])
    tool = case["tool"]
    d = tempfile.mkdtemp(prefix="c17-tool-")
    with open(os.path.join(d, "out.bin"), "wb") as f:
        f.write(text)
    with open(os.path.join(d, "spec.json"), "w") as f:
        json.dump({"args": REAL_ARGS[tool], "chunks": real_chunks(case["style"], len(text), case["salt"]),
                   "rv": case["rv"], "delay": case.get("delay", 0)}, f)
    exe = os.path.join(d, REAL_NAME[tool])
    with open(exe, "w") as f:
        f.write("#!%s -SE\n" % sys.executable + FAKE_TOOL_SRC)
    os.chmod(exe, 0o755)
    env = dict(os.environ)
    env["PATH"] = d + os.pathsep + env.get("PATH", os.defpath)     # the child's PATH only
    here = os.path.dirname(os.path.abspath(__file__))
    p = subprocess.Popen([sys.executable, "-c", "import sys; sys.path.insert(0, %r); import c17; c17.real_child()" % here],
                         stdin=subprocess.PIPE, stdout=subprocess.PIPE, stderr=subprocess.PIPE, env=env,
                         start_new_session=True, cwd=d)
    try:
        p.stdin.write(json.dumps({"mode": case["mode"], "tool": tool}).encode())
        p.stdin.close()
    except OSError:
        pass
    p.stdin = None
    return {"p": p, "dir": d, "t0": time.time(), "bytes": len(text)}


def real_finish(h, limit=None):
    """wait for a real run.  Returns ('OK ...' | 'CRASH ...' | 'HANG' | 'HARNESS ...', seconds, detail)"""
    import json
    import shutil
    import signal
    import subprocess
    import time
    limit = limit or REAL_LIMIT
    p = h["p"]
    out = err = b""
    verdict = None
    try:
        try:
            out, err = p.communicate(timeout=max(0.1, h["t0"] + limit - time.time()))
        except subprocess.TimeoutExpired:
            # not back after `limit`: stuck, or merely slow on a loaded machine?  A stuck run burns no CPU and all its
            # processes sleep; anything else is given more time, up to REAL_HARD_FACTOR * limit.
            while True:
                done, quiet = False, True
                t_prev, _st = _group_state(p.pid)
                for _ in range(8):
                    try:
                        out, err = p.communicate(timeout=0.4)
                        done = True
                        break
                    except subprocess.TimeoutExpired:
                        pass
                    t_now, states = _group_state(p.pid)
                    if t_now != t_prev or any(st != "S" for st in states):
                        quiet = False
                    t_prev = t_now
                if done:
                    break
                if quiet or time.time() - h["t0"] > limit * REAL_HARD_FACTOR:
                    _t, states = _group_state(p.pid)
                    verdict = ("HANG", ("%d processes of the run alive, all sleeping (states %s), no CPU time used during the last 3 s"
                                        % (len(states), "".join(states))) if quiet else "still running")
                    break
    finally:
        try:
            os.killpg(p.pid, signal.SIGKILL)      # the child and the tool it started
        except OSError:
            pass
        try:
            o2, e2 = p.communicate(timeout=30)
            out, err = out or o2, err or e2
        except Exception:
            pass
        shutil.rmtree(h["dir"], ignore_errors=True)
    secs = time.time() - h["t0"]
    if verdict is not None:
        return verdict[0], secs, verdict[1]
    try:
        return json.loads(out.decode().strip().split("\n")[-1])["result"], secs, ""
    except Exception:
        return "HARNESS child gave no result (exit status %r)" % p.returncode, secs, err.decode("latin-1")[-600:]


def real_expected(case):
    """spec side: what a real run must return - the canonical networks of the n lines printed (generator's intent
    through ipaddress); for `route PRINT` tables the selection of rows is 'as coded', so the text itself goes
    through the in-memory run, which is compared with the model elsewhere"""
    text, exp = real_table(case["fmt"], case["n"], case["salt"])
    if exp is None:
        ref, _a = impl_list_routes(case["tool"], text, 0)
        exp = [(x.rsplit("/", 1)[0], int(x.rsplit("/", 1)[1])) for x in ref[3:].split(",")] if len(ref) > 3 else []
    if case["mode"] == "main":
        return "OK " + "".join("2,%s,%d\n" % e for e in exp), len(text)
    return "OK " + ",".join("%s/%d" % e for e in exp), len(text)


REAL_HANG_WHAT = ("route discovery (%s) did not return within the time limit when the routing tool is a real process writing to a "
                  "real pipe and prints %s: the tool and the server wait for each other, the ROUTES message would never be sent "
                  "and the firewall never started")
REAL_DIFF_WHAT = ("the networks advertised for a routing tool running as a real process (output read through a real pipe, in the "
                  "chunks the kernel delivers) are not the canonical networks of the lines it printed")


def real_judge(case, res, secs, detail, cap, limit=None):
    """oracle on one real run; returns None (fine) or (what, replay dict)"""
    want, nbytes = real_expected(case)
    rp = dict(case)
    rp.update({"kind": "real-tool", "tool_output_bytes": nbytes, "pipe_capacity": cap, "seconds": round(secs, 1),
               "time_limit": limit or REAL_LIMIT})
    fn = "server.main -> list_routes" if case["mode"] == "main" else "list_routes"
    if res == "HANG":
        size = "more than a pipe holds (> %d bytes)" % cap if nbytes > cap else "no more than a pipe holds"
        rp["observed"] = "no result after %.0f s for %d lines / %d bytes of tool output (%s)" % (secs, case["n"], nbytes, detail)
        return REAL_HANG_WHAT % (fn, size), rp
    if res.startswith("HARNESS"):
        return None
    if res != want:
        rp["got"] = res[:300]
        rp["want"] = want[:300]
        rp["got_routes"], rp["want_routes"] = res.count("/") + res.count("\n"), want.count("/") + want.count("\n")
        if res.startswith("CRASH"):
            return "route discovery raised with the routing tool running as a real process", rp
        return REAL_DIFF_WHAT, rp
    return None


def real_cases(rng, quick, cap):
    """the real runs of a tier: table sizes from 0 to several thousand lines (thorough: 40000), below / at / above the
    pipe capacity, written at once / page by page / slowly in odd-sized chunks, exit status zero and non-zero"""
    edge, total = 0, 0               # edge lines of the plain table fit in the pipe, edge + 1 do not
    while total + len("10.%d.%d.0/24 dev eth0 scope link\n" % (edge // 256, edge % 256)) <= cap and edge < 60000:
        total += len("10.%d.%d.0/24 dev eth0 scope link\n" % (edge // 256, edge % 256))
        edge += 1
    S = lambda: rng.randrange(1 << 30)
    C = lambda mode, tool, fmt, n, style, rv=0, delay=0: {"mode": mode, "tool": tool, "fmt": fmt, "n": n, "style": style,
                                                          "rv": rv, "salt": S(), "delay": delay}
    cs = [C("lr", "ip", "ip", 0, "burst"),
          C("lr", "ip", "ip", rng.randint(1, 40), "slow", rv=rng.choice([0, 1])),
          C("lr", "netstat", "netstat-linux", rng.randint(100, 600), "slow", rv=rng.choice([0, 2])),
          C("lr", "ip", "ip-plain", edge, "burst"),
          C("lr", "ip", "ip-plain", edge + 1, "burst"),
          C("lr", "ip", "ip", rng.randint(1500, 3000), "pages", rv=1),
          C("lr", "netstat", "netstat-linux", rng.randint(1000, 2500), "burst"),
          C("lr", "netstat", "netstat-bsd", rng.randint(2500, 6000), "slow", rv=rng.choice([0, 255])),
          C("lr", "win", "windows", rng.randint(1200, 3000), "burst", rv=rng.choice([0, 1])),
          C("lr", "ip", "ip", rng.randint(4000, 9000), "slow", delay=0.3),
          C("main", "ip", "ip-plain", 2000, "burst"),
          C("main", "netstat", "netstat-linux", rng.randint(0, 60), "slow", rv=1),
          C("main", "ip", "ip", rng.randint(1000, 2900), "slow", rv=rng.choice([0, 1]))]
    if not quick:
        cs += [C("lr", "ip", "ip-plain", 40000, "burst"), C("lr", "netstat", "netstat-linux", 40000, "pages", rv=1),
               C("lr", "ip", "ip-plain", edge - 1, "slow"), C("lr", "ip", "ip-plain", edge + 2, "slow")]
        for _ in range(40):
            tool, fmt = rng.choice([("ip", "ip"), ("netstat", "netstat-linux"), ("netstat", "netstat-bsd"), ("win", "windows"), ("ip", "ip-plain")])
            mode = rng.choice(["lr", "lr", "main"])
            n = rng.choice([rng.randint(0, 50), rng.randint(50, 1200), rng.randint(800, 2900)] + ([rng.randint(2900, 20000)] if mode == "lr" else []))
            cs.append(C(mode, tool, fmt, n, rng.choice(["burst", "pages", "slow"]), rv=rng.choice([0, 0, 1, 127]), delay=rng.choice([0, 0, 0.2])))
    return cs


def real_runs(ctx, cases, cap, parallel=5):
    """run the cases (a few at a time) and apply the oracle"""
    pending = list(cases)
    running = []
    while pending or running:
        while pending and len(running) < parallel:
            c = pending.pop(0)
            running.append((c, real_start(c)))
        c, h = running.pop(0)
        res, secs, detail = real_finish(h)
        if res.startswith("HARNESS"):
            # the child interpreter itself failed (not the code under check): once more, alone
            res, secs, detail = real_finish(real_start(c))
        big = h["bytes"] > cap
        ctx.case(("real", sorted(c.items())), nontrivial=True,
                 sample={"kind": "real routing tool on a real pipe", "case": c, "tool_output_bytes": h["bytes"], "result": res[:60],
                         "seconds": round(secs, 2)} if c["n"] and c["mode"] == "lr" and big else None)
        ctx.count("real_tool_runs")
        ctx.count("real_tool_output_%s_pipe_capacity" % ("above" if big else "within"))
        ctx.count("real_tool_%s_%s" % (c["mode"], c["style"]))
        if c["rv"]:
            ctx.count("real_tool_exit_status_nonzero")
        if res.startswith("HARNESS"):
            ctx.disagree("real routing tool run: the harness's child interpreter gave no result", c, res, detail)
            continue
        v = real_judge(c, res, secs, detail, cap)
        if v is not None:
            ctx.violation(v[0], v[1])
    ctx.extra["real_tool_pipe_capacity"] = cap


# --------------------------------------------------------------------------

F7_WHAT = "F7: the route scanner raises on a line it cannot interpret instead of skipping it (server dies during start-up)"
F6_WHAT = "F6: the ROUTES advertisement exceeds 65535 bytes and Mux.send's assert kills the server"
F7_WITNESSES = [("ip", b"a/b/c dev eth0\n"), ("ip", b"x/ dev eth0\n"), ("ip", b"x/yy\n"), ("ip", b"300.1.1.1/8 dev eth0\n"),
                ("netstat", b"300.1.1.1 0.0.0.0 255.0.0.0 U 0 0 0 eth0\n"), ("ip", b"\x1c\n"), ("ip", b"\xc3\xa9th0/24\n"),
                ("ip", b"1.2.3.4/-%d dev eth0\n" % (2 ** 1024 - 2 ** 970))]


def split_both(o):
    a, b = o.split(" | ")
    return a, b


def first_bad_line(tool, text):
    for ln in io.BytesIO(text):
        if impl_lr(tool, ln).startswith("CRASH"):
            return ln
    return text


def correspondence(ctx):
    S = load()
    rng = ctx.rng
    quick = ctx.quick()
    server = S["server"]
    ctx.extra["python"] = sys.version.split()[0]
    ctx.extra["int_max_str_digits"] = getattr(sys, "get_int_max_str_digits", lambda: 0)()
    if ctx.extra["int_max_str_digits"] != 4300:
        ctx.notes.append("int_max_str_digits is %r, the model assumes 4300" % ctx.extra["int_max_str_digits"])

    # ---- A: the recogniser for the _ipmatch pattern and _ipmatch itself, single tokens (ASCII)
    toks = ["default", "default\n", "", "0", "1.2.3.4", "1.2.3.4\n", "1.2.3.4\n\n", "1.2.3.4/24\n", "10", "10/16", "10.1", "10.1.2",
            "10.1.2/30", "10.1/30", "10/30", "10/3", "1.2.3.4/", "256.1.1.1", "010.1.1.1", "08.1.1.1", "00.0.0.0", "0377.1.1.1",
            "0400.1.1.1", "1.2.3.4/033", "1.2.3.4 ", " 1.2.3.4", "1.2.3.4/+5", "4294967296", "1.2.3.255", "1.2.3.0255", "1.2.3.4.5",
            "1..2", ".1", "1.", "/", "/1", "1/", "1/2/3", "1.2.3.4/0", "1.2.3.4/32", "1.2.3.4/33", "0.0.0.0/0", "255.255.255.255",
            "1.2.3.4/" + "0" * 4298 + "24", "1.2.3.4/" + "0" * 4299 + "24", "1.2.3.4/" + "9" * 4301, "1.2.3.4/" + "0" * 4301,
            "1/" + "0" * 4299 + "7", "9" * 30 + ".1.1.1", "0" * 5000 + ".1.1.1", "0" * 5000 + "8.1.1.1",
            "1.2.3.4\x00", "1.2.3.4\r\n", "1.2.3.4\r", "Default", "default/0"]
    ngen = 1500 if quick else 40000
    for _ in range(ngen):
        t = grammar_token(rng)
        toks.append(t)
        ctx.count("tok_grammar")
        if rng.random() < 0.7:
            toks.append(mutate(rng, t))
            ctx.count("tok_near_miss")
    for _ in range(ngen // 3):
        toks.append("".join(chr(rng.choice([rng.randrange(128), rng.choice(b"0123456789./")])) for _ in range(rng.randint(0, 14))))
        ctx.count("tok_random_ascii")
    lines = ["RE " + hx(t.encode("latin-1")) for t in toks] + ["IPM " + hx(t.encode("latin-1")) for t in toks]
    out = ctx.run_driver(lines)
    nt = len(toks)
    for i, t in enumerate(toks):
        ire, iipm = impl_re(t), impl_ipm(t)
        ctx.case(("tok", t), nontrivial=(ire != "NONE"), sample={"kind": "_ipmatch", "input": repr(t)[:60], "result": iipm[:60]} if i % 997 == 5 else None)
        ctx.count("tok_match" if ire != "NONE" else "tok_nomatch")
        if iipm.startswith("CRASH"):
            ctx.count("tok_ipmatch_raises_" + iipm.split()[1])
        if ire != out[i]:
            ctx.disagree("_ipmatch regular expression vs recogniser", repr(t)[:200], ire[:200], out[i][:200])
        if iipm != out[nt + i]:
            ctx.disagree("_ipmatch", repr(t)[:200], iipm[:200], out[nt + i][:200])
        # spec oracle for canonical full dotted quads without leading zeros
        m = re.fullmatch(r"(\d+)\.(\d+)\.(\d+)\.(\d+)(?:/(\d+))?", t)
        if m and all(len(x) <= 3 and str(int(x)) == x and int(x) < 256 for x in m.groups()[:4]) and (m.group(5) is None or len(m.group(5)) < 6):
            want = "OK %d %d" % (int(ipaddress.IPv4Address(".".join(m.groups()[:4]))), int(m.group(5) or 32))
            if iipm != want:
                ctx.violation("_ipmatch misreads a canonical dotted quad", {"token": t, "got": iipm, "want": want})

    # ---- B: _maskbits on every contiguous mask (exhaustive), single-bit and random masks
    masks = [((0xffffffff << (32 - w)) & 0xffffffff, w) for w in range(33)]
    masks += [(1 << i, None) for i in range(32)] + [(rng.getrandbits(32), None) for _ in range(200 if quick else 5000)]
    out = ctx.run_driver(["MB %d" % m for m, _ in masks] + ["MB NONE"])
    for (m, w), o in zip(masks, out):
        got = str(server._maskbits((m, 32)))
        ctx.case(("mb", m), nontrivial=True)
        ctx.count("maskbits_contiguous" if w is not None else "maskbits_other")
        if got != o:
            ctx.disagree("_maskbits", m, got, o)
        if w is not None and got != str(w):
            ctx.violation("_maskbits wrong on a contiguous netmask", {"mask": m, "got": got, "want": w})
    if str(server._maskbits(None)) != out[-1]:
        ctx.disagree("_maskbits(None)", None, str(server._maskbits(None)), out[-1])
    ctx.extra["maskbits_contiguous_exhaustive"] = True

    # ---- B2: every netmask VALUE, contiguous or not - property oracle on the real code alone (route_oracle):
    #      (i) _maskbits: no one-bit of the genmask may lie below the prefix it returns;
    #      (ii) the real _list_routes on Linux-netstat tables carrying those genmasks: every advertised network is
    #           canonical and contains only addresses its routing-table entry matches.
    gms = genmask_samples(rng, 1500 if quick else 60000)
    out = ctx.run_driver(["MB %d" % m for m in gms])
    for m, o in zip(gms, out):
        got = server._maskbits((m, 32))
        ctx.case(("gm", m), nontrivial=True)
        ctx.count("genmask_contiguous" if is_contiguous(m) else "genmask_noncontiguous")
        if str(got) != o:
            ctx.disagree("_maskbits", m, str(got), o)
        hm = hostmask(got) if isinstance(got, int) else None
        if hm is None or (hm & m):
            stray = (hm & m) if hm is not None else 0
            ctx.violation("the prefix length derived from a netmask leaves one-bits of the mask outside the prefix: the advertised "
                          "network is wider than the route",
                          {"genmask": m, "genmask_text": quad(m), "maskbits": got,
                           "mask_bit_outside_prefix": quad(stray & -stray) if stray else None})
    rows_all = []
    for m in gms:
        dest = rand_addr(rng)
        if (dest >> 24) in (0, 127):
            dest |= 1 << 29
        if rng.random() < 0.7:
            dest &= m                       # what a kernel prints; the rest keeps bits outside the mask
        rows_all.append((dest, m))
    per = 97
    for k in range(0, len(rows_all), per):
        rows = rows_all[k:k + per]
        text = genmask_table(rows)
        im = impl_lr("netstat", text)
        ctx.case(("gmtab", text), nontrivial=True,
                 sample={"kind": "netstat table, arbitrary genmasks", "routes": len(rows), "head": text[120:200].decode(), "result": im[:60]}
                 if k == 0 else None)
        ctx.count("genmask_tables")
        mo = split_both(ctx.run_driver(["LR netstat %s" % hx(text)])[0])[0]
        if im != mo:
            ctx.disagree("_list_routes (netstat, arbitrary genmasks)", {"text_hex": hx(text)[:2000]}, im[:400], mo[:400])
        for reason, witness, idx in genmask_table_failures(im, rows):
            one = [rows[idx]] if idx is not None else rows
            ctx.violation("advertised network is not a network of the printed route (netstat Genmask): it contains addresses the "
                          "route does not match, or is not canonical",
                          {"kind": "genmask-table", "tool": "netstat", "rows": [[d, m] for d, m in one],
                           "line": genmask_table(one).split(b"\n")[2].decode(), "reason": reason, "address_not_routed": witness})
    ctx.extra["genmask_values_checked"] = len(gms)
    # the same through the real list_routes (no `ip` executable -> netstat fallback) and server.main's ROUTES frame;
    # rows with the top mask bit set and a first octet >= 128, so that no entry falls under the 0.x / 127.x filter
    rows = [(d | 0x80000000, m) for d, m in rows_all if m & 0x80000000 and not is_contiguous(m)][:80]
    rows += [(d | 0x80000000, m) for d, m in rows_all if m & 0x80000000 and is_contiguous(m)]
    text = genmask_table(rows)
    st_, payload, _wire = impl_server("netstat", text)
    ctx.case(("gmdeliv", text), nontrivial=True)
    ctx.count("genmask_delivery")
    if st_ != "OK":
        res = "CRASH " + payload
    else:
        ents = [ln.split(b",") for ln in payload.split(b"\n") if ln]
        res = "OK " + ",".join("%s/%s" % (e[1].decode(), e[2].decode()) for e in ents) \
            if all(len(e) == 3 and e[0] == b"2" for e in ents) else "CRASH malformed-ROUTES-payload"
    for reason, witness, idx in genmask_table_failures(res, rows):
        one = [rows[idx]] if idx is not None else rows
        ctx.violation("ROUTES message advertises a network that is not a network of the printed route (netstat Genmask)",
                      {"kind": "genmask-delivery", "tool": "netstat", "rows": [[d, m] for d, m in one],
                       "line": genmask_table(one).split(b"\n")[2].decode(), "reason": reason, "address_not_routed": witness})

    # the same netmask values in `route PRINT -4` On-link rows (Windows): every advertised network is canonical and inside its row
    def win_ok(d, m):
        return m != 0xffffffff and not quad(d).startswith(WIN_SKIP)
    wrows_all = [((d | 0x80000000) if not win_ok(d, m) and m != 0xffffffff else d, m) for d, m in rows_all]
    wrows_all = [(d, m) for d, m in wrows_all if win_ok(d, m)]
    for k in range(0, len(wrows_all), 197):
        rows = wrows_all[k:k + 197]
        text = win_genmask_table(rows)
        im = impl_lr("win", text)
        ctx.case(("wingmtab", text), nontrivial=True,
                 sample={"kind": "route PRINT table, arbitrary netmasks", "routes": len(rows), "result": im[:60]} if k == 0 else None)
        ctx.count("genmask_tables_windows")
        mo = split_both(ctx.run_driver(["LR win %s" % hx(text)])[0])[0]
        if im != mo:
            ctx.disagree("_list_routes (route PRINT, arbitrary netmasks)", {"text_hex": hx(text)[:2000]}, im[:400], mo[:400])
        for reason, witness, idx in genmask_table_failures(im, rows):
            one = [rows[idx]] if idx is not None else rows
            ctx.violation("advertised network is not a network of the printed route (route PRINT Netmask): it contains addresses the "
                          "route does not match, or is not canonical",
                          {"kind": "genmask-table", "tool": "win", "rows": [[d, m] for d, m in one],
                           "line": win_genmask_table(one).split(b"\r\n")[len(WIN_HEAD)].decode(), "reason": reason, "address_not_routed": witness})

    # netstat route lines that are plainly interpretable (spec_netstat_line) but not advertised: one report per kind of line
    # (layout x exactly-three-columns-or-more x level), the smallest table as the failing input
    ns_missed = {}

    def ns_note(level, level_text, fmt, text, miss, rv, got):
        ln, ncols, layout, net = miss
        key = (level, layout, ncols == 3)
        ctx.count("netstat_route_line_not_advertised")
        if key not in ns_missed or len(text) < len(ns_missed[key][1]["text_hex"]) // 2:
            ns_missed[key] = (netstat_line_what(ln, ncols, layout, net, level_text),
                              {"kind": "netstat-line", "level": level, "tool": "netstat", "format": fmt, "text_hex": hx(text), "line": ln,
                               "columns": ncols, "want": list(net), "got": got, "tool_exit_status": rv})

    def ns_flush():
        for key in sorted(ns_missed):
            ctx.violation(*ns_missed[key])
        ns_missed.clear()

    # ---- C: single lines through _route_iproute / _route_netstat / _route_windows (as found == repaired at this level)
    lines_txt = []
    for tk in JUNK_TOKENS + toks[:60]:
        for suffix in ("", " dev eth0", " gw 255.255.0.0 U", " gw 300.0.0.0", " gw 0xff"):
            lines_txt.append(tk + suffix)
    for _ in range(300 if quick else 6000):
        lines_txt.append(junk_line(rng).decode("latin-1"))
    lines_txt += ["1.2.3.4/-%d" % k for k in (1, 31, 32, 33, 1074, 1075, 2000)]
    big = 2 ** 1024 - 2 ** 970
    lines_txt += ["1.2.3.4/-%d x" % big, "1.2.3.4/-%d x" % (big - 1), "1.2.3.4/-%d" % (big * 10)]
    # `route PRINT -4` shaped lines: every junk token as destination x netmask column, On-link spelt with other blanks, missing columns
    win_masks = ["255.255.255.0", "255.255.255.255", "0.0.0.0", "255.0.255.0", "x", "24", "255.255", "300.0.0.0", "0377.0.0.0", "default", "255.255.255.255\n"]
    for tk in JUNK_TOKENS + toks[:60] + ["127.0.0.0", "127", "0.1.2.3", "224.0.0.0", "224", "169.254.0.0", "169.254", "169.25.4.0", "1127.0.0.0", "10.0.0.0"]:
        mk = rng.choice(win_masks)
        lines_txt.append("%17s %16s %16s %16s %6d\r\n" % (tk, mk, "On-link", "10.0.0.1", 281))
        lines_txt.append("%s %s On-link" % (tk, mk))
    for mk in win_masks:
        lines_txt.append("   10.1.2.3   %s   On-link   10.0.0.1   5\r\n" % mk)
    lines_txt += [" On-link ", "On-link", "  On-link  ", "a On-link ", " On-link b", "\x1cOn-link\x1c", "x\x1c On-link \x1c", "1.2.3.4\x1c255.0.0.0 On-link x",
                  "1.2.3.4\t255.0.0.0\tOn-link\tx", "1.2.3.4 255.0.0.0  On-link  x", "1.2.3.4 255.0.0.0 on-link x", "1.2.3.4 On-link 255.0.0.0 x",
                  "On-link 1.2.3.4 255.0.0.0 x", " On-link 1.2.3.4 255.0.0.0 x", "1.2.3.4 255.0.0.0 x On-link", "1.2.3.4 255.0.0.0 x On-link ",
                  "1.2.3.4 255.0.0.0 On-link On-link ", "1.2.3.4  On-link ", "10.0.0.0 255.0.0.0 10.0.0.1 10.0.0.2 25", "\x0c On-link \x0c"]
    for ln in list(lines_txt[:400]):
        if rng.random() < 0.15:
            lines_txt.append(ln.rstrip("\n") + " On-link " + rng.choice(["", "x", ln]))
    # `netstat -rn` shaped route lines with 3 .. 7 columns, BSD (abbreviated destinations, flags) and Linux (genmask) layout
    for _ in range(250 if quick else 5000):
        ip = rand_addr(rng)
        w = rng.choice([0, 8, 16, 24, 32, rng.randint(0, 32)])
        ipz = ip & ~((1 << (32 - w)) - 1) if w < 32 else ip
        gwc = rng.choice(["link#5", "0.0.0.0", quad(rand_addr(rng)), "0:1b:21:a:b:c", "*"])
        if rng.random() < 0.7:
            txt, parts = abbreviate(rng, ipz, w)
            dest = txt if rng.random() < 0.35 else "%s/%d" % (txt, rng.choice([w, w, rng.randint(0, 32)]))
            cols = [dest, gwc, rng.choice(["UCS", "UGSc", "UHLWIi", "UH", "U", "UmCS"])]
            extra = [str(rng.randint(0, 9)), str(rng.randint(0, 999)), "en0", str(rng.randint(1, 1200))]
        else:
            cols = [quad(rng.choice([ip, ipz])), gwc, quad((0xffffffff << (32 - w)) & 0xffffffff)]
            extra = ["U", "0", "0", "0", "eth0"]
        ncol = rng.choice([3, 3, 4, 6, rng.randint(3, 7)])
        lines_txt.append(rng.choice([" ", "  ", "\t", "     "]).join(cols + extra[:ncol - 3]) + rng.choice(["\n", "\n", ""]))
        ctx.count("line_netstat_shaped_%d_columns" % ncol)
    ascii_lines = [ln for ln in lines_txt if all(ord(c) < 128 for c in ln)]
    out = ctx.run_driver(["IPR " + hx(ln.encode()) for ln in ascii_lines] + ["NST " + hx(ln.encode()) for ln in ascii_lines]
                         + ["WIN " + hx(ln.encode()) for ln in ascii_lines])
    na = len(ascii_lines)
    for i, ln in enumerate(ascii_lines):
        a, b_, c_ = impl_extract("_route_iproute", ln), impl_extract("_route_netstat", ln), impl_extract("_route_windows", ln)
        ctx.case(("line", ln), nontrivial=(a != "NONE" or b_ != "NONE" or c_ != "NONE"))
        for what, im, mo in (("_route_iproute", a, out[i]), ("_route_netstat", b_, out[na + i]), ("_route_windows", c_, out[2 * na + i])):
            ctx.count("line_%s_%s" % (what, im.split()[0] if not im.startswith("CRASH") else "raises_" + im.split()[1]))
            if im != mo:
                ctx.disagree(what, repr(ln)[:300], im[:300], mo[:300])
        # property oracle on the implementation alone: a plainly interpretable netstat route line yields its canonical network
        sp = spec_netstat_line(ln)
        if sp is not None:
            ctx.count("line_netstat_spec_route_%s_%s_columns" % (sp[2], "3" if sp[1] == 3 else "4plus"))
            f = b_.split()
            have = expected_net(int(f[1]), min(int(f[2]), int(f[3]))) if f[0] == "OK" and 0 <= min(int(f[2]), int(f[3])) <= 32 else None
            if have != sp[0] and kept(sp[0][0]):
                one = (ln if ln.endswith("\n") else ln + "\n").encode()
                lr = impl_lr("netstat", one)
                if lr != "OK %s/%d" % sp[0]:
                    ns_note("_list_routes, one-line table", " (_route_netstat -> %s; _list_routes on this one-line table -> %s)" % (b_[:40], lr[:60]),
                            "one line", one, (ln, sp[1], sp[2], sp[0]), 0, lr[:80])

    # ---- D: whole tables through _list_routes; oracle = ipaddress on the generator's intent
    f7_seen = {}

    def table_case(tool, fmt, text, exp, has_junk, desc, superset=None, rv=0):
        o = ctx.run_driver(["LR %s %s" % (tool, hx(text))])[0]
        rep, asf = split_both(o)
        im = impl_lr(tool, text, rv)
        if rv:
            ctx.count("table_tool_exit_status_nonzero")
        ctx.case(desc, nontrivial=bool(exp) or has_junk,
                 sample={"kind": "_list_routes", "format": fmt, "routes": len(exp), "bytes": len(text), "junk": has_junk,
                         "head": text[:80].decode("latin-1"), "result": im[:80]} if rng.random() < 0.02 else None)
        if im == rep:
            pass
        elif im == asf:
            if im.startswith("CRASH"):
                bad = first_bad_line(tool, text)
                f7_seen.setdefault(im, (tool, bad))
                ctx.count("f7_tables_crashing")
            else:
                ctx.count("asfound_negative_width_route_kept")
        else:
            ctx.disagree("_list_routes", {"tool": tool, "text_hex": hx(text)[:2000]}, im[:400], (rep + " | " + asf)[:800])
        # property oracle on the implementation alone
        if im.startswith("CRASH"):
            return im
        got = [tuple(x.rsplit("/", 1)) for x in im[3:].split(",")] if len(im) > 3 else []
        got = [(a, int(b)) for a, b in got]
        if superset is not None:
            # Windows: which On-link rows are advertised is the model's business; each advertised network must be the
            # canonical network of a printed On-link row, in the order printed
            if not has_junk and not in_order(got, superset):
                bad = next((g for g in got if g not in superset), got[0] if got else None)
                ctx.violation("advertised network is not the canonical network of a printed On-link route (route PRINT)",
                              {"kind": "win-table", "tool": tool, "format": fmt, "text_hex": hx(text) if len(text) < 6000 else hx(text[:6000]),
                               "got_not_printed": list(bad) if bad else None, "printed_onlink": [list(e) for e in superset][:40]})
            if not has_junk and not in_order(exp, got):
                miss = next((e for e in exp if e not in got), exp[0] if exp else None)
                ctx.violation("a printed On-link route (no host route, not 127./0./224./169.254.) is not advertised (route PRINT)",
                              {"kind": "win-table", "tool": tool, "format": fmt, "text_hex": hx(text) if len(text) < 6000 else hx(text[:6000]),
                               "missing": list(miss) if miss else None, "printed_onlink": [list(e) for e in superset][:40],
                               "must_advertise": [list(e) for e in exp][:40]})
        elif tool == "netstat" and netstat_table_missing(text, got) is not None:
            # line by line, stated from the property text (spec_netstat_line); the failing input is the table
            ns_note("_list_routes", " (_list_routes on `netstat -rn` output)", fmt, text, netstat_table_missing(text, got), rv, [list(g) for g in got][:40])
        elif not has_junk and got != exp:
            k = next((i for i in range(min(len(got), len(exp))) if got[i] != exp[i]), min(len(got), len(exp)))
            ctx.violation("advertised network is not the canonical network of the printed route",
                          {"tool": tool, "format": fmt, "text_hex": hx(text) if len(text) < 4000 else hx(text[:4000]),
                           "index": k, "got": got[k:k + 1], "want": exp[k:k + 1], "tool_exit_status": rv})
        if has_junk and not (tool == "netstat" and netstat_table_missing(text, got) is not None):
            # junk lines may legitimately parse (random text); the well-formed routes must still appear in order
            it = iter(got)
            if not all(any(g == e for g in it) for e in exp):
                ctx.violation("a well-formed route is lost when junk lines are interleaved",
                              {"kind": "subseq", "tool": tool, "format": fmt, "text_hex": hx(text), "want_in_order": [list(e) for e in exp]})
        return im

    fmts = [("ip", "ip"), ("netstat", "netstat-linux"), ("netstat", "netstat-bsd")]
    ntab = 60 if quick else 10000
    for k in range(ntab):
        tool, fmt = fmts[k % 3]
        n = rng.choice([0, 1, 2, 3, 10, 50, rng.randint(0, 200)])
        jr = rng.choice([0.0, 0.0, 0.15, 0.4])
        text, exp, hj = gen_table(rng, fmt, n, junk_rate=jr)
        ctx.count("table_%s" % fmt)
        ctx.count("table_with_junk" if hj else "table_clean")
        ctx.count("table_routes", len(exp))
        if tool == "netstat":
            n3 = sum(1 for raw in text.split(b"\n") for sp in [spec_netstat_line(raw.decode("latin-1"))] if sp and sp[1] == 3)
            ctx.count("table_netstat_three_column_route_lines", n3)
        table_case(tool, fmt, text, exp, hj, ("tab", fmt, text), rv=rng.choice([0, 0, 0, 1, 2, 255]))
    for k in range(30 if quick else 4000):
        text, exp, hj, onl = gen_windows_table(rng, rng.choice([0, 1, 2, 3, 10, 50, rng.randint(0, 200)]), junk_rate=rng.choice([0.0, 0.0, 0.15, 0.4]))
        ctx.count("table_windows")
        ctx.count("table_with_junk" if hj else "table_clean")
        ctx.count("table_routes", len(exp))
        table_case("win", "windows", text, exp, hj, ("tab", "windows", text), superset=onl, rv=rng.choice([0, 0, 0, 1]))
    # exhaustive: every width x every abbreviated form x host bits (small scope)
    ex_lines_ip, ex_exp_ip, ex_lines_bsd, ex_exp_bsd, ex_lines_nl, ex_exp_nl = [], [], [], [], [], []
    base = [10, 77, 201, 254]
    for w in range(33):
        ipfull = (base[0] << 24) | (base[1] << 16) | (base[2] << 8) | base[3]
        ex_lines_ip.append("%s/%d dev eth0\n" % (quad(ipfull), w))
        ex_exp_ip.append(expected_net(ipfull, w))
        mask = (0xffffffff << (32 - w)) & 0xffffffff
        ex_lines_nl.append("%s 0.0.0.0 %s U 0 0 0 eth0\n" % (quad(ipfull), quad(mask)))
        ex_exp_nl.append(expected_net(ipfull, w))
        for parts in (1, 2, 3, 4):
            txt = ".".join(str(x) for x in base[:parts])
            ipz = 0
            for x in base[:parts]:
                ipz = (ipz << 8) | x
            ipz <<= 8 * (4 - parts)
            ex_lines_bsd.append("%s/%d link#4 UCS 0 0 en0\n" % (txt, w))
            ex_exp_bsd.append(expected_net(ipz, min(w, 8 * parts)))
            ex_lines_ip.append("%s/%d dev eth0\n" % (txt, w))
            ex_exp_ip.append(expected_net(ipz, min(w, 8 * parts)))
            if w == 0:
                ex_lines_bsd.append("%s link#4 UCS 0 0 en0\n" % txt)
                ex_exp_bsd.append(expected_net(ipz, 8 * parts))
    table_case("ip", "ip", "".join(ex_lines_ip).encode(), ex_exp_ip, False, "exhaustive-ip")
    table_case("netstat", "netstat-linux", "".join(ex_lines_nl).encode(), ex_exp_nl, False, "exhaustive-netstat-linux")
    table_case("netstat", "netstat-bsd", "".join(ex_lines_bsd).encode(), ex_exp_bsd, False, "exhaustive-netstat-bsd")
    ex_rows_win = [(quad((base[0] << 24) | (base[1] << 16) | (base[2] << 8) | base[3]), w) for w in range(33)]
    ex_text_win = b"".join(WIN_HEAD) + b"".join(win_row(d, quad((0xffffffff << (32 - w)) & 0xffffffff), "On-link", "10.0.0.1", 281) for d, w in ex_rows_win)
    ex_all_win = [expected_net(int(ipaddress.IPv4Address(d)), w) for d, w in ex_rows_win]
    got_win = table_case("win", "windows", ex_text_win, ex_all_win[:32], False, "exhaustive-windows", superset=ex_all_win)
    if got_win != "OK " + ",".join("%s/%d" % e for e in ex_all_win[:32]):
        ctx.disagree("route PRINT: one On-link row per prefix length 0..32", "exhaustive-windows", got_win[:300], "the 32 networks /0../31 (the /32 host route is not advertised)")
    ctx.extra["exhaustive_width_x_abbreviation"] = len(ex_lines_ip) + len(ex_lines_nl) + len(ex_lines_bsd) + len(ex_rows_win)
    # list_routes(): the tool choice.  The machine has exactly one routing tool (or none); the command started must be that tool's
    for tool, fmt in (("ip", "ip"), ("netstat", "netstat-linux"), ("netstat", "netstat-bsd"), ("win", "windows"), ("none", "ip")):
        for rv in (0, 1):
            if fmt == "windows":
                text, exp, _hj, onl = gen_windows_table(rng, 12, allow_special=False)
            else:
                text, exp, _hj = gen_table(rng, fmt, 12, allow_special=False)
            res, argvs = impl_list_routes(tool, text, rv)
            ctx.case(("list_routes", tool, rv, text), nontrivial=True)
            ctx.count("list_routes_tool_%s" % tool)
            want_argv = [TOOLS[tool][0]] if tool != "none" else []
            if argvs != want_argv:
                ctx.disagree("list_routes: command started for the routing table", {"only_tool": tool}, argvs, want_argv)
            mo = split_both(ctx.run_driver(["LR %s %s" % (tool, hx(text))])[0])[0]
            mo_f = "OK " + ",".join(x for x in mo[3:].split(",") if x and kept(x)) if mo.startswith("OK") else mo
            if res != mo_f:
                ctx.disagree("list_routes (tool choice + filter)", {"only_tool": tool, "text_hex": hx(text)[:2000]}, res[:300], mo_f[:300])
            wantk = [e for e in exp if kept(e[0])] if tool != "none" else []
            miss = None
            if tool == "netstat" and res.startswith("OK"):
                gotk = [(a, int(b)) for a, b in (x.rsplit("/", 1) for x in res[3:].split(",") if x)]
                miss = netstat_table_missing(text, gotk)
            if miss is not None:
                ns_note("list_routes", " (list_routes() with `netstat -rn` as the only routing tool)", fmt, text, miss, rv, [list(g) for g in gotk][:40])
            elif res != "OK " + ",".join("%s/%d" % e for e in wantk):
                if res.startswith("CRASH"):
                    ctx.violation("route discovery raised on a well-formed table", {"kind": "list_routes", "only_tool": tool, "tool_exit_status": rv,
                                                                                    "text_hex": hx(text), "exception": res.split()[1]})
                elif tool in ("ip", "netstat"):
                    ctx.violation("advertised networks are not the canonical networks of the printed routes (list_routes)",
                                  {"kind": "list_routes", "only_tool": tool, "tool_exit_status": rv, "text_hex": hx(text), "got": res[:300],
                                   "want": [list(e) for e in wantk]})

    ns_flush()

    # F7 witnesses (the Coq *_refuted witnesses) replayed on the real code
    for tool, wl in F7_WITNESSES:
        im = impl_lr(tool, wl)
        ctx.case(("f7w", tool, wl))
        ctx.count("f7_witness_" + ("raises" if im.startswith("CRASH") else "skipped"))
        if im.startswith("CRASH") and (im not in f7_seen or f7_seen[im] not in F7_WITNESSES):
            f7_seen[im] = (tool, wl)
    if f7_seen:
        # one violation, headed by the first design witness that still raises
        first = next(((im, tw) for (t0, w0) in F7_WITNESSES for im, tw in f7_seen.items() if tw == (t0, w0)), None) or sorted(f7_seen.items())[0]
        im, (tool, bad) = first
        ctx.violation(F7_WHAT, {"kind": "table", "tool": tool, "text_hex": hx(bad), "text": bad.decode("latin-1"), "exception": im.split()[1],
                                "exception_classes_seen": sorted(k.split()[1] for k in f7_seen)})

    # ---- E: server.main -> ROUTES frame -> client._main (delivery), incl. sizes around 65535 and big tables
    wire_fails = {}

    def wire_check(reference, wire, rp):
        """the advertisement on the wire (real Mux.flush on a non-blocking stdout -> real client-side Mux.handle)"""
        w = dict(LAST_WIRE)
        ctx.count("wire_writer_" + str(w.get("style")))
        ctx.count("wire_lbs_default" if w.get("lbs") == 32768 else "wire_lbs_other")
        fl = len(reference) + 8
        ctx.count("wire_frame_%s_lbs" % ("lt" if fl < w.get("lbs", 0) else "eq" if fl == w.get("lbs") else "gt"))
        cseed = rng.getrandbits(32)
        v = wire_judge(reference, wire, cseed)
        if v is None:
            return True
        rp = dict(rp, kind="wire", lbs=w.get("lbs"), writer=w.get("style"), writer_seed=w.get("wseed"), reader_seed=cseed,
                  n_routes=reference.count(b"\n"), payload_bytes=len(reference), observed=v[1])
        size = (w.get("lbs") != 32768, len(repr(rp)))      # prefer a witness at the default latency buffer size
        if v[0] not in wire_fails or size < wire_fails[v[0]][0]:
            wire_fails[v[0]] = (size, v[1], rp)
        return False

    def delivery_case(tool, fmt, text, exp, desc, check_client=True, rv=0, superset=None, lbs=None, wr=None, regen=None):
        expk = [e for e in exp if kept(e[0])]
        o = ctx.run_driver(["ADV %s %s" % (tool, hx(text))])[0]
        rep, asf = split_both(o)
        if lbs is None:
            lbs = rng.choice([32768, 32768, 1024, 4096, rng.randint(256, 70000)])
        if wr is None:
            wr = (rng.choice(WIRE_STYLES), rng.getrandbits(32))
        st, payload, wire = impl_server(tool, text, rv, lbs=lbs, wr=wr)
        if rv:
            ctx.count("delivery_tool_exit_status_nonzero")
        im = "OK " + hx(payload) if st == "OK" else "CRASH " + payload
        plen = len(payload) if st == "OK" else sum(len("2,%s,%d\n" % e) for e in expk)
        ctx.case(desc, nontrivial=True, sample={"kind": "delivery", "format": fmt, "routes": len(expk), "payload_bytes": plen, "server": im[:40]}
                 if rng.random() < 0.2 else None)
        ctx.count("delivery_payload_le_65535" if plen <= 65535 else "delivery_payload_gt_65535")
        if im != rep and not (im == asf and im.startswith("CRASH")):
            ctx.disagree("server.main ROUTES payload", {"tool": tool, "text_hex": hx(text)[:2000]}, im[:300], o[:600])
        if st != "OK":
            rp = {"kind": "delivery", "tool": tool, "n_routes": len(expk), "payload_bytes": plen, "exception": payload, "tool_exit_status": rv,
                  "text_hex": hx(text) if len(text) < 3000 else None, "regen": desc if isinstance(desc, (list, tuple)) else None}
            if payload == "AssertionError" and plen > 65535:
                rp["finding_id"] = "F6"
                if not ctx.known_hits:
                    ctx.known("F6", "ROUTES payload of %d bytes (%d routes) > 65535: Mux.send assert kills the server" % (plen, len(expk)))
                ctx.violation(F6_WHAT, rp)
            elif im == asf and im != rep:
                pass     # F7 crash, already reported above through _list_routes
            else:
                ctx.violation("server dies while advertising routes", rp)
            return
        want_payload = "".join("2,%s,%d\n" % e for e in expk).encode()
        if superset is not None:
            ents = [tuple(ln.split(b",")) for ln in payload.split(b"\n") if ln]
            gotn = [(e[1].decode("latin-1"), int(e[2])) for e in ents if len(e) == 3 and e[0] == b"2" and e[2].isdigit()]
            if len(gotn) != len(ents) or not in_order(gotn, superset):
                ctx.violation("ROUTES payload advertises something that is not the canonical network of a printed On-link route (route PRINT)",
                              {"kind": "delivery", "tool": tool, "text_hex": hx(text)[:6000], "got": payload[:200].decode("latin-1"),
                               "want": want_payload[:200].decode("latin-1"), "tool_exit_status": rv, "in_order_of": [list(e) for e in superset][:60]})
            elif not in_order(expk, gotn):
                ctx.violation("ROUTES payload lacks a printed On-link route (no host route, not 127./0./224./169.254.) (route PRINT)",
                              {"kind": "delivery", "tool": tool, "text_hex": hx(text)[:6000], "got": payload[:200].decode("latin-1"),
                               "want": want_payload[:200].decode("latin-1"), "tool_exit_status": rv, "in_order_of": [list(e) for e in superset][:60],
                               "must_advertise": [list(e) for e in expk][:60]})
            expk = gotn      # what the client must then add
        elif payload != want_payload:
            miss = None
            if tool == "netstat":
                gotn = payload_nets(payload)
                miss = netstat_table_missing(text, gotn) if gotn is not None else None
            if miss is not None:
                # the precise report: which printed route line is missing from the ROUTES message (the client's plan follows the message)
                ns_note("server.main", " (ROUTES message of server.main, `netstat -rn` the only routing tool)", fmt, text, miss, rv,
                        payload[:200].decode("latin-1"))
                return
            ctx.violation("ROUTES payload differs from the canonical networks of the table",
                          {"kind": "delivery", "tool": tool, "text_hex": hx(text)[:6000], "got": payload[:200].decode("latin-1"),
                           "want": want_payload[:200].decode("latin-1"), "tool_exit_status": rv})
        # what was queued must leave the server and reach the client's route handler whole (every size, every writer)
        if not wire_check(payload, wire, dict(regen) if regen else
                          {"tool": tool, "tool_exit_status": rv, "text_hex": hx(text) if len(text) <= 300000 else None}):
            return
        if not check_client:
            return
        for (auto, v4, v6) in ((True, True, False),) + (((True, True, True), (False, True, False), (True, False, True)) if len(expk) < 50 else ()):
            got, ordered = impl_client(auto, v4, v6, wire)
            mo = ctx.run_driver(["RT %d %d %d %s %s" % (auto, v4, v6, tool, hx(text))])[0]
            ctx.case((desc, auto, v4, v6))
            ctx.count("client_runs")
            if got != mo:
                ctx.disagree("client onroutes after server advertise", {"tool": tool, "text_hex": hx(text)[:2000], "auto": auto, "v4": v4, "v6": v6},
                             got[:400], mo[:400])
            want = "1 - " + (";".join("2,%s,%d" % (hx(e[0].encode()), e[1]) for e in expk) if (auto and v4 and expk) else "-")
            if got != want or not ordered:
                ctx.violation("client did not add exactly the advertised networks before starting the firewall",
                              {"kind": "delivery", "tool": tool, "text_hex": hx(text)[:6000], "auto_nets": auto, "v4": v4, "v6": v6,
                               "got": got[:300], "want": want[:300]})

    for k in range(24 if quick else 600):
        tool, fmt = fmts[k % 3]
        n = rng.choice([0, 1, 2, 5, 30, rng.randint(0, 400)])
        text, exp, hj = gen_table(rng, fmt, n, junk_rate=0.0)
        delivery_case(tool, fmt, text, exp, ("deliv", fmt, text), rv=rng.choice([0, 0, 1, 127]))
    for k in range(8 if quick else 200):
        n = rng.choice([0, 1, 2, 5, 30, rng.randint(0, 400)])
        text, exp, hj, onl = gen_windows_table(rng, n)
        ctx.count("delivery_windows")
        delivery_case("win", "windows", text, exp, ("deliv", "windows", text), rv=rng.choice([0, 0, 1]), superset=onl)
    for rv in (0, 1):
        # a machine with neither `ip` nor `netstat`: the (empty) advertisement is still delivered and the firewall started
        ctx.count("delivery_no_routing_tool")
        delivery_case("none", "none", gen_table(rng, "ip", 5)[0], [], ("deliv", "none", rv), rv=rv)
    ns_flush()
    for target in ([65535, 65536] if quick else [65533, 65534, 65535, 65536, 65537, 65600]):
        st = sized_table(rng, target)
        if st is None:
            ctx.notes.append("could not build a table with payload size %d" % target)
            continue
        text, exp = st
        ctx.count("delivery_exact_size_%d" % target)
        delivery_case("ip", "ip", text, exp, ["sized", target])
    # ---- E2: the size of the frame against the writer: payload + 8 bytes of header just below / at / above the latency
    #      buffer size (default 32768 and small values), up to 65535, every writer style; table sizes 0 .. ~4600 routes.
    #      A few go the whole way (model, real client._main on the real wire bytes); the sweep runs server.main + wire only.
    def sized_regen(target, tseed):
        return sized_table(random.Random(tseed), target)

    def fresh_tseed(target):
        # a few remainders cannot be met by the last four entries: try other tables of the same size
        for _ in range(8):
            tseed = rng.getrandbits(32)
            if sized_regen(target, tseed) is not None:
                return tseed
        return rng.getrandbits(32)

    full = [(32768, 32760, "whole"), (32768, 32761, "rand"), (32768, 49000 + rng.randint(0, 16000), "pipe"), (1024, 1017, "page"),
            (4096, 4089 + rng.randint(0, 3000), "rand")]
    if not quick:
        full += [(l, t, sty) for l in (32768, 1024, 4096, 20000) for t in (l - 9, l - 8, l - 7, l, 2 * l - 8, 2 * l - 7) if 100 < t <= 65535
                 for sty in ("whole", "rand")]
    for (l, target, sty) in full:
        tseed = fresh_tseed(target)
        st = sized_regen(target, tseed)
        if st is None:
            ctx.notes.append("could not build a table with payload size %d" % target)
            continue
        text, exp = st
        ctx.count("delivery_frame_vs_lbs_full")
        delivery_case("ip", "ip", text, exp, ["sized-wire", l, target, sty], lbs=l, wr=(sty, rng.getrandbits(32)),
                      regen={"tool": "ip", "tool_exit_status": 0, "sized_target": target, "table_seed": tseed})
    sweep = []
    for l in (32768, 1024, 4096, rng.randint(256, 65000)):
        ts = [0, 14, l - 9, l - 8, l - 7, l, l + 1, 2 * l - 8, 2 * l - 7, 3 * l, 65535, 65534,
              rng.randint(l - 7, 65535), rng.randint(l - 7, 65535), rng.randint(l - 7, 65535), rng.randint(0, 65535)]
        if l == 32768:
            ts += [32767, 32769, 40000, 49152, 65527, 65528]
        if not quick:
            ts += [rng.randint(0, 65535) for _ in range(40)] + [rng.randint(l - 7, min(65535, 2 * l)) for _ in range(20)]
        for t in ts:
            if 0 <= t <= 65535:
                sweep.append((l, t))
    for (l, target) in sweep:
        tseed = fresh_tseed(target) if target >= 28 else rng.getrandbits(32)
        st = sized_regen(target, tseed) if target else (b"default via 10.0.0.1 dev eth0\n", [])
        if st is None:
            continue        # sizes no table has (1 .. 13, ...)
        text, exp = st
        want_payload = "".join("2,%s,%d\n" % e for e in exp).encode()
        for sty in (WIRE_STYLES if (quick and l in (32768, 1024)) or not quick else (rng.choice(WIRE_STYLES),)):
            wseed = rng.getrandbits(32)
            st_, payload, wire = impl_server("ip", text, 0, lbs=l, wr=(sty, wseed))
            ctx.case(("wire", l, target, sty, tseed, wseed), nontrivial=True,
                     sample={"kind": "wire", "routes": len(exp), "payload_bytes": target, "latency_buffer_size": l, "writer": sty,
                             "flush_passes": LAST_WIRE.get("rounds")} if rng.random() < 0.02 else None)
            ctx.count("wire_sweep")
            if st_ != "OK":
                ctx.violation("server dies while advertising routes",
                              {"kind": "wire", "tool": "ip", "tool_exit_status": 0, "sized_target": target, "table_seed": tseed, "lbs": l,
                               "writer": sty, "writer_seed": wseed, "reader_seed": 0, "exception": payload, "n_routes": len(exp)})
                continue
            # reference = the canonical networks of the routing table (not what the server queued)
            wire_check(want_payload, wire, {"tool": "ip", "tool_exit_status": 0, "sized_target": target, "table_seed": tseed})
    for cls in sorted(wire_fails):
        _sz, sentence, rp = wire_fails[cls]
        ctx.violation(sentence, rp)

    for n in ([3495, 3500, 3505, 5000, 40000] if quick else [3000, 3495, 3500, 3505, 4000, 5000, 10000, 20000, 40000]):
        tool, fmt = fmts[n % 3] if n != 5000 else ("ip", "ip")
        if n == 5000:
            # the witness of DESIGN.md: 5000 /24 routes
            text = "".join("10.%d.%d.0/24 dev eth0 scope link\n" % (i // 256, i % 256) for i in range(n)).encode()
            exp = [("10.%d.%d.0" % (i // 256, i % 256), 24) for i in range(n)]
        else:
            text, exp, _ = gen_table(rng, fmt, n, junk_rate=0.0, allow_special=False)
        ctx.count("delivery_big_%d" % n)
        # big tables also go through _list_routes (quick tier: the 40000-route table only through server.main)
        if n <= 5000 or not quick:
            table_case(tool, fmt, text, exp, False, ["bigtab", n])
        delivery_case(tool, fmt, text, exp, ["big", n], check_client=(n <= 5000))

    # ---- G: the routing tool as a real process on a real pipe (sizes below / at / above the pipe capacity, slow writers,
    #      non-zero exit status after printing), through the real list_routes() and the real server.main, under a watchdog
    cap = pipe_capacity()
    real_runs(ctx, real_cases(rng, quick, cap), cap)

    # ---- F: client onroutes on arbitrary payloads (well-formed renderings + malformed)
    pays = [b"", b"\n", b"\n\n", b"2,1.2.3.0,24\n", b"2,1.2.3.0,24", b"2,1.2.3.0,24\r\n2,10.0.0.0,8\r\n", b" 2 ,1.2.3.0, 24 \n",
            b"2,1.2.3.0\n", b"2\n", b"x,1.2.3.0,24\n", b"2,1.2.3.0,x\n", b"2,1.2.3.0,2_4\n", b"+2,1.2.3.0,-4\n", b"10,fe80::,64\n",
            b"2,\xc3\xa9,24\n", b"2,1.2.3.0,24,extra\n", b"2,1.2.3.0,24\n\n2,10.0.0.0,8\n", b"2,1.2.3.0,24\nbad\n2,10.0.0.0,8\n",
            b"\t2,1.2.3.0,24\n ", b"2,,0\n", b",,\n", b"2,a b,3\n", b"02,1.2.3.0,024\n", b"2,1.2.3.0," + b"9" * 4301 + b"\n",
            b"30,1.2.3.0,24\n", b"2,1.2.3.0,24\x0b\n"]
    for _ in range(60 if quick else 2000):
        n = rng.randint(0, 6)
        p = b"".join(b"%d,%s,%d\n" % (rng.choice([2, 2, 2, 10, 30]), quad(rand_addr(rng)).encode(), rng.randint(0, 32)) for _ in range(n))
        if rng.random() < 0.5 and p:
            i = rng.randrange(len(p))
            p = p[:i] + bytes([rng.choice(b",\n 2x_\xff\r")]) + p[i + rng.randint(0, 1):]
            ctx.count("onroutes_mutated")
        else:
            ctx.count("onroutes_wellformed")
        pays.append(p)
    lines, impls = [], []
    for p in pays:
        for (auto, v4, v6) in ((True, True, False), (True, False, True), (False, True, True)):
            lines.append("ONR %d %d %d %s" % (auto, v4, v6, hx(p)))
            impls.append(impl_client(auto, v4, v6, SYNC + frame(S["ssnet"].CMD_ROUTES, p))[0])
    out = ctx.run_driver(lines)
    for ln, im, mo in zip(lines, impls, out):
        ctx.case(("onr", ln), nontrivial=True, sample={"kind": "onroutes", "case": ln[:80], "result": im[:80]} if rng.random() < 0.01 else None)
        if im != mo:
            ctx.disagree("client onroutes", ln[:400], im[:300], mo[:300])
    ctx.programs = ctx.evaluations


def replay(ctx, rp):
    """re-run a stored failing input against the real code; returns True if it still fails"""
    load()
    r = rp.get("replay", {})
    if r.get("kind") == "real-tool":
        case = {k: r[k] for k in ("mode", "tool", "fmt", "n", "style", "rv", "salt")}
        case["delay"] = r.get("delay", 0)
        cap = pipe_capacity()
        res, secs, detail = real_finish(real_start(case))
        v = real_judge(case, res, secs, detail, cap)
        print("%s with a real `%s` printing %d lines (%d bytes, pipe capacity %d, written %s, exit status %d) -> %s after %.1f s %s"
              % ("server.main" if case["mode"] == "main" else "list_routes()", REAL_NAME[case["tool"]], case["n"], real_expected(case)[1], cap,
                 case["style"], case["rv"], res[:120].replace("\n", " "), secs, detail))
        if v is not None:
            print("property failure:", v[0])
        return v is not None or res.startswith("HARNESS")
    if r.get("kind") == "wire":
        want = None
        if r.get("sized_target") is not None:
            if r["sized_target"] == 0:
                text, exp = b"default via 10.0.0.1 dev eth0\n", []
            else:
                text, exp = sized_table(random.Random(r["table_seed"]), r["sized_target"])
            want = "".join("2,%s,%d\n" % e for e in exp).encode()
        elif r.get("text_hex"):
            text = bytes.fromhex(r["text_hex"]) if r["text_hex"] != "-" else b""
        else:
            print("the routing table of this case was too large to store")
            return False
        st, payload, wire = impl_server(r.get("tool", "ip"), text, r.get("tool_exit_status", 0), lbs=r.get("lbs", 32768),
                                        wr=(r.get("writer", "whole"), r.get("writer_seed", 0)))
        if st != "OK":
            print("server.main with %d bytes of tool output -> %s %s" % (len(text), st, payload))
            return not (payload == "AssertionError" and len(want or b"") > 65535)
        v = wire_judge(want if want is not None else payload, wire, r.get("reader_seed", 0))
        print("server.main (latency buffer size %s) queued a ROUTES message of %d payload bytes (%d routes); real Mux.flush on a '%s' "
              "non-blocking stdout: %d passes, %d of %d bytes reached the client, %d still queued"
              % (r.get("lbs"), len(payload), payload.count(b"\n"), r.get("writer"), LAST_WIRE.get("rounds", 0),
                 len(wire) - len(SYNC), LAST_WIRE.get("queued", 0), LAST_WIRE.get("left", 0)))
        print("property failure: " + v[1] if v else "the client's route handler received exactly the advertised list")
        return v is not None
    if r.get("kind") == "table" and r.get("text_hex"):
        text = bytes.fromhex(r["text_hex"]) if r["text_hex"] != "-" else b""
        got = impl_lr(r["tool"], text)
        print("_list_routes(%s) on %r -> %s" % (r["tool"], text[:200], got[:200]))
        return got.startswith("CRASH")
    if r.get("kind") == "netstat-line":
        text = bytes.fromhex(r["text_hex"])
        if r.get("level") == "list_routes":
            got, _argvs = impl_list_routes("netstat", text, r.get("tool_exit_status", 0))
        elif r.get("level") == "server.main":
            st, payload, _w = impl_server("netstat", text, r.get("tool_exit_status", 0))
            nets = payload_nets(payload) if st == "OK" else None
            got = "CRASH %s" % (payload if st != "OK" else "malformed-ROUTES-payload") if nets is None else "OK " + ",".join("%s/%d" % e for e in nets)
        else:
            got = impl_lr("netstat", text, r.get("tool_exit_status", 0))
        print("%s on the `netstat -rn` output\n%s-> %s" % ({"list_routes": "list_routes()", "server.main": "ROUTES message of server.main"}.get(r.get("level"), "_list_routes"), text[:1500].decode("latin-1"), got[:300]))
        if got.startswith("CRASH"):
            return True
        gotl = [(a, int(b)) for a, b in (x.rsplit("/", 1) for x in got[3:].split(",") if x)]
        miss = netstat_table_missing(text, gotl)
        if miss is not None:
            print("property failure:", netstat_line_what(miss[0], miss[1], miss[2], miss[3], ""))
        else:
            print("every plainly interpretable route line (not default, loopback or 0.x) is advertised with its canonical network, in order")
        return miss is not None
    if r.get("kind") == "subseq":
        text = bytes.fromhex(r["text_hex"])
        got = impl_lr(r["tool"], text)
        items = [x.rsplit("/", 1) for x in got[3:].split(",")] if got.startswith("OK ") and len(got) > 3 else []
        it = iter([[a, int(b)] for a, b in items])
        ok = all(any(g == e for g in it) for e in r["want_in_order"])
        print("_list_routes(%s): %d routes, expected well-formed ones present in order: %s" % (r["tool"], len(items), ok))
        return not ok
    if "index" in r and r.get("text_hex"):
        text = bytes.fromhex(r["text_hex"])
        got = impl_lr(r["tool"], text)
        items = got[3:].split(",") if got.startswith("OK ") and len(got) > 3 else []
        k = r["index"]
        have = [list((lambda a, b: (a, int(b)))(*items[k].rsplit("/", 1)))] if k < len(items) else []
        print("_list_routes(%s) entry %d -> %r, canonical network %r" % (r["tool"], k, have, r.get("want")))
        return got.startswith("CRASH") or have != [list(x) for x in r.get("want", [])]
    if r.get("kind") == "delivery" and "want" in r and r.get("text_hex"):
        text = bytes.fromhex(r["text_hex"])
        st, payload, wire = impl_server(r.get("tool", "ip"), text, r.get("tool_exit_status", 0))
        if st != "OK":
            print("server.main ->", st, payload)
            return True
        if "in_order_of" in r:
            ents = [tuple(ln.split(b",")) for ln in payload.split(b"\n") if ln]
            gotn = [(e[1].decode("latin-1"), int(e[2])) for e in ents if len(e) == 3 and e[0] == b"2" and e[2].isdigit()]
            ok = (len(gotn) == len(ents) and in_order(gotn, [tuple(e) for e in r["in_order_of"]])
                  and in_order([tuple(e) for e in r.get("must_advertise", [])], gotn))
            print("payload %r; every entry the canonical network of a printed On-link row, in order: %s" % (payload[:200], ok))
            return not ok
        if "auto_nets" in r:
            got, ordered = impl_client(r["auto_nets"], r["v4"], r["v6"], wire)
            print("client outcome %s (want %s)" % (got[:200], r["want"][:200]))
            return got[:300] != r["want"] or not ordered
        print("payload %r (want %r)" % (payload[:200], r["want"]))
        return payload[:200].decode("latin-1") != r["want"]
    if r.get("kind") == "win-table":
        text = bytes.fromhex(r["text_hex"])
        got = impl_lr("win", text)
        items = [x.rsplit("/", 1) for x in got[3:].split(",")] if got.startswith("OK ") and len(got) > 3 else []
        sup = [tuple(e) for e in r["printed_onlink"]]
        gotl = [(a, int(b)) for a, b in items]
        ok = got.startswith("OK") and in_order(gotl, sup) and in_order([tuple(e) for e in r.get("must_advertise", [])], gotl)
        print("_list_routes(route PRINT) -> %s; each the canonical network of a printed On-link row, in order, none missing: %s" % (got[:200], ok))
        return not ok
    if r.get("kind") == "list_routes":
        text = bytes.fromhex(r["text_hex"])
        res, argvs = impl_list_routes(r["only_tool"], text, r.get("tool_exit_status", 0))
        print("list_routes() with only %r installed (exit status %r): commands %r -> %s" % (r["only_tool"], r.get("tool_exit_status", 0), argvs, res[:200]))
        if res.startswith("CRASH"):
            return True
        return "want" in r and res != "OK " + ",".join("%s/%d" % tuple(e) for e in r["want"])
    if r.get("kind") in ("genmask-table", "genmask-delivery"):
        rows = [(int(d), int(m)) for d, m in r["rows"]]
        if r.get("tool") == "win":
            text = win_genmask_table(rows)
            res = impl_lr("win", text)
            fails = genmask_table_failures(res, rows)
            print("route PRINT table:\n%s-> %s" % (text.decode(), res[:300]))
            for reason, witness, _k in fails[:5]:
                print("property failure:", reason)
            return bool(fails)
        text = genmask_table(rows)
        if r["kind"] == "genmask-table":
            res = impl_lr(r.get("tool", "netstat"), text)
        else:
            st, payload, _w = impl_server(r.get("tool", "netstat"), text)
            res = "CRASH " + payload if st != "OK" else \
                "OK " + ",".join("%s/%s" % tuple(x.decode() for x in ln.split(b",")[1:3]) for ln in payload.split(b"\n") if ln)
        fails = genmask_table_failures(res, rows)
        print("netstat table:\n%s-> %s" % (text.decode(), res[:300]))
        for reason, witness, _k in fails[:5]:
            print("property failure:", reason)
        return bool(fails)
    if "genmask" in r:
        m = int(r["genmask"])
        got = load()["server"]._maskbits((m, 32))
        hm = hostmask(got) if isinstance(got, int) else None
        print("_maskbits(%s) -> %r; one-bits of the mask below that prefix: %s"
              % (quad(m), got, "?" if hm is None else quad(hm & m)))
        return hm is None or bool(hm & m)
    if "mask" in r:
        got = str(load()["server"]._maskbits((r["mask"], 32)))
        print("_maskbits((%d, 32)) -> %s (want %s)" % (r["mask"], got, r.get("want")))
        return got != str(r.get("want"))
    if r.get("kind") == "delivery":
        if r.get("text_hex"):
            text = bytes.fromhex(r["text_hex"])
        else:
            n = r.get("n_routes", 5000)
            text = "".join("10.%d.%d.0/24 dev eth0 scope link\n" % (i // 256, i % 256) for i in range(n)).encode()
        st, payload, _w = impl_server(r.get("tool", "ip"), text, r.get("tool_exit_status", 0))
        print("server.main with %d bytes of tool output -> %s %s" % (len(text), st, payload if st != "OK" else "payload %d bytes" % len(payload)))
        return st != "OK"
    if "token" in r:
        got = impl_ipm(r["token"])
        print("_ipmatch(%r) -> %s (want %s)" % (r["token"], got, r.get("want")))
        return got != r.get("want")
    print("nothing replayable in", rp.get("kind"))
    return False


if __name__ == "__main__":
    sys.path.insert(0, os.path.join(os.path.dirname(os.path.abspath(__file__)), ".."))
    import framework
    sys.exit(framework.main(sys.modules[__name__]))
