"""C02 — stream core (see stream_common.py and coq/Model/Stream.v)."""
import os
import sys
sys.path.insert(0, os.path.dirname(os.path.abspath(__file__)))
import stream_common as sc  # noqa: E402

PROP = "C02"
DRIVER_PROP = "C01"
RULE = ("real ssnet.runonce on both tunnel ends over fake sockets, every micro-step replayed on the extracted model and the full "
        "state of both ends compared after every iteration; cases: every order of close events (application first, destination first, both, none, before the remote connect completes, with data buffered at every hop), an established flow's recv/send/shutdown failing with every errno the kernel can answer (stream_common.EST, raised as the Python class the real call raises) next to a healthy flow — either endpoint failing must tear down that flow only, an event loop that dies is reported with the case; an endpoint failing next to an endpoint that does nothing by itself (destination refuses in a later round than the one that created the flow with a silent application; destination half-closes then dies with an application that never closes: stream_common.endpoint_failure_shapes) — at quiescence both ends have finished the flow and every sleeping handler has the pre_select coupling of c02_no_lost_wakeup (stream_common.teardown_oracles); on every run, observed at Mux.send of both ends: while an end handles a received TCP_EOF or TCP_STOP_SENDING it queues no message at all — neither is ever echoed, an end says TCP_EOF / STOP_SENDING only for a reason of its own (c02_no_echo); a case is non-trivial when at least one flow was "
        "accepted; distinct by case seed")
TRUSTED_BASE = sc.STREAM_TB
ASSUMPTIONS = sc.STREAM_ASSUMPTIONS
PROFILES = ["close","close","bulk","fault","many","wrap"]


def correspondence(ctx):
    sc.stream_check(ctx, PROP, PROFILES, 120, 2500)


def replay(ctx, rp):
    return sc.stream_replay(ctx, rp, PROP)


if __name__ == "__main__":
    sys.path.insert(0, os.path.join(os.path.dirname(os.path.abspath(__file__)), ".."))
    import framework
    sys.exit(framework.main(sys.modules[__name__]))
