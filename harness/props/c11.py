"""C11 — forwarded UDP keeps datagram boundaries, payload and addressing.

Correspondence (shared with C10, see dgram_common.py): the real client functions ondns / dns_done /
onaccept_udp / udp_done / onaccept_tcp / expire_connections on a real ssnet.Mux, and the real
server.main loop (real runonce, DnsProxy, UdpProxy, dns_req / udp_open / udp_req, sweeps) are run on
event scripts with a virtual clock and scripted sockets; the extracted Coq model (coq/Model/Dgram.v)
is run on the same scripts and every step (outputs + tables) is compared.
Composed system (coq/Model/DgramSys.v ystep, extracted into the driver): the real client functions and the real
server.main are also run TOGETHER over two FIFO links (SystemRun) on random schedules mixing DNS queries, UDP
datagrams and TCP accepts, any socket outcomes; the extracted model of the COMPOSITION is run on the same
schedule and compared step by step (observation, state of the component that ran, both links).  Oracles on
the real code alone: the server never fails (c11_system_server_never_raises), the client fails only in runs
that violate no_stale_alloc_any, evaluated on the run itself (c11_system_never_raises); witnesses of F80 and
F81 are replayed."""
import os
import sys

sys.path.insert(0, os.path.dirname(os.path.abspath(__file__)))
import dgram_common as dc  # noqa: E402

PROP = "C11"
RULE = ("event scripts: mostly-valid life cycles (query->reply, query->error->retry->reply, duplicate/late replies, "
        "expiry at t-1/t/t+1 around the 30 s horizon, interleaved sources and destinations, UDP_CLOSE racing with data, "
        "ssnet.MAX_CHANNEL 1..8 forcing exhaustion and wrap-around; TCP connections accepted AND FINISHED (real MuxWrapper noread + "
        "nowrite: the Mux keeps their identifiers as None-valued keys) between the queries / datagrams, so that after the cursor has "
        "wrapped only identifiers of finished TCP flows are free - every captured datagram must then still be forwarded) x payloads (empty, commas, NULs, 4096/4097 bytes) "
        "plus a malformed stream (bad headers, frames for foreign channels, re-opened channels); composed "
        "client+server runs: DNS-only and DNS/UDP/TCP mixed on random schedules with MAX_CHANNEL in {65535, 8, 3, 2, 1}; a script is "
        "non-trivial when it delivers a datagram or runs more than two steps; distinct by content hash of the script")
TRUSTED_BASE = [
    "the client's channel table is compared in identifier order, without the None-valued keys finished TCP flows leave behind (the code "
    "never iterates over mux.channels and reads it only through .get(): None and absent are the same to it - Model/Dgram.v tcp_end)",
    "the tproxy listener answers recvmsg() like Linux put_cmsg (control message cut to the buffer offered, MSG_CTRUNC; compared with the "
    "running kernel by ./check C05)",
    "modelled, not verified: CPython dict insertion order, bytes %-formatting of ints, bytes.split(b',', 2), struct.pack range checks",
    "the fake listener / sender / resolver sockets, pipe files, select() and clock of harness/props/dgram_common.py stand for the kernel",
    "OverflowError of socket.sendto for ports > 65535 is emulated by the fake socket",
]
ASSUMPTIONS = [
    "port fields put on the wire by the peer are plain ASCII digit strings (Python's int() also accepts signs, blanks and '_'; not modelled)",
    "socket.socket() itself and getaddrinfo() of the configured name server do not fail (EMFILE / gaierror are outside the model)",
    "same address-family constants on both ends (the UDP path passes listener.family through int())",
    "virtual time is integral seconds; client and server clocks are independent non-decreasing inputs",
    "c10_no_cross holds under NoStaleReuse (stated in Props/C10.v): an identifier is not re-allocated by the client while frames or server handlers of its previous incarnation are still alive",
    "c11_server_no_crash_full: 16-bit identifiers (wire format), a conforming peer (UDP_OPEN carries a decimal family and is never sent on an open identifier, UDP_DATA = 'ip,port,'+payload with port <= 65535) and recvfrom peers of address size; without the last two the loop can only raise AssertionError / ValueError (c11_server_only_assert_value); UDP_OPEN, UDP_CLOSE, UDP_OPEN of one identifier inside ONE iteration ended the server with Fatal 'already open' in the code as found: defect F80, repaired in the model (c11_server_never_fatal, c11_f80_refuted)",
    "c11_system_never_raises / c10_system_never_raises: 1 <= MAX_CHANNEL <= 65535, listener events as the kernel delivers them (address literals without comma, 16-bit ports, sizes), recvfrom peers as sockets report them, and the system hypothesis no_stale_alloc_any (an identifier is not put on the wire for a new flow while an opening frame, a server handler or a down-link frame of its previous incarnation is in flight; F81 without it); TCP flows are represented only by their TCP_CONNECT frame (the stream core is C01/C06/C08)",
]


def correspondence(ctx):
    dc.run_check(ctx, PROP)


def replay(ctx, rp):
    return dc.replay(ctx, rp, PROP)


if __name__ == "__main__":
    sys.path.insert(0, os.path.join(os.path.dirname(os.path.abspath(__file__)), ".."))
    import framework
    sys.exit(framework.main(sys.modules[__name__]))
