#!/usr/bin/env python3
"""Writes /verif/MANIFEST.json from the table below (keeps it schema-valid)."""
import json
import os

ROOT = os.path.dirname(os.path.dirname(os.path.abspath(__file__)))

LEVEL_NOTE_COMMON = ("Trusted: Coq 8.16.1 kernel (vm_compute in finite sweeps/witnesses, no native_compute), "
                     "no axioms (every theorem prints 'Closed under the global context'), extraction with "
                     "ExtrOcamlBasic only, the OCaml driver and Python harness for the correspondence; ")

CHECKS = {
    "C07": dict(
        text=("Theorems over all frames, byte streams, cuttings and send/flush scripts (Props/C07.v): encode;decode = id "
              "for every channel/command < 2^16 and payload 0..65535; the receive loop with its cached 'want' equals the "
              "stream-level decoder under every cutting; sender invariant under every partial-write pattern; link = FIFO; "
              "handshake outcome is a function of the byte stream. Tied to /repo by running the real ssnet.Mux and "
              "client._main against the extracted model on generated and exhaustive-small cases on every run."),
        note="modelled not verified: CPython struct/bytes slicing, the fake socket files standing for the ssh pipe.",
        design="DESIGN.md §5 C07",
        technique="Coq proof (induction on stream length, append-compositionality of decode) + extracted-model differential correspondence"),
}

NOT_YET = {}


def main():
    props = [json.loads(l) for l in open(os.path.join(ROOT, "properties.jsonl"))]
    checks = []
    na = []
    for p in props:
        pid = p["id"]
        if pid in CHECKS and os.path.exists(os.path.join(ROOT, "harness", "props", pid.lower() + ".py")):
            c = CHECKS[pid]
            checks.append({
                "property_id": pid,
                "quick_cmd": "./check %s --tier quick" % pid,
                "thorough_cmd": "./check %s --tier thorough" % pid,
                "evidence_file": "/verif/evidence/%s.json" % pid,
                "replay_cmd_template": "./check %s --replay {path}" % pid,
                "engine": "coq-proof+correspondence",
                "level_claimed": {"category": "proof", "text": c["text"], "design_ref": c["design"]},
                "level_note": LEVEL_NOTE_COMMON + c["note"],
                "technique": c["technique"],
            })
        else:
            na.append({"property_id": pid,
                       "reason": NOT_YET.get(pid, "no check registered yet: the Coq model/proof and correspondence for this property are still being built (not a claim that the technique cannot apply)")})
    m = {
        "version": 1,
        "setup_cmd": "./setup.sh",
        "hooks": {
            "guard": "SSHUTTLE_VERIF",
            "enable": "no hooks are compiled into sshuttle: the harness patches module attributes from outside (PYTHONPATH=/repo)",
            "baseline_off_cmd": "cd /repo && /venv/bin/python -m pytest -ra -q -p no:cacheprovider --timeout=900 --continue-on-collection-errors",
            "source_commits": [],
            "add_only": True,
        },
        "engines": [{
            "name": "coq-proof+correspondence",
            "path": "/verif/coq, /verif/harness, /verif/drivers",
            "serves_properties": [c["property_id"] for c in checks],
            "kind_free_text": "Coq 8.16.1 development (Model/ Proofs/ Props/), constants regenerated from /repo by harness/gen_consts.py, extracted OCaml model run against the real Python code by harness/props/*.py",
        }],
        "checks": checks,
        "not_applicable": na,
        "notes": "See DESIGN.md. ./check <id> rebuilds the model and proofs (make, full .vo), re-checks Props/<id>.v with Print Assumptions, then runs the correspondence against /repo's working tree.",
    }
    with open(os.path.join(ROOT, "MANIFEST.json"), "w") as f:
        json.dump(m, f, indent=1)
        f.write("\n")


if __name__ == "__main__":
    main()
