#!/usr/bin/env python3
"""Writes /verif/MANIFEST.json from the table below (keeps it schema-valid)."""
import json
import os

ROOT = os.path.dirname(os.path.dirname(os.path.abspath(__file__)))

LEVEL_NOTE_COMMON = ("Trusted: Coq 8.16.1 kernel (vm_compute in finite sweeps/witnesses, no native_compute), "
                     "no axioms (every theorem prints 'Closed under the global context'), extraction with "
                     "ExtrOcamlBasic only, the OCaml driver and Python harness for the correspondence; ")

CHECKS = {
    "C07": dict(
        text=("14 theorems over all frames, byte streams, cuttings and send/flush scripts (Props/C07.v; incl. the SERVER's start: for every short-write script of descriptor 1 the stream starts with the complete synchronisation string followed by the multiplexer's frames — c07_server_start, c07_server_start_end_to_end, Model/WireStart.v; the real server.main is driven on a scripted raw descriptor): encode;decode = id "
              "for every channel/command < 2^16 and payload 0..65535; the receive loop with its cached 'want' equals the "
              "stream-level decoder under every cutting; sender invariant under every partial-write pattern; link = FIFO; "
              "handshake outcome is a function of the byte stream. Tied to /repo by running the real ssnet.Mux and "
              "client._main against the extracted model on generated and exhaustive-small cases on every run."),
        note="modelled not verified: CPython struct/bytes slicing, the fake socket files standing for the ssh pipe.",
        design="DESIGN.md §5 C07",
        technique="Coq proof (induction on stream length, append-compositionality of decode) + extracted-model differential correspondence"),

    "C03": dict(
        text=("31 theorems over every well-formed plan and every packet (Props/C03.v): the code's sort key is the property's "
              "specificity order; first match in the descending list (last match ascending for pf) is a matching entry of maximal key; "
              "for nat, nft, tproxy and both pf rule shapes the modelled packet walk over the generated rules diverts TCP exactly when "
              "the most specific matching entry is an include (and the owner matches where implemented), DNS exactly for the configured "
              "name servers, other UDP only under tproxy+udp. Tied to /repo by comparing the argv / pf text the real setup_firewall emits "
              "token for token with the model's printer and by walking sampled packets over the rules the real code emitted. Set-up over the session's own objects left by a killed earlier session with another plan yields the same verdicts as on a clean packet filter (c03_nft_stale_own_objects, c03_ipt_own_chains_emptied); the harness runs both sessions' real set-ups (the first cut after k commands) on the C04 kernel model and judges the later plan's oracle on the resulting state. For pf the verdict is judged on the COMPLETE state (Model/FwPfHook.v: main-ruleset anchor calls and enable state; c03_pf_state_tcp, c03_pf_state_no_filter_call, c03_pf_state_disabled)."),
        note="modelled not verified: the kernel's iptables/nft/pf matching semantics (validated against real netfilter in a namespace in the thorough tier; pf cannot be validated here). Known finding F18 excluded exactly by c03_tproxy_dns_partial; known finding F140 (nat owner MARK rule of a killed session with another owner) is outside the per-plan theorems and reported by the stale-objects dimension.",
        design="DESIGN.md §5 C03",
        technique="Coq proof (sorting + first-match lemmas, per-method walk theorems) + rule-text correspondence + packet-walk oracle on emitted rules"),
    "C10": dict(
        text=("39 theorems over all event sequences of the datagram state machines (Props/C10.v; incl. the end of TCP flows sharing the identifier table: a captured query is forwarded whenever one of the identifiers the cursor visits is free, finished TCP flows included — c10_query_forwarded_if_identifier_free, c10_tcp_end_releases_identifier; and a per-attempt system name-server list: each attempt goes to the configured resolver or to a member of the list AS IT IS AT THAT ATTEMPT — c10_attempt_target_current, Model/DgramNs.v; over the whole life of a query at most three attempts whatever mixture of errors — c10_attempt_budget_whole_life): query relayed verbatim on a fresh "
              "identifier, resolver target and at most 3 attempts with retry only after NET_ERRS, first reply relayed once and handler retired, "
              "reply to the recorded asker from the recorded destination, at most one datagram per query over whole runs, exact lazy expiry, "
              "no exception for any socket outcome or identifier exhaustion; WHOLE SERVER: an invariant relating handlers, dnshandlers, udphandlers and mux.channels holds in every reachable state of the real loop structure, "
              "and the server loop can only raise AssertionError / ValueError / OverflowError, each for a cause readable off the peer's message (c10_server_crash_classified), never for a conforming peer (c10_server_no_crash_conforming, c10_server_no_crash_full); "
              "COMPOSED client+server over two FIFO links: under no-stale-allocation a reply only ever reaches the asker of its own query (c10_no_cross_composed), refuted without the hypothesis (MAX_CHANNEL=1 witness, replayed on the real code). Tied to /repo by running the real client ondns/dns_done/"
              "expire_connections and the real server.main loop with DnsProxy on scripted sockets and a virtual clock, every step compared; implementation-only oracles on random composed schedules (cross-delivery, reply lost before 30 s) with one virtual clock serving time.time and time.monotonic from different epochs."),
        note="modelled not verified: UDP socket semantics, getaddrinfo, CPython dict ordering. The composed client+server system is extracted (Model/DgramSys.v) and compared step by step with the real composition; c10_system_never_raises: in mixed DNS/UDP/TCP-accept runs neither side raises under the single hypothesis no_stale_alloc_any (DNS-only runs need none).",
        design="DESIGN.md §5 C10",
        technique="Coq proof (invariants over event sequences of an executable state machine with virtual time) + step-by-step differential correspondence"),
    "C11": dict(
        text=("30 theorems (Props/C11.v; incl. c11_datagram_forwarded_if_identifier_free / _after_tcp_end): header round trip for every address text, port and payload incl. commas, one captured datagram = "
              "one sendto with identical payload to the dialled address on the association's single socket, replies delivered once to the source, "
              "shared channel per source with deadline refresh, idle expiry closing both ends and a fresh identifier afterwards, frame size bound, "
              "no exception for any socket outcome; the whole server never raises for UDP scripts of a conforming client (c11_server_no_crash_full; the bound ch <= 65535 is a wire-format fact: c11_server_unbounded_channel_refuted); END TO END: every frame sequence the client emits satisfies the server's preconditions (c11_client_frames_conform), so along every run of the composed system — any mix of DNS, UDP and TCP-accept events, any schedule, socket outcome and time — the SERVER never raises nor leaves through Fatal (c11_system_server_never_raises, c11_server_never_fatal; this found and needed the repair of F80), and under no_stale_alloc_any neither side does (c11_system_never_raises); without it a late reply on a reassigned identifier kills the client (c11_system_stale_crash_refuted = known finding F81). Same correspondence harness as C10 with the real tproxy recv_udp/send_udp on scripted cmsg data."),
        note="modelled not verified: UDP socket semantics, tproxy transparent bind; same address-family constants on both ends is an assumption.",
        design="DESIGN.md §5 C11",
        technique="Coq proof (codec round trip + state-machine invariants) + step-by-step differential correspondence"),
    "C13": dict(
        text=("13 theorems over all valid plans, host updates and truncation points (Props/C13.v): every rendered line is <= 70 bytes; "
              "helper_parse(render plan) = plan field by field for every read limit that is absent or >= 70; host updates of any name length "
              "round-trip with the whole-line reader (the 128-byte reader is proved correct only up to len(name)+len(ip) <= 121 and refuted beyond: F5, fixed); "
              "a dialogue cut anywhere before the pid makes the helper do nothing; after GO every exit goes through the clean-up of exactly that plan. "
              "Tied to /repo by piping the real FirewallClient.start/sethostip output into the real firewall.main with a recording method."),
        note="modelled not verified: CPython int()/strip/split/readline semantics (differential-tested). A cut inside the pid digits of the GO line is outside the property's quantifier and reported as an observation.",
        design="DESIGN.md §5 C13",
        technique="Coq proof (renderer/parser round trip, induction over line lists and cut positions) + three-way differential correspondence"),
    "C14": dict(
        text=("26 theorems (Props/C14.v; incl. update histories through the helper's control-channel loop: one marked line per name at the address of its LAST update — c14_map_last_address, c14_session_last_address — and hosts files of ARBITRARY bytes: undecodable content means the call gives up with the file system untouched, decodable content is rewritten byte for byte — c14_rewrite_any_bytes, c14_restore_any_bytes, utf8_ok compared with CPython's decoder on every run) over all file contents, host maps, ports, crash points and histories: the rewrite result is byte for byte "
              "the old lines without this port's marked lines plus one marked line per sorted entry (modulo exactly Python's trailing-whitespace "
              "normalisation, stated); marker injectivity over ports; only rename changes the hosts path and every crash point leaves the previous "
              "or the complete next version; serial histories of any number of instances keep base lines and each instance's last map. "
              "Interleaved instances: refuted with witnesses (known finding F8), partial theorem proved (never half-written, base lines never lost). "
              "Tied to /repo by running the real rewrite_etc_hosts/restore_etc_hosts on a scratch directory with audit hooks, forked crash points and gated threads."),
        note="modelled not verified: POSIX rename atomicity, link/copy semantics, Python text-mode decoding (UTF-8, universal newlines). Not covered: shutil.move fallback, undecodable hosts file.",
        design="DESIGN.md §5 C14",
        technique="Coq proof (step machine over file-system primitives, induction over crash index / history / schedule) + primitive-trace correspondence"),
    "C16": dict(
        text=("37 theorems over all argument texts (Props/C16.v; incl. the --listen family dispatch of cmdline.main: per family the LAST element of that family, never an element of the other family, for every --disable-ipv6 — c16_listen_dispatch, c16_listen_family, c16_listen_absent): parse_subnetport/parse_ipport always yield a value or a usage error; "
              "parse(render spec) returns the resolver's address, the given or maximal width and the port range for IPv4-form and IPv6-form hosts; "
              "width range check; every numbers-and-dots IPv4 spelling resolves to the dotted quad of its value; every accepted IPv6 spelling (any 8 words, both printers, upper case, dotted tail) resolves to the canonical text, which reads back as the same words and is a fixed point (c16_canonical_v6_full, c16_canonical_v6, symbolic sweep over the 256 zero masks); [v6]:port and name:port (c16_hostport_port_full, c16_hostport_v6_port); listen and remote specifications "
              "decompose into user/password/host/port; command line overrides the environment. Tied to /repo by running the real parsers and "
              "argparse on ~15k generated spellings, mutants and garbage with getaddrinfo real for numeric literals and tabled for names."),
        note="modelled not verified: Python re semantics (re-implemented recognisers, differential-tested), glibc inet_aton/inet_pton/inet_ntop, argparse dispatch.",
        design="DESIGN.md §5 C16",
        technique="Coq proof (structural recognisers equal to the regexes on rendered inputs, totality by case analysis) + differential correspondence with ipaddress/inet_pton oracles"),
    "C19": dict(
        text=("30 theorems (Props/C19.v): for every scanner byte stream and every cutting into reads the HOST_LIST payloads concatenate to the longest newline-terminated prefix with every record relayed exactly once; "
              "for every payload sequence and HOST lines of EVERY length (the helper's read limit is a model parameter instantiated with the limit regenerated from firewall.py: none) the helper keeps running, each forwarded record is set exactly once in its host map, "
              "and every line that reaches the hosts file is '<dotted quad> <name over [-A-Za-z0-9_.]+> <marker>'; the repaired client never raises and skips malformed records; found_host/read_host_cache are total. "
              "As-found behaviour refuted with witnesses (F5 readline(128): 129- and 132-byte HOST lines; F13, F19, F24, F25: fixed; F26: known finding); _any_limit/_asfound_partial variants keep the fits-one-read hypothesis, and the unconditional proofs stop checking if the source reads with a limit again. "
              "Tied to /repo by running the real hostwatch functions, the real hostwatch_ready closure of server.main, the real onhostlist closure of client._main, sethostip, and the real helper HOST loop (read limit observed at its stdin and passed to the model; names up to 60000 characters) with rewrite_etc_hosts on scratch files."),
        note="modelled not verified: Python re/str classification tables above U+007F are parameters supplied by the harness per case; UTF-8 remote locale assumed.",
        design="DESIGN.md §5 C19",
        technique="Coq proof (stream-level splitter spec by induction on the chunk list, filter characterisation) + pipeline differential correspondence"),

    "C12": dict(
        text=("16 theorems over all environment scripts (Props/C12.v): every request to install interception is preceded by the verified "
              "synchronisation string and the route message and happens at most once; readiness is reported only after the helper confirmed; "
              "every trace that entered the try block contains the close of the helper channel before exit, whatever exception class ended "
              "the loop (incl. failures inside the finally block); a dead ssh at any iteration ends the loop with Fatal; a wrong or missing "
              "handshake never leads to a start request. Tied to /repo by running the real client.main/_main/FirewallClient/sdnotify with scripted "
              "ssh.connect and runonce, exception injection at every step, and a real helper child process observing EOF. Every scripted scenario runs under a watchdog: a client that never leaves its start-up or main code is reported with the scenario as failing input."),
        note="modelled not verified: the fork in daemonize (model continues in the grandchild), asynchronous exceptions between finally and fw.done(); that EOF at the helper triggers restoration is property C04.",
        design="DESIGN.md §5 C12",
        technique="Coq proof (trace function over environment scripts, case analysis and induction over the iteration list) + trace differential correspondence"),

    "C05": dict(
        text=("21 theorems over every 4-/16-byte address, every port < 65536 and both host endiannesses (Props/C05.v; incl. the kernel's ancillary-data truncation: with the 24 bytes of room the code offers, the IPv6 destination is decoded although MSG_CTRUNC is set on every IPv6 datagram — c05_cmsg6_kernel, c05_cmsg6_kernel_always_ctrunc; the harness's recvmsg stand-in is compared with the running kernel on loopback sockets in every run): original_dst decodes "
              "sockaddr_in/sockaddr_in6 to (canonical text, port); tproxy cmsg decoding; parse(format a) = a for the dotted-quad printer and for "
              "BOTH RFC 5952 printers used (ipaddress.__str__ and inet_ntop), text never contains ','; CONNECT payload and UDP header round trips "
              "(payload may contain commas); pf query request fits the helper's line reader and the dialogue returns the kernel's destination; "
              "self-address guard; end-to-end composition: what connect_dst/UdpProxy.send receive equals what the kernel reported. Tied to /repo by "
              "running the real original_dst, tproxy.recv_udp, onaccept_tcp/onaccept_udp with real Method objects, the server closures and the pf dialogue on fake sockets returning the model's layout bytes."),
        note="modelled not verified: kernel sockaddr/cmsg layouts (validated against real SO_ORIGINAL_DST / ORIGDSTADDR in a namespace in the thorough tier), glibc inet_ntop/inet_pton, CPython 3.12 ipaddress; ipfw/windivert and scoped IPv6 not covered.",
        design="DESIGN.md §5 C05",
        technique="Coq proof (byte-layout codecs, RFC 5952 round trip by reduction to part lists with a symbolic sweep of the 256 zero-group masks) + differential correspondence"),
    "C15": dict(
        text=("17 theorems over all configurations and all kernels that answer bind() with busy (EADDRINUSE) or with a refusal (EACCES / EADDRNOTAVAIL / EINVAL per address, port range and protocol) (Props/C15.v): start-up never ends in an internal error nor a raw "
              "OSError; every plan is consistent (loopback defaults, listen addresses excluded unless listed, IPv6 entries iff IPv6 active, bound "
              "listeners on the reported ports, DNS port distinct from the TCP ports, ports <= 65535, user/group/UDP/DNS only when offered); every "
              "documented method name is accepted (on the regenerated method_choices). The code as found is refuted with witnesses (F1, F2, F11, F14, "
              "F15, F21, F131: all fixed). Tied to /repo by running the real client.main with real method objects on fake sockets obeying the busy-port set and the refusal rules (unprivileged ports, non-local and invalid addresses, no IPv6), the real FirewallClient constructor reading the method from the READY line, plus the real option parser and cmdline.main."),
        note="modelled not verified: bind() answers from a static busy set and static refusal rules; getpwnam/getgrnam/resolv.conf are parameters; argparse dispatch.",
        design="DESIGN.md §5 C15",
        technique="Coq proof (total decision function with explicit Crash/OsError constructors proved unreachable; consistency by case analysis over the port search) + exhaustive cross-product correspondence"),

    "C04": dict(
        text=("60 theorems (Props/C04.v). Proved for every initial kernel state (foreign rules, other instances), every plan, every cut and every "
              "fault set (nat/nft/tproxy): everything not named for the session's ports is unchanged and in order at every intermediate state; a cut "
              "before GO issues no command; once no own object remains the final state is exactly the initial one; the chain-listing parse (decode as ASCII with errors='replace', split at line feeds, startswith) is exact membership for tables whose foreign rules and chain names carry ARBITRARY bytes without line feed (c04_chain_exists_exact, c04_chain_exists_bytes_exact; with a line feed in a foreign comment it can be forged: c04_listing_lf_refuted, an observation) — i.e. exact "
              "membership (sshuttle-1230 vs sshuttle-12300). The clause 'every exit path: nothing own remains and a later session can start, for every k-th failing "
              "command and every cut' is PROVED IN GENERAL for nat without owner match, tproxy (repaired) and nft (c04_nat_all_exits, c04_tproxy_all_exits, c04_nft_all_exits: every plan body, every clean start state with foreign rules/chains/other instances, "
              "every failing command index, every cut; abstract own-object state + simulation, Proofs/FwLife_gen_*.v); for nat with --user/--group it is proved in general too (c04_all_exits_full: every exit except a failing tear-down `-t mangle -D OUTPUT … MARK`, which is known finding F41). "
              "pf: the fault-free session is the identity on module, enable state, Darwin tokens, anchors and (on FreeBSD, or without `set skip on lo`) the main ruleset, for every flavour, configuration and cut (c04_pf_identity; the `pfctl -s all` status parse is exact); with `set skip on lo` OpenBSD/Darwin replace the main ruleset and never restore it "
              "(c04_pf_identity_full_refuted; known finding F43 — now an exact equivalence f43_hits); pf ALL EXITS are proved in general for every flavour, plan, cut, start state and every SET of failing pfctl/kldload commands (Proofs/FwLife_gen_pf_faults.v): c04_pf_all_exits (no failed `pfctl -d`/`-X` in the run: module, enable state, tokens, foreign anchors exactly as before, own anchor content left only by its own failed flush), c04_pf_every_exit (after EVERY exit: foreign anchors, module, iptables/nft untouched, a pf that was enabled is never disabled, foreign references never released, both restores run), c04_pf_restartable (a later session removes left-over anchor content); the excluded class is known finding F150 (a failing `pfctl -d`/`-X` itself; c04_pf_disable_fault_refuted, c04_pf_release_fault_refuted); the skipped-disable-after-failed-flush half was a defect, fixed in /repo edce74f (c04_pf_flush_fault_asfound_refuted / _repaired). Logging is total: helpers.log returns for every OSError/ValueError raised by its streams, and then the session with all its log points "
              "(debug1 before every command, log after a failed nonfatal command, every debug call of firewall.main incl. inside finally) issues the same commands and ends in the same state as without logging, for every verbosity and every outcome of every stream operation "
              "(c04_log_total, c04_log_faults_invisible, c04_nat_all_exits_hangup; the narrowed clause of seeded change C04-b is refuted by c04_log_narrow_refuted); as-found tproxy and pf/FreeBSD refuted with witnesses (F9, F17: "
              "fixed; F41, F42, F43, F150: known findings). The waiting phase is invisible: a read error of any class at the cut, a failing STARTED write, a failing hosts rewrite/restore and a failing DNS-cache flush leave commands, final state and pf context unchanged for every method, cut, fault set and state (c04_wait_phase_invisible, c04_started_failure_is_cut, c04_read_error_is_eof; Model/FwEnv.v); a raising signal handler is harmless for nft (c04_signal_nft_harmless) and was not for nat/tproxy/pf as found (c04_signal_relay_asfound_refuted = F120, fixed). Tied to /repo by running the real firewall.main + real method modules with every external command answered by the extracted kernel model as a co-process, for every cut and every fault index, incl. the REAL setup_daemon + firewall.main in a forked child receiving real SIGHUP/SIGINT/SIGTERM at every phase (harness/props/c04_sig.py), under a logging environment (verbosity 0/1/2 x k-th stderr/stdout operation raising OSError(EIO)/BrokenPipeError/ValueError/..., once or from then on); real helpers.log vs the model's log_call for every exception class and position; fail-closed ast check of its except clauses."),
        note="modelled not verified: iptables/nft/pfctl command semantics (DESIGN Appendix B; not validated against the real kernel in this check), SIGKILL/SIGTERM modelled as a dialogue cut. The all-exits clause is general for every iptables/nft method (nat with and without owner match, tproxy, nft); pf: general all-exits theorem over every set of failing commands; not covered: ioctl errors (an uncaught OSError outside the fault model), partial effects of a failing command, intermediate-state invariants for pf.",
        design="DESIGN.md §5 C04",
        technique="Coq proof (frame invariant over all command sequences; general all-exits theorems by simulation to an abstract own-object state; product state with a MARK-rule counter for the owner match; pf anchor-state model) + trace/state correspondence with fault injection at every command index"),

    "C17": dict(
        text=("24 theorems (Props/C17.v): for all ip < 2^32 and w <= 32 the computed network has host bits cleared and network bits kept (and this is what "
              "the Python integer arithmetic of _list_routes computes); _maskbits on every contiguous netmask; abbreviated BSD notation; every well-formed "
              "iproute2 / netstat (Linux and BSD) / Windows `route PRINT -4` On-link line yields the canonical network (c17_windows_line, c17_windows_line_gen, c17_windows_skipped); default/127.x/0.x filtered; for EVERY tool output, arbitrary bytes "
              "included, each line yields a canonical route or is skipped (as-found code refuted: F7, fixed); delivery: for advertisements <= 65535 bytes "
              "the client adds exactly the advertised networks and then starts the firewall, larger ones hit Mux.send's assert (known finding F6). "
              "Tied to /repo by running the real server route functions with a fake Popen on generated routing tables, server.main up to the ROUTES frame and client._main's onroutes."),
        note="modelled not verified: Python re (recogniser differential-tested against the pattern read from source), glibc inet_aton/inet_ntoa, CPython int() incl. the 4300-digit limit; win32 branch not covered; iproute2 host routes without '/len' are skipped by the code (recorded as an observation).",
        design="DESIGN.md §5 C17",
        technique="Coq proof (bit arithmetic via div/mod, recognisers, totality of the line scanner) + differential correspondence with an ipaddress oracle"),

    "C18": dict(
        text=("16 theorems (Props/C18.v; incl. c18_connected_iff_announced: the client goes on exactly when ssh is alive and the 12 bytes after the second NUL are the announcement, for every stream and cutting) with zlib abstract (only the sync-flush law is assumed, as an explicit premise): for every list of module "
              "sources of any size incl. empty (with the `if not data` fallback), every assembler text and EVERY segmentation of the upload the "
              "bootstrap one-liner reads exactly the assembler, the registered modules equal the packaged ones in order and byte for byte and the "
              "loop stops at the final blank name; the options module evaluates to the client's values; nothing but the two uploads is written "
              "before the sync string is verified; the server's first stdout bytes are the sync string (regenerated constants); the REMOTE COMMAND: for every string the POSIX-shell words of quote(s) are [s] (c18_quote_one_word), and the command handed to ssh runs the first of python3/python whose -V succeeds (or the --python path, as one word) with the bootstrap as one argument, under sh, cmd and powershell (c18_remote_command_posix/_python/_powershell). Tied to /repo by "
              "running the REAL bootstrap produced by ssh.connect in fresh interpreters with an audit-hook prelude, fed in arbitrary segmentations; the argv of the real ssh.connect started on a stand-in ssh that hands the command to a real dash/bash login shell on hosts with python3+python / one of them / a failing python3 / none; the real get_module_source reading generated (incl. non-ASCII) sources through a redirected find_spec. The client must have consumed exactly the synchronisation string (no read-ahead) when it hands the stream to the multiplexer."),
        note="modelled not verified: zlib beyond the sync-flush law, compile/exec of module bodies, repr(str) outside printable ASCII without quote/backslash, text-mode newline translation in get_module_source, a blocking send being complete.",
        design="DESIGN.md §5 C18",
        technique="Coq proof (assembler loop on a buffered reader, induction over the module list and over read cuttings) + real-bootstrap correspondence"),

    "C01": dict(
        text=("Theorems over ALL sequences of micro-steps of the two event loops (accept, Proxy.callback / pre_select of any flow at either end, Mux flush/"
              "dispatch, check_fullness, handler removal; any order; ANY outcome of every connect/recv/send/shutdown; any payloads, MAX_CHANNEL, buffer size) "
              "(Props/C01.v): in every reachable state without stale delivery (an identifier re-used while frames of its previous holder were in flight — the "
              "exemption C06 states) and for every flow, bytes handed to the destination are a prefix of bytes read from the application and vice versa; "
              "while the receiving socket is not shut down, delivered ++ buffered far ++ payload in flight ++ buffered near = bytes read (nothing lost, duplicated, "
              "reordered); a step of one flow changes nothing of another. Proved through a per-flow pipeline invariant (Stream_view.Vinv) preserved by every step "
              "(Stream_flow.step_Ginv, ~3000 lines). The safety half of 'eventually delivered' IS proved (c01_quiescent_all_delivered, Proofs/Stream_quiet.v): in every reachable state in which nothing is "
              "pending (StreamQuiet.quiescentb: links and queues empty, no wait set holds a descriptor an eager environment reports ready) every byte read has been handed to the other socket unless that end "
              "aborted or is still connecting; and the LIVENESS half is proved too (c01_eager_drain, c01_eventual_delivery; Proofs/Stream_drain.v): from every reachable state without stale delivery an explicit finite eager schedule (no new connections, recv answers 'nothing more', send accepts everything, connects complete; "
              "StreamDrain.drain_of, justified by a strictly decreasing variant mu over all micro-steps) reaches, without raising, a quiescent (or stale) state, in which every byte read before has been handed on unless that socket failed. The escape clauses are removed under the boolean hypothesis drain_cleanb (no frame or unsent byte of an older incarnation of a re-used identifier is still on the way; implied by no_reuseb): c01_drain_clean, c01_eager_never_stale (every eager schedule), c01_eager_no_new_fault, c01_eventual_delivery_clean, c01_eventual_delivery_full_clean; the unconditional form is refuted with a 9-step witness (c01_drain_unconditional_refuted) — Proofs/Stream_drain_clean.v; 14 theorems in Props/C01.v. "
              "The harness checks delivery at quiescence on every generated schedule and that the real loops' calm implies the model's quiescentb. Tied to /repo by running the REAL ssnet.runonce/Proxy/Mux/SockWrapper/MuxWrapper, "
              "client.onaccept_tcp and server.main's new_channel on fake sockets, logging every micro-step with its socket outcomes, replaying the log on the extracted model and comparing the full state of both ends after every iteration. The tunnel's own file objects are covered too: the real ssh.connect (process creation faked, real socket pair) must never hold unread tunnel bytes where select cannot see them."),
        note="modelled not verified: kernel TCP sockets (outcomes are the environment's answers; send after shutdown fails with EPIPE), select readiness, the frame-level ssh link (its byte-level refinement is C07). Ghost flow numbers are model-only. The drain theorem quantifies over ONE eager schedule (existence), not over all fair schedules.",
        design="DESIGN.md §5 C01",
        technique="Coq proof (inductive pipeline invariant over all micro-step sequences, abstract view transition system + projection lemma) + micro-step-log differential correspondence"),
    "C02": dict(
        text=("24 theorems (Props/C02.v) on the same model and invariant as C01: if shutdown(SHUT_WR) was issued on the receiving socket and no socket call of that end failed, "
              "every byte read at the sending end was delivered first and the sender stopped reading (both directions, every reachable state without stale delivery); no stream "
              "payload follows a flow's EOF on the wire; the two directions are independent (half-close loses nothing); EOF/STOP are never echoed; a flow declared finished has both "
              "sockets shut, both buffers empty and both mux flags set. F22 (data-less half-close before the remote connect completes) is refuted with a kernel-evaluated witness and "
              "listed as a known finding, F20 (lingering handler) likewise observed on the real code. The quiescence sentence is proved in its safety form over quiescent states (Proofs/Stream_quiet.v): no undelivered data anywhere in the pipeline (c02_no_stuck_data); "
              "every remaining handler waits for its socket, for its peer, for a pending connect, or has the F20 shape (c02_quiet_handler_shape); no handler waits for a peer that is gone or that waits for it "
              "(c02_no_stuck_state_partial); the unrestricted sentence is refuted with the F20 witness (c02_no_stuck_state_refuted). That the loops reach such a state IS proved (c02_eventually_not_stuck, c02_drain_schedule; Proofs/Stream_drain.v: explicit eager schedule with a strictly decreasing variant, no step raises; without the stale-delivery escape clause from every clean state: c02_eventually_not_stuck_clean, c02_drain_schedule_clean). THE MAIN LOOP (Model/StreamLoop.v, Proofs/Stream_loop.v): runonce as a structured iteration over the same micro-steps (pre_select pass in handler order, select without timeout, callbacks); between iterations every live handler is settled (c02_loop_settled); an end that sleeps in select() has an empty queue and owes nothing (c02_no_lost_wakeup), both ends sleeping is quiescence; the as-found order is refuted (c02_no_lost_wakeup_asfound_refuted = finding F160, fixed in /repo 4d59b70). The driver checks every real iteration literally against the model's iteration and the harness's sleeping flag against sleepsb. On every quiescent generated run the harness also requires that the two tunnel ends of a flow agree on which directions are closed (the pairing the invariant proves)."),
        note="as C01. 'Bounded work' is the variant mu of the drain (a natural number computed from the state); the drain theorem is an existence statement for one eager schedule.",
        design="DESIGN.md §5 C02",
        technique="Coq proof (same inductive invariant; vi_clean / vi_dae clauses) + micro-step-log differential correspondence with close-order scenarios"),
    "C06": dict(
        text=("9 theorems (Props/C06.v): the allocator returns the FIRST free identifier on the cyclic walk, never 0, within 1..MAX_CHANNEL, and reports exhaustion only when the 1024 "
              "successors are all occupied (any MAX_CHANNEL, any occupancy); in EVERY reachable state of the two-ended system — incl. wrap-around — open flows on each end own pairwise "
              "distinct non-zero identifiers and the channel table holds exactly the open wrappers (registration invariant over all micro-step sequences); a message for an unregistered "
              "identifier changes nothing; a message for a registered one touches only that flow; RE-USE across the tunnel: in every reachable non-stale state, when the CONNECT of a re-used identifier is the next frame for the server, the server has already freed it (c06_peer_frees_first: the peer frees an identifier before it sees its re-use; Proofs/Stream_assert.v) and older incarnations sharing an identifier on one end are closed. UDP/DNS identifiers share the allocator and are covered by C10/C11's model."),
        note="as C01; the UDP/DNS closures registered in the same table are modelled in Model/Dgram.v (C10/C11), not in the stream model.",
        design="DESIGN.md §5 C06",
        technique="Coq proof (allocator lemmas by induction on the walk; registration invariant by induction over events) + micro-step-log correspondence with tiny identifier spaces"),
    "C08": dict(
        text=("8 theorems (Props/C08.v): a Proxy.callback never raises for any errno of recv/send/shutdown and any connect result among in-progress, connected and NET_ERRS+EACCES+EPERM; "
              "a socket error shuts that socket both ways; a callback of flow g (faulty or not) changes no wrapper and no pipeline view of any other flow; identifier exhaustion drops only "
              "the new connection; in every reachable state the dispatcher raises on no frame except through the CONNECT assertion or an unhandled connect errno, and in every reachable state without a stale delivery (no frame of an older incarnation reached a wrapper — C06's exclusion) the CONNECT assertion NEVER fires (c08_connect_assert_never_fires, proved in Proofs/Stream_assert.v from the registration, alignment, view and two new history invariants), so only an unhandled connect errno can make the dispatcher raise (c08_dispatch_no_crash). UDP/DNS faults (F3, F4, F10, F16, all fixed) are C10/C11's theorems."),
        note="as C01; process liveness beyond the modelled loops (signals, memory) is out of scope.",
        design="DESIGN.md §5 C08",
        technique="Coq proof (total step function with explicit Crash constructor; case analysis + registration/frame invariants) + fault-injection correspondence"),
    "C09": dict(
        text=("12 theorems (Props/C09.v): while an end waits for the acknowledgement no batch of callbacks/pre_selects of any flows queues a byte of stream payload, otherwise at most 2048 bytes "
              "per callback (so one loop iteration overshoots by at most 2048 x callbacks; runonce issues <= 4 per connection); check_fullness queues exactly one PING and pauses; every PING "
              "handled is answered regardless of the pause state; a PONG resumes and resets the budget; with latency control off no end is ever paused, in any run. "
              "'Every such request is eventually answered, so transfers always resume': proved in invariant form (Proofs/Stream_quiet.v) — while an end is paused its probe is OUTSTANDING (the PING 'rttest' is in its queue or on the link, or the PONG is in the peer's queue or on the link back: c09_outstanding, all runs, all I/O); "
              "hence with all queues and links drained no end is paused (c09_never_wedged) and a paused end is never part of a quiescent state (c09_paused_not_quiescent). And the pause ENDS: from every reachable state without stale delivery the eager schedule reaches, without raising, a state where neither end is paused (c09_pause_ends; Proofs/Stream_drain.v; from clean states without the stale-delivery escape clause: c09_pause_ends_clean). "
              "the harness's quiescence oracles report a stuck transfer and any complete message left undispatched in a Mux input buffer."),
        note="as C01. The per-connection constant relies on runonce calling a Proxy at most once per entry of its 4-element socks list (checked by the correspondence, not proved).",
        design="DESIGN.md §5 C09",
        technique="Coq proof (effect lemmas on the Mux queue, induction over event batches and runs) + correspondence with small buffer sizes"),
}

NOT_YET = {}


def main():
    props = [json.loads(l) for l in open(os.path.join(ROOT, "properties.jsonl"))]
    checks = []
    na = []
    for p in props:
        pid = p["id"]
        if pid in CHECKS and os.path.exists(os.path.join(ROOT, "harness", "props", pid.lower() + ".py")):
            c = CHECKS[pid]
            checks.append({
                "property_id": pid,
                "quick_cmd": "./check %s --tier quick" % pid,
                "thorough_cmd": "./check %s --tier thorough" % pid,
                "evidence_file": "/verif/evidence/%s.json" % pid,
                "replay_cmd_template": "./check %s --replay {path}" % pid,
                "engine": "coq-proof+correspondence",
                "level_claimed": {"category": "proof", "text": c["text"], "design_ref": c["design"]},
                "level_note": LEVEL_NOTE_COMMON + c["note"],
                "technique": c["technique"],
            })
        else:
            na.append({"property_id": pid,
                       "reason": NOT_YET.get(pid, "no check registered yet: the Coq model/proof and correspondence for this property are still being built (not a claim that the technique cannot apply)")})
    m = {
        "version": 1,
        "setup_cmd": "./setup.sh",
        "hooks": {
            "guard": "SSHUTTLE_VERIF",
            "enable": "no hooks are compiled into sshuttle: the harness patches module attributes from outside (PYTHONPATH=/repo)",
            "baseline_off_cmd": "cd /repo && /venv/bin/python -m pytest -ra -q -p no:cacheprovider --timeout=900 --continue-on-collection-errors",
            "source_commits": [],
            "add_only": True,
        },
        "engines": [{
            "name": "coq-proof+correspondence",
            "path": "/verif/coq, /verif/harness, /verif/drivers",
            "serves_properties": [c["property_id"] for c in checks],
            "kind_free_text": "Coq 8.16.1 development (Model/ Proofs/ Props/), constants regenerated from /repo by harness/gen_consts.py, extracted OCaml model run against the real Python code by harness/props/*.py",
        }],
        "checks": checks,
        "not_applicable": na,
        "notes": "See DESIGN.md. ./check <id> rebuilds the model and proofs (make, full .vo), re-checks Props/<id>.v with Print Assumptions, then runs the correspondence against /repo's working tree.",
    }
    with open(os.path.join(ROOT, "MANIFEST.json"), "w") as f:
        json.dump(m, f, indent=1)
        f.write("\n")


if __name__ == "__main__":
    main()
