"""Shared check framework: build, proof-obligation accounting, model driver
access, evidence files, violation/known-finding reporting.

A property module (harness/props/cNN.py) defines
    PROP = "C07"
    TRUSTED_BASE = [...]; ASSUMPTIONS = [...]
    def correspondence(ctx) -> None      # uses ctx.* helpers below
and is run through framework.main(module)."""
import hashlib
import json
import os
import random
import re
import subprocess
import sys
import time
import traceback

ROOT = os.path.dirname(os.path.dirname(os.path.abspath(__file__)))
sys.path.insert(0, os.path.join(ROOT, "harness"))
import build  # noqa: E402

REPO = os.environ.get("VERIF_REPO", "/repo")
COQ = os.path.join(ROOT, "coq")

ALLOWED_AXIOMS = {
    # standard-library axioms a theorem may depend on (none is used so far);
    # anything else listed by Print Assumptions makes the obligation undischarged
    "functional_extensionality_dep", "proof_irrelevance", "classic", "JMeq_eq",
    "Eqdep.Eq_rect_eq.eq_rect_eq", "eq_rect_eq", "propositional_extensionality",
}

KERNEL_TB = [
    "Coq 8.16.1 kernel (coqc; vm_compute used for finite sweeps, refutation witnesses and non-vacuity examples; native_compute not used)",
    "extraction: ExtrOcamlBasic only (its Extract Inductive for bool/option/unit/prod/list/sumbool/sumor and Extract Inlined Constant for andb/orb/negb/fst/snd...); no Extract Constant of our own; N/Z/positive/nat/ascii stay inductive",
    "hand-written OCaml driver (drivers/common.ml.in + drivers/<id>_driver.ml) and Python harness: trusted for the correspondence and counter-example search only",
    "harness/gen_consts.py (ast-based constant translator, fail-closed)",
]


class Ctx:
    def __init__(self, prop, tier, seed):
        self.prop = prop
        self.tier = tier
        self.seed = seed
        self.rng = random.Random(seed)
        self.t0 = time.time()
        self.driver = None
        self.evaluations = 0
        self.nontrivial = set()
        self.samples = []
        self.disagreements = []      # model vs implementation differences
        self.violations = []         # (description, replay dict) — property fails on the implementation
        self.known_hits = []         # known findings re-confirmed
        self.distribution = {}
        self.programs = 0
        self.notes = []
        self.extra = {}
        self.proof = None

    # -- counting helpers
    def count(self, key, n=1):
        self.distribution[key] = self.distribution.get(key, 0) + n

    def case(self, desc, nontrivial=True, sample=None):
        """register one explored case; desc is any hashable/str-able description"""
        self.evaluations += 1
        if nontrivial:
            h = hashlib.sha1(repr(desc).encode()).hexdigest()[:16]
            self.nontrivial.add(h)
        if sample is not None and len(self.samples) < 6:
            self.samples.append(sample)

    def quick(self):
        return self.tier != "thorough"

    # -- model access
    def run_driver(self, lines, driver=None):
        """feed lines to the extracted-model driver, return list of output lines"""
        drv = driver or self.driver
        if not lines:
            return []
        data = ("\n".join(lines) + "\n").encode()
        p = subprocess.run(["bash", "-c", "ulimit -s unlimited 2>/dev/null; exec %s" % drv],
                           input=data, stdout=subprocess.PIPE, stderr=subprocess.PIPE, timeout=3600)
        out = p.stdout.decode().split("\n")
        if out and out[-1] == "":
            out.pop()
        if p.returncode != 0 or len(out) != len(lines):
            raise RuntimeError("model driver failed rc=%s lines_in=%d lines_out=%d stderr=%s"
                               % (p.returncode, len(lines), len(out), p.stderr.decode()[-500:]))
        return out

    # -- results
    def disagree(self, what, case, impl, model, holds=None):
        """model and implementation differ on `case`. holds: result of the
        property oracle on the implementation's behaviour (True/False/None)."""
        self.disagreements.append({"what": what, "case": case, "impl": impl, "model": model,
                                   "property_holds_on_impl": holds})

    def violation(self, what, replay):
        self.violations.append((what, replay))

    def known(self, fid, text):
        self.known_hits.append((fid, text))


def load_known(prop):
    p = os.path.join(ROOT, "known_findings.json")
    if not os.path.exists(p):
        return {"findings": [], "fixed": []}
    with open(p) as f:
        d = json.load(f)
    return {"findings": [x for x in d.get("findings", []) if x.get("property") == prop],
            "fixed": [x for x in d.get("fixed", []) if x.get("property") == prop]}


def check_proofs(prop):
    """Re-run coqc on Props/<prop>.v (already built by make) to capture fresh
    Print Assumptions output. Returns dict(obligations, discharged, theorems, axioms, log, ok)."""
    src = os.path.join(COQ, "Props", "%s.v" % prop)
    text = open(src).read()
    thms = re.findall(r"^\s*(?:Theorem|Corollary)\s+([A-Za-z0-9_']+)", text, re.M)
    printed = re.findall(r"^\s*Print Assumptions\s+([A-Za-z0-9_']+)\s*\.", text, re.M)
    with build.Lock():
        rc, out = build.run(["timeout", "900", "coqc", "-Q", ".", "SV", "Props/%s.v" % prop], cwd=COQ, timeout=960)
    res = {"obligations": len(thms), "theorems": thms, "log": out[-3000:], "ok": rc == 0,
           "axioms": {}, "discharged": 0, "missing_print": [t for t in thms if t not in printed]}
    if rc != 0:
        m = re.search(r'line (\d+)', out)
        res["failed_line"] = int(m.group(1)) if m else None
        if m:
            upto = text.split("\n")[: int(m.group(1))]
            names = re.findall(r"^\s*(?:Theorem|Corollary|Example|Lemma)\s+([A-Za-z0-9_']+)", "\n".join(upto), re.M)
            res["failed_theorem"] = names[-1] if names else None
        return res
    # split output per Print Assumptions, in order
    blocks = re.split(r"(?=^Closed under the global context|^Axioms:)", out, flags=re.M)
    blocks = [b for b in blocks if b.startswith("Closed") or b.startswith("Axioms:")]
    for name, blk in zip(printed, blocks):
        if blk.startswith("Closed"):
            res["axioms"][name] = []
        else:
            ax = re.findall(r"^([A-Za-z0-9_.']+)\s*:", blk, re.M)
            res["axioms"][name] = ax
    ok = 0
    for t in thms:
        if t in res["axioms"] and all(a.split(".")[-1] in ALLOWED_AXIOMS or a in ALLOWED_AXIOMS for a in res["axioms"][t]):
            ok += 1
    res["discharged"] = ok
    return res


def run_coqchk(prop):
    """Thorough tier: re-check Props/<prop>.vo and everything it depends on with the
    independent checker, and read the axiom / unsafe-feature summary it prints."""
    with build.Lock():
        rc, out = build.run(["timeout", "1500", "coqchk", "-silent", "-o", "-Q", ".", "SV", "SV.Props.%s" % prop],
                            cwd=COQ, timeout=1560)
    summ = out[out.find("CONTEXT SUMMARY"):] if "CONTEXT SUMMARY" in out else out[-1500:]
    items = dict(re.findall(r"^\* ([^:\n]+):\s*(.*?)\s*$", summ, re.M))
    clean = (rc == 0 and items.get("Axioms") == "<none>"
             and items.get("Constants/Inductives relying on type-in-type") == "<none>"
             and items.get("Constants/Inductives relying on unsafe (co)fixpoints") == "<none>"
             and items.get("Inductives whose positivity is assumed") == "<none>")
    return {"rc": rc, "clean": clean, "summary": items, "log": summ[-1500:]}


def write_replay(prop, seed, payload):
    d = os.path.join(ROOT, "replays")
    os.makedirs(d, exist_ok=True)
    h = hashlib.sha1(json.dumps(payload, sort_keys=True, default=str).encode()).hexdigest()[:10]
    p = os.path.join(d, "%s_%s.json" % (prop, h))
    with open(p, "w") as f:
        json.dump(payload, f, indent=1, sort_keys=True, default=str)
    return p


def write_evidence(ctx, mod, proof, violations_n, build_error=None):
    cov = {
        "obligations": max(1, proof.get("obligations", 0)) if proof else 1,
        "discharged": proof.get("discharged", 0) if proof else 0,
        "checker_cmd": "cd /verif/coq && make Props/%s.vo && coqc -Q . SV Props/%s.v  (Print Assumptions under every theorem)" % (ctx.prop, ctx.prop),
        "trusted_base": KERNEL_TB + list(getattr(mod, "TRUSTED_BASE", [])),
        "theorems": proof.get("theorems", []) if proof else [],
        "axioms_per_theorem": proof.get("axioms", {}) if proof else {},
        "evaluations": ctx.evaluations,
        "distinct_nontrivial": len(ctx.nontrivial),
        "rule": getattr(mod, "RULE", ""),
        "samples": ctx.samples or ["(no correspondence case was run)"],
        "programs": ctx.programs or ctx.evaluations,
        "disagreements_checked": len(ctx.disagreements),
        "traces_validated_against_impl": ctx.evaluations,
        "input_distribution": ctx.distribution,
        "known_findings_reconfirmed": [k[0] for k in ctx.known_hits],
        "exhaustive": bool(ctx.extra.get("exhaustive", False)),
        "notes": ctx.notes,
    }
    for k, v in ctx.extra.items():
        cov.setdefault(k, v)
    if build_error:
        cov["build_error"] = build_error
    ev = {
        "property_id": ctx.prop,
        "tier": "thorough" if ctx.tier == "thorough" else "quick",
        "seed": ctx.seed,
        "level": "proof",
        "coverage": cov,
        "assumptions": list(getattr(mod, "ASSUMPTIONS", [])),
        "wall_s": round(time.time() - ctx.t0, 2),
        "violations": violations_n,
    }
    d = os.path.join(ROOT, "evidence")
    os.makedirs(d, exist_ok=True)
    with open(os.path.join(d, "%s.json" % ctx.prop), "w") as f:
        json.dump(ev, f, indent=1, sort_keys=True, default=str)


def main(mod):
    import argparse
    ap = argparse.ArgumentParser()
    ap.add_argument("--tier", default=os.environ.get("VERIF_TIER", "quick"))
    ap.add_argument("--replay", default=None)
    a = ap.parse_args(sys.argv[2:] if len(sys.argv) > 1 and re.match(r"C\d+$", sys.argv[1]) else sys.argv[1:])
    seed = int(os.environ.get("VERIF_SEED", "20260930") or 0)
    prop = mod.PROP
    ctx = Ctx(prop, a.tier, seed)
    lines = []      # VIOLATION lines
    proof = None
    build_error = None

    if a.replay:
        rp = json.load(open(a.replay))
        try:
            ctx.driver = build.build_for(prop, getattr(mod, 'DRIVER_PROP', None))
        except build.BuildError as e:
            print("build failed: %s" % e.stage)
            if e.stage != "gen_consts":
                return 2
            # same fallback as in a full run: the committed constants stand in, the stored input is still replayed
            try:
                with build.Lock():
                    dp = getattr(mod, "DRIVER_PROP", None) or prop
                    if os.path.exists(os.path.join(COQ, "Extract", "%s_extract.v" % dp)):
                        build.coq_make(["Extract/%s_extract.vo" % dp])
                        ctx.driver = build.build_driver(dp)
            except build.BuildError as e2:
                print("build with the committed constants failed: %s" % e2.stage)
                return 2
        r = mod.replay(ctx, rp)
        print("replay result:", r)
        return 1 if r else 0

    # 1. rebuild model + proofs from the current tree
    try:
        ctx.driver = build.build_for(prop, getattr(mod, 'DRIVER_PROP', None))
    except build.BuildError as e:
        build_error = {"stage": e.stage, "log": e.log[-3000:]}
    if build_error is None:
        proof = check_proofs(prop)
        ctx.proof = proof
        if a.tier == "thorough" and proof["ok"]:
            chk = run_coqchk(prop)
            ctx.extra["coqchk"] = {"cmd": "cd /verif/coq && coqchk -silent -o -Q . SV SV.Props.%s" % prop,
                                   "clean": chk["clean"], "summary": chk["summary"]}
            if not chk["clean"]:
                proof["ok"] = False
                proof["failed_theorem"] = "(coqchk)"
                proof["log"] = chk["log"]
    elif build_error["stage"] == "gen_consts":
        # A constant could not be extracted from the sources: the tie between model and code is broken and is reported
        # below, as ever.  gen_consts.py has put the COMMITTED value of that constant in its place (when it has one), so
        # the model and the proofs are built with it and the correspondence still searches for a failing input: if it
        # finds one the run reports that input, otherwise the broken tie alone (no-failing-input-found).
        ctx.notes.append("constants: %s" % build_error["log"].strip()[-600:])
        try:
            with build.Lock():
                build.scan_forbidden()
                dp = getattr(mod, "DRIVER_PROP", None) or prop
                has_ext = os.path.exists(os.path.join(COQ, "Extract", "%s_extract.v" % dp))
                build.coq_make(["Props/%s.vo" % prop] + (["Extract/%s_extract.vo" % dp] if has_ext else []))
                if has_ext:
                    ctx.driver = build.build_driver(dp)
            proof = check_proofs(prop)
            ctx.proof = proof
        except build.BuildError as e2:
            ctx.notes.append("build with the committed constants failed at: %s" % e2.stage)
    else:
        # model may still be runnable even if a proof broke: try to get the driver alone
        try:
            with build.Lock():
                dp = getattr(mod, "DRIVER_PROP", None) or prop
                ext = "Extract/%s_extract.vo" % dp
                if os.path.exists(os.path.join(COQ, "Extract", "%s_extract.v" % dp)):
                    build.coq_make([ext])
                    ctx.driver = build.build_driver(dp)
        except build.BuildError:
            ctx.driver = None

    # 2. correspondence + oracle on the real code
    corr_error = None
    try:
        mod.correspondence(ctx)
    except BaseException:          # incl. SystemExit / KeyboardInterrupt raised by the code under check
        corr_error = traceback.format_exc()

    known = load_known(prop)
    known_ids = {k["id"] for k in known["findings"]}

    # 3. classify
    #    a) oracle failures on the implementation = violations with concrete replays
    #       (one line per distinct kind of failure, smallest witness first; at most 8 lines)
    by_what = {}
    for what, rep in ctx.violations:
        fid = rep.get("finding_id")
        if fid and fid in known_ids:
            continue
        size = len(json.dumps(rep, default=str))
        if what not in by_what or size < by_what[what][0]:
            by_what[what] = (size, rep, by_what.get(what, (0, 0, 0))[2] + 1)
        else:
            by_what[what] = (by_what[what][0], by_what[what][1], by_what[what][2] + 1)
    for what in sorted(by_what)[:8]:
        size, rep, n = by_what[what]
        path = write_replay(prop, seed, {"property": prop, "kind": "failing-input", "what": what,
                                         "replay": rep, "seed": seed, "failing_cases_of_this_kind": n})
        lines.append("VIOLATION property=%s replay=%s" % (prop, path))
    #    b) broken proof obligation / broken correspondence with no failing input
    broken = []
    if build_error is not None:
        broken.append("build: %s\n%s" % (build_error["stage"], build_error["log"][-1500:]))
    if proof is not None:
        if not proof["ok"]:
            broken.append("theorem no longer checks: %s (Props/%s.v line %s)\n%s"
                          % (proof.get("failed_theorem"), prop, proof.get("failed_line"), proof["log"][-1500:]))
        elif proof["discharged"] != proof["obligations"] or proof["missing_print"]:
            broken.append("obligations %d discharged %d; axioms: %r; theorems without Print Assumptions: %r"
                          % (proof["obligations"], proof["discharged"], proof["axioms"], proof["missing_print"]))
    if corr_error is not None:
        broken.append("correspondence harness crashed:\n%s" % corr_error[-2500:])
    for d in ctx.disagreements:
        broken.append("model/implementation disagreement: %s" % json.dumps(d, default=str)[:2000])
    if broken and not lines:
        path = write_replay(prop, seed, {"property": prop, "kind": "no-failing-input-found",
                                         "broken": broken, "seed": seed})
        lines.append("VIOLATION property=%s replay=%s no-failing-input-found" % (prop, path))

    seen_known = {}
    for fid, text in ctx.known_hits:
        seen_known.setdefault(fid, [text, 0])[1] += 1
    for fid in sorted(seen_known):
        if fid in known_ids:
            text, cnt = seen_known[fid]
            print("KNOWN-FINDING: property=%s %s %s%s" % (prop, fid, text, " (re-confirmed %d times in this run)" % cnt if cnt > 1 else ""))
    write_evidence(ctx, mod, proof, len(lines), build_error)
    print("%s tier=%s seed=%d evaluations=%d distinct_nontrivial=%d obligations=%s discharged=%s disagreements=%d wall=%.1fs"
          % (prop, ctx.tier, seed, ctx.evaluations, len(ctx.nontrivial),
             proof and proof["obligations"], proof and proof["discharged"], len(ctx.disagreements),
             time.time() - ctx.t0))
    for ln in lines:
        print(ln)
    return 1 if lines else 0
